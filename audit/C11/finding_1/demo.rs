//! C11 audit, finding 1: a PSBT whose `partial_sigs` field holds a 73-byte ECDSA signature
//! (72-byte DER + sighash byte; perfectly DER-valid, just with a 33-byte R and a 33-byte S)
//! makes the finalizer panic inside `util::witness_to_scriptsig` instead of returning an error.

use std::panic::{catch_unwind, AssertUnwindSafe};

use miniscript::bitcoin::hashes::Hash;
use miniscript::bitcoin::psbt::Psbt;
use miniscript::bitcoin::secp256k1::{self, Secp256k1};
use miniscript::bitcoin::{
    self, absolute, ecdsa, transaction, Amount, OutPoint, PublicKey, ScriptBuf, Sequence,
    Transaction, TxIn, TxOut, Txid, Witness,
};
use miniscript::psbt::PsbtExt;
use miniscript::{Descriptor, Legacy, Miniscript};

fn key(b: u8) -> PublicKey {
    let secp = Secp256k1::new();
    let sk = secp256k1::SecretKey::from_slice(&[b; 32]).unwrap();
    PublicKey::new(secp256k1::PublicKey::from_secret_key(&secp, &sk))
}

/// An ECDSA signature whose r and s both have the top bit set: DER needs a 0x00 pad for each,
/// so DER length is 6 + 33 + 33 = 72 bytes, 73 with the sighash byte.  This is the maximal
/// size of a strict-DER signature (BIP 66); consensus accepts such encodings (the signature
/// is merely "high S", which is a policy rule, BIP 146 LOW_S).
fn sig_73() -> ecdsa::Signature {
    let mut compact = [0u8; 64];
    compact[0] = 0x80;
    compact[31] = 0x01;
    compact[32] = 0x80;
    compact[63] = 0x01;
    let signature = secp256k1::ecdsa::Signature::from_compact(&compact).unwrap();
    let sig = ecdsa::Signature { signature, sighash_type: bitcoin::EcdsaSighashType::All };
    assert_eq!(sig.to_vec().len(), 73);
    // It is a valid PSBT partial-sig payload: round-trips through the strict DER parser.
    assert_eq!(ecdsa::Signature::from_slice(&sig.to_vec()).unwrap(), sig);
    sig
}

fn psbt_spending(spk: ScriptBuf) -> Psbt {
    let prev = Transaction {
        version: transaction::Version::TWO,
        lock_time: absolute::LockTime::ZERO,
        input: vec![TxIn {
            previous_output: OutPoint { txid: Txid::all_zeros(), vout: 7 },
            script_sig: ScriptBuf::new(),
            sequence: Sequence::MAX,
            witness: Witness::default(),
        }],
        output: vec![TxOut { value: Amount::from_sat(100_000), script_pubkey: spk }],
    };
    let tx = Transaction {
        version: transaction::Version::TWO,
        lock_time: absolute::LockTime::ZERO,
        input: vec![TxIn {
            previous_output: OutPoint { txid: prev.compute_txid(), vout: 0 },
            script_sig: ScriptBuf::new(),
            sequence: Sequence::MAX,
            witness: Witness::default(),
        }],
        output: vec![TxOut { value: Amount::from_sat(90_000), script_pubkey: ScriptBuf::new() }],
    };
    let mut psbt = Psbt::from_unsigned_tx(tx).unwrap();
    psbt.inputs[0].non_witness_utxo = Some(prev);
    psbt
}

#[test]
fn finalizer_must_not_panic_on_73_byte_partial_sig_in_p2sh() {
    let pk = key(1);
    let ms: Miniscript<PublicKey, Legacy> = format!("pk({})", pk).parse().unwrap();
    let redeem = ms.encode();
    let desc: Descriptor<PublicKey> = format!("sh(pk({}))", pk).parse().unwrap();

    let mut psbt = psbt_spending(desc.script_pubkey());
    psbt.inputs[0].redeem_script = Some(redeem);
    psbt.inputs[0].partial_sigs.insert(pk, sig_73());

    // the PSBT is structurally valid: it survives a serialize / deserialize round trip.
    let psbt = Psbt::deserialize(&psbt.serialize()).expect("structurally valid PSBT");

    let secp = Secp256k1::verification_only();
    let res = catch_unwind(AssertUnwindSafe(|| {
        let mut p = psbt.clone();
        p.finalize_mut(&secp).map_err(|e| format!("{:?}", e))
    }));
    match res {
        Ok(Err(e)) => println!("finalizer reported an error value, as C11 demands: {}", e),
        Ok(Ok(())) => println!("finalizer succeeded (also no crash)"),
        Err(p) => {
            let msg = p
                .downcast_ref::<String>()
                .cloned()
                .or_else(|| p.downcast_ref::<&str>().map(|s| s.to_string()))
                .unwrap_or_default();
            panic!(
                "C11 violated: PsbtExt::finalize_mut panicked on a structurally valid PSBT \
                 (73-byte partial signature) instead of returning an error: {}",
                msg
            );
        }
    }
}

/// Same thing through the single-input entry points, in malleable mode.
#[test]
fn finalize_inp_mall_must_not_panic_on_73_byte_partial_sig_in_p2sh_multi() {
    let (k1, k2) = (key(1), key(2));
    let ms: Miniscript<PublicKey, Legacy> = format!("multi(1,{},{})", k1, k2).parse().unwrap();
    let desc: Descriptor<PublicKey> = format!("sh(multi(1,{},{}))", k1, k2).parse().unwrap();

    let mut psbt = psbt_spending(desc.script_pubkey());
    psbt.inputs[0].redeem_script = Some(ms.encode());
    psbt.inputs[0].partial_sigs.insert(k2, sig_73());

    let secp = Secp256k1::verification_only();
    let res = catch_unwind(AssertUnwindSafe(|| {
        let mut p = psbt.clone();
        p.finalize_inp_mall_mut(&secp, 0).map_err(|e| format!("{:?}", e))
    }));
    assert!(
        res.is_ok(),
        "C11 violated: PsbtExt::finalize_inp_mall_mut panicked on a structurally valid PSBT \
         (73-byte partial signature) instead of returning an error"
    );
}
