//! C11 audit, finding 5: a structurally valid PSBT for a taproot script-path spend whose leaf is
//! `pkh(X)` (script `DUP HASH160 <hash160(X)> EQUALVERIFY CHECKSIG`, i.e. what `tr(K,pkh(X))`
//! produces) makes every `finalize_*` entry point panic with
//! "the same satisfier should manage to complete the template" when the signature for X is
//! present in `tap_script_sigs` but X is not listed in `tap_key_origins`.

use std::panic::{catch_unwind, AssertUnwindSafe};
use std::str::FromStr;

use miniscript::bitcoin::hashes::Hash;
use miniscript::bitcoin::psbt::Psbt;
use miniscript::bitcoin::secp256k1::{self, Secp256k1, XOnlyPublicKey};
use miniscript::bitcoin::taproot::{self, LeafVersion, TapLeafHash};
use miniscript::bitcoin::{
    absolute, bip32, transaction, Amount, OutPoint, ScriptBuf, Sequence, TapSighashType,
    Transaction, TxIn, TxOut, Txid, Witness,
};
use miniscript::psbt::PsbtExt;
use miniscript::Descriptor;

fn xonly(b: u8) -> XOnlyPublicKey {
    let secp = Secp256k1::new();
    let sk = secp256k1::SecretKey::from_slice(&[b; 32]).unwrap();
    secp256k1::PublicKey::from_secret_key(&secp, &sk).x_only_public_key().0
}

fn build(with_key_origin: bool) -> Psbt {
    let (internal, x) = (xonly(1), xonly(2));
    // Let the library itself produce the output script / leaf script / control block.
    let desc = Descriptor::<XOnlyPublicKey>::from_str(&format!("tr({},pkh({}))", internal, x)).unwrap();
    let tr = match &desc {
        Descriptor::Tr(tr) => tr,
        _ => unreachable!(),
    };
    let info = tr.spend_info();
    let leaf = info.leaves().next().unwrap();
    let script = ScriptBuf::from(leaf.script());
    let control_block = leaf.control_block().clone();
    let leaf_hash = TapLeafHash::from_script(&script, LeafVersion::TapScript);

    let tx = Transaction {
        version: transaction::Version::TWO,
        lock_time: absolute::LockTime::ZERO,
        input: vec![TxIn {
            previous_output: OutPoint { txid: Txid::all_zeros(), vout: 0 },
            script_sig: ScriptBuf::new(),
            sequence: Sequence::MAX,
            witness: Witness::default(),
        }],
        output: vec![TxOut { value: Amount::from_sat(90_000), script_pubkey: ScriptBuf::new() }],
    };
    let mut psbt = Psbt::from_unsigned_tx(tx).unwrap();
    let inp = &mut psbt.inputs[0];
    inp.witness_utxo =
        Some(TxOut { value: Amount::from_sat(100_000), script_pubkey: desc.script_pubkey() });
    inp.tap_internal_key = Some(internal);
    inp.tap_merkle_root = info.merkle_root();
    inp.tap_scripts.insert(control_block, (script, LeafVersion::TapScript));
    // A signature by X for this leaf (content irrelevant for the crash: it is never verified
    // before the panic; with a real signature this is simply a fully signed PSBT).
    let sig = taproot::Signature {
        signature: secp256k1::schnorr::Signature::from_slice(&[0xab; 64]).unwrap(),
        sighash_type: TapSighashType::Default,
    };
    inp.tap_script_sigs.insert((x, leaf_hash), sig);
    if with_key_origin {
        inp.tap_key_origins.insert(
            x,
            (vec![leaf_hash], (bip32::Fingerprint::default(), bip32::DerivationPath::default())),
        );
    }
    Psbt::deserialize(&psbt.serialize()).expect("structurally valid PSBT")
}

fn finalize(psbt: &Psbt, mall: bool) -> Result<Result<(), String>, String> {
    let secp = Secp256k1::verification_only();
    catch_unwind(AssertUnwindSafe(|| {
        let mut p = psbt.clone();
        if mall {
            p.finalize_inp_mall_mut(&secp, 0).map_err(|e| format!("{:?}", e))
        } else {
            p.finalize_mut(&secp).map_err(|e| format!("{:?}", e))
        }
    }))
    .map_err(|p| {
        p.downcast_ref::<String>()
            .cloned()
            .or_else(|| p.downcast_ref::<&str>().map(|s| s.to_string()))
            .unwrap_or_default()
    })
}

#[test]
fn control_with_tap_key_origin_is_an_error_value() {
    // With X in tap_key_origins the finalizer builds the witness and the interpreter check then
    // rejects the dummy signature: an ordinary error value.
    let r = finalize(&build(true), false);
    println!("{:?}", r);
    assert!(matches!(r, Ok(Err(_))));
}

#[test]
fn without_tap_key_origin_must_not_panic() {
    let psbt = build(false);
    let results: Vec<_> = [false, true].iter().map(|&mall| (mall, finalize(&psbt, mall))).collect();
    for (mall, r) in &results {
        println!("malleable mode {} -> {:?}", mall, r);
    }
    for (mall, r) in results {
        assert!(
            r.is_ok(),
            "C11 violated: the PSBT finalizer (malleable mode: {}) panicked on a structurally valid \
             PSBT instead of returning an error value: {}",
            mall,
            r.unwrap_err()
        );
    }
}
