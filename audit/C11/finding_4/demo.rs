//! C11 audit, finding 4 (builds with debug assertions only, i.e. `cargo build`/`cargo test`
//! default profile): a structurally valid PSBT whose witness script contains a raw
//! public-key-hash (`DUP HASH160 <h> EQUALVERIFY CHECKSIG`) and whose `partial_sigs` map holds the
//! matching *uncompressed* key makes the finalizer panic on
//! `debug_assert!(1 + pk.len() == *size)` in `Placeholder::satisfy_self`
//! (src/miniscript/satisfy/mod.rs) instead of returning an error.

use std::panic::{catch_unwind, AssertUnwindSafe};

use miniscript::bitcoin::hashes::{hash160, Hash};
use miniscript::bitcoin::opcodes::all::{OP_CHECKSIG, OP_DUP, OP_EQUALVERIFY, OP_HASH160};
use miniscript::bitcoin::psbt::Psbt;
use miniscript::bitcoin::script::Builder;
use miniscript::bitcoin::secp256k1::{self, Secp256k1};
use miniscript::bitcoin::{
    self, absolute, ecdsa, transaction, Amount, OutPoint, PublicKey, ScriptBuf, Sequence,
    Transaction, TxIn, TxOut, Txid, Witness,
};
use miniscript::psbt::PsbtExt;

fn any_sig() -> ecdsa::Signature {
    let mut compact = [0x11u8; 64];
    compact[0] = 0x01;
    compact[32] = 0x01;
    ecdsa::Signature {
        signature: secp256k1::ecdsa::Signature::from_compact(&compact).unwrap(),
        sighash_type: bitcoin::EcdsaSighashType::All,
    }
}

fn psbt_for(witness_script: &ScriptBuf) -> Psbt {
    let tx = Transaction {
        version: transaction::Version::TWO,
        lock_time: absolute::LockTime::ZERO,
        input: vec![TxIn {
            previous_output: OutPoint { txid: Txid::all_zeros(), vout: 0 },
            script_sig: ScriptBuf::new(),
            sequence: Sequence::MAX,
            witness: Witness::default(),
        }],
        output: vec![TxOut { value: Amount::from_sat(90_000), script_pubkey: ScriptBuf::new() }],
    };
    let mut psbt = Psbt::from_unsigned_tx(tx).unwrap();
    psbt.inputs[0].witness_utxo =
        Some(TxOut { value: Amount::from_sat(100_000), script_pubkey: witness_script.to_p2wsh() });
    psbt.inputs[0].witness_script = Some(witness_script.clone());
    psbt
}

fn run(pk: PublicKey) -> Result<Result<(), String>, String> {
    // c:expr_raw_pkh(hash160(pk)): the classic P2PKH script used as a P2WSH witness script.
    let h = hash160::Hash::hash(&pk.to_bytes());
    let ws = Builder::new()
        .push_opcode(OP_DUP)
        .push_opcode(OP_HASH160)
        .push_slice(h.to_byte_array())
        .push_opcode(OP_EQUALVERIFY)
        .push_opcode(OP_CHECKSIG)
        .into_script();
    let mut psbt = psbt_for(&ws);
    psbt.inputs[0].partial_sigs.insert(pk, any_sig());
    let psbt = Psbt::deserialize(&psbt.serialize()).expect("structurally valid PSBT");

    let secp = Secp256k1::verification_only();
    catch_unwind(AssertUnwindSafe(|| {
        let mut p = psbt.clone();
        p.finalize_mut(&secp).map_err(|e| format!("{:?}", e))
    }))
    .map_err(|p| {
        p.downcast_ref::<String>()
            .cloned()
            .or_else(|| p.downcast_ref::<&str>().map(|s| s.to_string()))
            .unwrap_or_default()
    })
}

#[test]
fn raw_pkh_with_uncompressed_partial_sig_key() {
    let secp = Secp256k1::new();
    let sk = secp256k1::SecretKey::from_slice(&[3; 32]).unwrap();
    let inner = secp256k1::PublicKey::from_secret_key(&secp, &sk);

    // control: compressed key -> plain error (the signature is a dummy), no crash
    let r = run(PublicKey::new(inner));
    println!("compressed key: {:?}", r);
    assert!(matches!(r, Ok(Err(_))), "control must yield an error value");

    // uncompressed key (never valid in segwit v0, BIP 143 policy): must also be an error value
    let r = run(PublicKey::new_uncompressed(inner));
    println!("uncompressed key: {:?}", r);
    assert!(
        r.is_ok(),
        "C11 violated: PsbtExt::finalize_mut panicked on a structurally valid PSBT instead of \
         returning an error: {}",
        r.unwrap_err()
    );
}
