//! C11 audit, finding 3: `WalletPolicy::into_descriptor` panics (instead of returning its
//! `WalletPolicyError`) when the key-information vector handed to `set_key_info` contains a key
//! that is not admissible in the template's script context (an uncompressed key in `wsh`/`tr`,
//! an x-only key in `wsh`/`sh`).  Both the template and the keys are plain parsed text.

use std::panic::{catch_unwind, AssertUnwindSafe};
use std::str::FromStr;

use miniscript::descriptor::WalletPolicy;
use miniscript::DescriptorPublicKey;

const UNCOMPRESSED: &str = "04a34b99f22c790c4e36b2b3c2c35a36db06226e41c692fc82b8b56ac1c540c5bd5b8dec5235a0fa8722476c7709c02559e3aa73aa03918ba2d492eea75abea235";
const XONLY: &str = "a34b99f22c790c4e36b2b3c2c35a36db06226e41c692fc82b8b56ac1c540c5bd";
const XPUB: &str = "[6738736c/48'/0'/0'/2']xpub6FC1fXFP1GXLX5TKtcjHGT4q89SDRehkQLtbKJ2PzWcvbBHtyDsJPLtpLtkGqYNYZdVVAjRQ5kug9CsapegmmeRutpP7PW4u4wVF9JfkDhw/<0;1>/*";

fn check(template: &str, keys: &[&str]) {
    // every piece of input goes through a parser and is accepted
    let mut wp = WalletPolicy::from_str(template).expect("valid BIP-388 template");
    let keys: Vec<DescriptorPublicKey> =
        keys.iter().map(|k| DescriptorPublicKey::from_str(k).expect("valid key")).collect();
    wp.set_key_info(&keys).expect("right number of keys");

    let res = catch_unwind(AssertUnwindSafe(|| {
        wp.clone().into_descriptor().map(|d| d.to_string()).map_err(|e| e.to_string())
    }));
    match res {
        Ok(r) => println!("{} + {:?} -> {:?}", template, keys.iter().map(|k| k.to_string()).collect::<Vec<_>>(), r),
        Err(p) => {
            let msg = p
                .downcast_ref::<String>()
                .cloned()
                .or_else(|| p.downcast_ref::<&str>().map(|s| s.to_string()))
                .unwrap_or_default();
            panic!(
                "C11 violated: WalletPolicy::into_descriptor (which returns Result<_, WalletPolicyError>) \
                 panicked for template {} instead of reporting the unusable key as an error value: {}",
                template, msg
            );
        }
    }
}

#[test]
fn control_good_keys() {
    check("wsh(sortedmulti(2,@0/**,@1/**))", &[XPUB, &XPUB.replace("<0;1>", "<2;3>")]);
}

#[test]
fn uncompressed_key_for_wsh_template() { check("wsh(pk(@0/**))", &[UNCOMPRESSED]); }

#[test]
fn xonly_key_for_wsh_template() { check("wsh(and_v(v:pk(@0/**),pk(@1/**)))", &[XPUB, XONLY]); }

#[test]
fn uncompressed_key_for_tr_template() { check("tr(@0/**)", &[UNCOMPRESSED]); }
