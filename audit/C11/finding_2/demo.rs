//! C11 audit, finding 2: a descriptor string whose extended key cannot be derived because the
//! BIP32 depth byte would overflow (xpub already at depth 255 with one more step, or any xpub
//! followed by 256 unhardened steps) is accepted by every parser
//! (`DescriptorPublicKey`, `DefiniteDescriptorKey`, `Descriptor<_>`), and then the first use of
//! the parsed object (script_pubkey / address / derived_descriptor / PSBT updater) panics with
//! "internal error: entered unreachable code: cryptographically unreachable: maximum depth exceeded".

use std::panic::{catch_unwind, AssertUnwindSafe};
use std::str::FromStr;

use miniscript::bitcoin::bip32::Xpub;
use miniscript::bitcoin::hashes::Hash;
use miniscript::bitcoin::psbt::Psbt;
use miniscript::bitcoin::secp256k1::Secp256k1;
use miniscript::bitcoin::{
    absolute, transaction, Amount, OutPoint, ScriptBuf, Sequence, Transaction, TxIn, TxOut, Txid,
    Witness,
};
use miniscript::psbt::{PsbtExt, PsbtInputExt};
use miniscript::{DefiniteDescriptorKey, Descriptor, DescriptorPublicKey};

const XPUB: &str = "xpub6ERApfZwUNrhLCkDtcHTcxd75RbzS1ed54G1LkBUHQVHQKqhMkhgbmJbZRkrgZw4koxb5JaHWkY4ALHY2grBGRjaDMzQLcgJvLJuZZvRcEL";

fn no_panic<T>(what: &str, f: impl FnOnce() -> T) -> T {
    match catch_unwind(AssertUnwindSafe(f)) {
        Ok(v) => v,
        Err(p) => {
            let msg = p
                .downcast_ref::<String>()
                .cloned()
                .or_else(|| p.downcast_ref::<&str>().map(|s| s.to_string()))
                .unwrap_or_default();
            panic!("C11 violated: {} panicked instead of returning an error value: {}", what, msg)
        }
    }
}

/// A perfectly well-formed base58check xpub whose depth byte is 255 (an attacker / counterparty
/// chooses the bytes of the xpub he hands over).
fn xpub_depth_255() -> String {
    let mut x = Xpub::from_str(XPUB).unwrap();
    x.depth = 255;
    let s = x.to_string();
    assert_eq!(Xpub::from_str(&s).unwrap().depth, 255);
    s
}

#[test]
fn long_derivation_path_text_only() {
    // Pure text input: a normal xpub followed by 256 unhardened steps.
    let s = format!("wpkh({}{})", XPUB, "/0".repeat(256));
    // The property allows two outcomes: a parse error, or an object that works.
    let desc = match no_panic("Descriptor::<DefiniteDescriptorKey>::from_str", || {
        Descriptor::<DefiniteDescriptorKey>::from_str(&s)
    }) {
        Err(e) => {
            println!("rejected at parse time (fine): {}", e);
            return;
        }
        Ok(d) => d,
    };
    no_panic("Descriptor::<DefiniteDescriptorKey>::script_pubkey on a parsed descriptor", || {
        desc.script_pubkey()
    });
}

#[test]
fn depth_255_xpub_wildcard_descriptor() {
    let s = format!("wsh(multi(1,{}/*,{}/1/*))", xpub_depth_255(), XPUB);
    let desc = match no_panic("Descriptor::<DescriptorPublicKey>::from_str", || {
        Descriptor::<DescriptorPublicKey>::from_str(&s)
    }) {
        Err(e) => {
            println!("rejected at parse time (fine): {}", e);
            return;
        }
        Ok(d) => d,
    };
    // at_derivation_index returns a Result, so a key that cannot be derived has a channel to be
    // reported through.
    let definite = match no_panic("at_derivation_index", || desc.at_derivation_index(0)) {
        Err(e) => {
            println!("rejected by at_derivation_index (fine): {}", e);
            return;
        }
        Ok(d) => d,
    };
    let secp = Secp256k1::verification_only();
    let r = no_panic("Descriptor::derived_descriptor", || definite.derived_descriptor(&secp));
    println!("derived: {}", r);
}

#[test]
fn psbt_updater_with_depth_255_xpub() {
    let s = format!("wpkh({}/0)", xpub_depth_255());
    let desc = match Descriptor::<DefiniteDescriptorKey>::from_str(&s) {
        Err(e) => {
            println!("rejected at parse time (fine): {}", e);
            return;
        }
        Ok(d) => d,
    };
    let tx = Transaction {
        version: transaction::Version::TWO,
        lock_time: absolute::LockTime::ZERO,
        input: vec![TxIn {
            previous_output: OutPoint { txid: Txid::all_zeros(), vout: 0 },
            script_sig: ScriptBuf::new(),
            sequence: Sequence::MAX,
            witness: Witness::default(),
        }],
        output: vec![TxOut { value: Amount::from_sat(1), script_pubkey: ScriptBuf::new() }],
    };
    let mut psbt = Psbt::from_unsigned_tx(tx).unwrap();
    psbt.inputs[0].witness_utxo =
        Some(TxOut { value: Amount::from_sat(2), script_pubkey: ScriptBuf::new() });

    let r = no_panic("PsbtExt::update_input_with_descriptor", || {
        psbt.update_input_with_descriptor(0, &desc).map_err(|e| e.to_string())
    });
    println!("update_input_with_descriptor -> {:?}", r);
    let r = no_panic("PsbtInputExt::update_with_descriptor_unchecked", || {
        psbt.inputs[0].update_with_descriptor_unchecked(&desc).map(|d| d.to_string()).map_err(|e| e.to_string())
    });
    println!("update_with_descriptor_unchecked -> {:?}", r);
}
