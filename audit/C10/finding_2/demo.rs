//! C10 finding 2: a multipath key whose first two alternatives are equal (`<0;0;1>`, `<0;0>`,
//! `<1';1h>` ...) is accepted by the key parser but printed without the multipath step.  The
//! text form silently turns a 3-path (or 2-path) key into a single-path key: parsing the
//! printed form gives a *different* object with a *different* meaning (a different number of
//! derived descriptors).

use std::str::FromStr;

use miniscript::descriptor::DescriptorSecretKey;
use miniscript::{Descriptor, DescriptorPublicKey};

const XPUB: &str = "xpub661MyMwAqRbcFtXgS5sYJABqqG9YLmC4Q1Rdap9gSE8NqtwybGhePY2gZ29ESFjqJoCu1Rupje8YtGqsefD265TMg7usUDFdp6W1EGMcet8";
const XPRV: &str = "tprv8ZgxMBicQKsPcwcD4gSnMti126ZiETsuX7qwrtMypr6FBwAP65puFn4v6c3jrN9VwtMRMph6nyT63NrfUL4C3nBzPcduzVSuHD7zbX2JKVc";

#[test]
fn public_multipath_key_round_trips() {
    for path in ["/<0;0;1>/*", "/<0;0>/*", "/7/<1';1h;2'>", "/<5;5;6;7>/9/*h"] {
        let input = format!("{}{}", XPUB, path);
        // Rejecting such a key (Bitcoin Core does: "Duplicated key path value") would be fine.
        let key = match DescriptorPublicKey::from_str(&input) {
            Ok(key) => key,
            Err(_) => continue,
        };
        let printed = key.to_string();
        let reparsed = DescriptorPublicKey::from_str(&printed).expect("printed key parses");
        assert_eq!(
            reparsed,
            key,
            "C10: key {} is printed as {} which parses to a different key",
            path,
            &printed[XPUB.len()..]
        );
    }
}

#[test]
fn secret_multipath_key_round_trips() {
    let input = format!("{}/<0;0;1>/*", XPRV);
    let key = match DescriptorSecretKey::from_str(&input) {
        Ok(key) => key,
        Err(_) => return, // rejecting the key would be fine
    };
    let printed = key.to_string();
    let reparsed = DescriptorSecretKey::from_str(&printed).expect("printed key parses");
    assert_eq!(reparsed, key, "C10: secret key printed as ...{}", &printed[XPRV.len()..]);
}

/// The meaning changes, not just the representation: the descriptor stands for three
/// single-path descriptors before the round trip and for one afterwards.
#[test]
fn descriptor_meaning_is_preserved() {
    let input = format!("wpkh({}/<0;0;1>/*)", XPUB);
    let desc = match Descriptor::<DescriptorPublicKey>::from_str(&input) {
        Ok(desc) => desc,
        Err(_) => return, // rejecting the key would be fine
    };
    let n_before = desc.clone().into_single_descriptors().unwrap().len();
    let printed = desc.to_string(); // carries a checksum the library accepts
    let reparsed = Descriptor::<DescriptorPublicKey>::from_str(&printed).unwrap();
    let n_after = reparsed.clone().into_single_descriptors().unwrap().len();
    assert_eq!(
        n_before, n_after,
        "C10: {} single-path descriptors before the text round trip, {} after (printed: {})",
        n_before, n_after, printed
    );
    assert_eq!(reparsed, desc);
}
