//! C10 finding 5: the typed parsers `Pkh::from_str` and `Wpkh::from_str` never look at the
//! name (or the bracket type) of the expression they are given.  Every `NAME(KEY)` /
//! `NAME{KEY}` is read as if NAME were an alias of `pkh` (resp. `wpkh`): `Pkh::from_str`
//! turns the P2WPKH descriptor `wpkh(K)` into the P2PKH descriptor `pkh(K)` and vice versa,
//! i.e. the same string means two different scriptPubKeys depending on which parser of the
//! library reads it.  (`Wsh`, `Sh`, `Tr` do check the name, via `verify_toplevel`.)

use std::str::FromStr;

use miniscript::bitcoin;
use miniscript::descriptor::{Pkh, Wpkh};
use miniscript::Descriptor;

const KEY: &str = "03f006a18d5653c4edf5391ff23a61f03ff83d237e880ee61187fa9f379a028e0a";

#[test]
fn typed_parsers_agree_with_the_descriptor_parser() {
    let mut failures = vec![];
    for name in ["wpkh", "pkh", "pk", "foo"] {
        for (open, close) in [('(', ')'), ('{', '}')] {
            let s = format!("{}{}{}{}", name, open, KEY, close);
            // What the string means according to the general descriptor parser (None = invalid).
            let general = Descriptor::<bitcoin::PublicKey>::from_str(&s).ok().map(|d| d.script_pubkey());
            if let Ok(pkh) = Pkh::<bitcoin::PublicKey>::from_str(&s) {
                if general.as_ref() != Some(&pkh.script_pubkey()) {
                    failures.push(format!("Pkh::from_str({:?}) = {}", &s[..8], pkh));
                }
            }
            if let Ok(wpkh) = Wpkh::<bitcoin::PublicKey>::from_str(&s) {
                if general.as_ref() != Some(&wpkh.script_pubkey()) {
                    failures.push(format!("Wpkh::from_str({:?}) = {}", &s[..8], wpkh));
                }
            }
        }
    }
    assert!(
        failures.is_empty(),
        "C10: a parser accepted a string and gave it a meaning (scriptPubKey) different from the \
         one the descriptor grammar gives it:\n  {}",
        failures.join("\n  ")
    );
}
