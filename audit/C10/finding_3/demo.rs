//! C10 finding 3: `WalletPolicy` (BIP-388) built from a descriptor prints templates that the
//! library's own template parser rejects.  `WalletPolicy::from_str` / `from_descriptor` accept
//! any descriptor made of xpubs - `xpub/*`, `xpub/<0;1>/*h`, `xpub/5/<0;1>/*`, `xpub/<0;1;2>/*`,
//! `xpub/<1;0>/*`, `xpub/<0;1>` ... - and `Display` then emits `@0/*`, `@0/**h`, `@0/5/**`,
//! `@0/<0;1;2>/*`, `@0/<1;0>/*`, `@0/<0;1>`: none of them is a wallet-policy template
//! (BIP-388 only knows `/**` and `/<M;N>/*` with M < N), and none of them parses.

use std::str::FromStr;

use miniscript::descriptor::WalletPolicy;

const XPUB: &str = "xpub661MyMwAqRbcFtXgS5sYJABqqG9YLmC4Q1Rdap9gSE8NqtwybGhePY2gZ29ESFjqJoCu1Rupje8YtGqsefD265TMg7usUDFdp6W1EGMcet8";

#[test]
fn printed_wallet_policy_template_parses_back() {
    let mut failures = vec![];
    for path in [
        "/*",           // the most common ranged descriptor there is
        "/<0;1>/*h",    // hardened wildcard: printed as `@0/**h`
        "/5/<0;1>/*",   // extra derivation step: printed as `@0/5/**`
        "/<0;1;2>/*",   // three alternatives
        "/<1;0>/*",     // not increasing
        "/<0;1>",       // no wildcard
        "/<0;1>/*",     // control: a genuine BIP-388 key expression, must pass
        "/<2;3>/*",     // control
    ] {
        let desc = format!("wpkh({}{})", XPUB, path);
        // Whatever the library accepts as a wallet policy ...
        let policy = match WalletPolicy::from_str(&desc) {
            Ok(p) => p,
            Err(_) => continue, // rejecting the descriptor would be fine
        };
        // ... must print as a template that it can read back to the same template.
        let printed = policy.to_string();
        match WalletPolicy::from_str(&printed) {
            Ok(back) if back.to_string() == printed => {}
            Ok(back) => failures.push(format!("{} -> {} -> {}", path, printed, back)),
            Err(e) => failures.push(format!("wpkh(XPUB{}) -> {:?} does not parse: {}", path, printed, e)),
        }
    }
    assert!(
        failures.is_empty(),
        "C10: wallet-policy templates printed by the library are rejected by its parser:\n  {}",
        failures.join("\n  ")
    );
}
