//! C10 finding 6: the `sortedmulti` descriptor constructors perform none of the checks the
//! parser performs, although they are documented to ("Errors when miniscript exceeds resource
//! limits under ... context").  They return `Ok(descriptor)` for objects whose own printed
//! form (with the checksum the library computed) is rejected by `Descriptor::from_str`.

use std::str::FromStr;

use miniscript::bitcoin::{self, secp256k1};
use miniscript::{Descriptor, Threshold};

fn keys(n: u8) -> Vec<bitcoin::PublicKey> {
    let secp = secp256k1::Secp256k1::new();
    (1..=n)
        .map(|i| {
            let sk = secp256k1::SecretKey::from_slice(&[i; 32]).unwrap();
            bitcoin::PublicKey::new(secp256k1::PublicKey::from_secret_key(&secp, &sk))
        })
        .collect()
}

fn assert_round_trips(what: &str, desc: Descriptor<bitcoin::PublicKey>) {
    let printed = desc.to_string();
    match Descriptor::<bitcoin::PublicKey>::from_str(&printed) {
        Ok(back) => assert_eq!(back, desc),
        Err(e) => panic!(
            "C10: {} returned Ok, but the descriptor it built prints as\n  {}\nwhich the library rejects: {}",
            what, printed, e
        ),
    }
}

/// An uncompressed key inside wsh(): refused by the parser (and by `Wsh::new`), accepted here.
#[test]
fn wsh_sortedmulti_with_uncompressed_key() {
    let mut ks = keys(2);
    ks[0].compressed = false;
    if let Ok(desc) = Descriptor::new_wsh_sortedmulti(Threshold::new(1, ks.clone()).unwrap()) {
        assert_round_trips("Descriptor::new_wsh_sortedmulti", desc);
    }
    if let Ok(desc) = Descriptor::new_sh_wsh_sortedmulti(Threshold::new(1, ks).unwrap()) {
        assert_round_trips("Descriptor::new_sh_wsh_sortedmulti", desc);
    }
}

/// 16 compressed keys in sh(): the redeem script is 547 bytes, above the 520-byte P2SH limit
/// (consensus: MAX_SCRIPT_ELEMENT_SIZE); the parser refuses it, the constructor does not.
#[test]
fn sh_sortedmulti_with_16_keys() {
    if let Ok(desc) = Descriptor::new_sh_sortedmulti(Threshold::new(2, keys(16)).unwrap()) {
        assert_round_trips("Descriptor::new_sh_sortedmulti", desc);
    }
}
