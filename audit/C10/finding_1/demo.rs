//! C10 finding 1: `c:expr_raw_pkh(<hash160>)` is printed as `c<hash160>` - a string that no
//! parser of the library accepts.  Every descriptor / miniscript that contains a checked raw
//! public-key-hash (what `Miniscript::decode*` and `Interpreter::inferred_descriptor` produce
//! for every `DUP HASH160 <h> EQUALVERIFY CHECKSIG`, and what `Descriptor::from_str` itself
//! accepts inside `wsh()`/`sh()`/bare) therefore fails the text round trip, and the checksum
//! the library prints for it belongs to a string the library rejects.

use std::str::FromStr;

use miniscript::bitcoin::{self, ScriptBuf};
use miniscript::{Descriptor, Miniscript, Segwitv0, ValidationParams};

const KEY: &str = "03f006a18d5653c4edf5391ff23a61f03ff83d237e880ee61187fa9f379a028e0a";

fn key_hash() -> String {
    let pk = bitcoin::PublicKey::from_str(KEY).unwrap();
    pk.pubkey_hash().to_raw_hash().to_string()
}

/// A descriptor string that `Descriptor::from_str` accepts must survive print -> parse.
#[test]
fn descriptor_with_checked_raw_pkh_round_trips() {
    for template in [
        "wsh(c:expr_raw_pkh(H))",
        "sh(c:expr_raw_pkh(H))",
        "c:expr_raw_pkh(H)",
        "sh(wsh(and_v(vc:expr_raw_pkh(H),older(5))))",
    ] {
        let input = template.replace('H', &key_hash());
        let desc = Descriptor::<bitcoin::PublicKey>::from_str(&input)
            .expect("the library's own parser accepts this descriptor");
        let printed = desc.to_string();
        let reparsed = Descriptor::<bitcoin::PublicKey>::from_str(&printed);
        assert!(
            reparsed.is_ok(),
            "C10: parsing the printed form must give back an equal object, but\n  input   {}\n  printed {}\n  is rejected: {}",
            input,
            printed,
            reparsed.unwrap_err()
        );
        assert_eq!(reparsed.unwrap(), desc, "C10: round trip changed the descriptor");
    }
}

/// The same for a miniscript obtained by decoding a script (the only way real users get a
/// RawPkH: the script of `pkh(KEY)` does not contain the key, only its hash).
#[test]
fn decoded_pkh_script_round_trips_through_text() {
    let script = ScriptBuf::from_hex(&format!("76a914{}88ac", key_hash())).unwrap();
    let ms = Miniscript::<bitcoin::PublicKey, Segwitv0>::decode_consensus(&script).unwrap();
    let printed = ms.to_string();
    // `ValidationParams::MAX` = "anything goes": the most permissive parser there is.
    let reparsed = Miniscript::<bitcoin::PublicKey, Segwitv0>::from_str_with_validation_params(
        &printed,
        &ValidationParams::MAX,
    );
    assert!(
        reparsed.is_ok(),
        "C10: decoded miniscript prints as {:?}, which does not parse: {}",
        printed,
        reparsed.unwrap_err()
    );
    assert_eq!(reparsed.unwrap(), ms);
    assert_eq!(printed, format!("c:expr_raw_pkh({})", key_hash()));
}
