//! C10 finding 4: the alias `pkh(K)` = `c:pk_h(K)` changes the object at the top level of a
//! descriptor.  `c:pk_h(K)` (or a `Bare` descriptor built from the miniscript `pkh(K)`) is a
//! `Descriptor::Bare`; it is printed with the alias, `pkh(K)#...`, and that text parses as
//! `Descriptor::Pkh`.  The reparsed object is not equal to the printed one, has a different
//! `desc_type()`, and answers `address()` differently (`Bare` has no address).

use std::str::FromStr;

use miniscript::bitcoin::{self, Network};
use miniscript::{BareCtx, Descriptor, Miniscript};

const KEY: &str = "03f006a18d5653c4edf5391ff23a61f03ff83d237e880ee61187fa9f379a028e0a";

#[test]
fn parsed_bare_pk_h_round_trips() {
    let input = format!("c:pk_h({})", KEY);
    let desc = Descriptor::<bitcoin::PublicKey>::from_str(&input).expect("accepted by the library");
    let printed = desc.to_string();
    let reparsed = Descriptor::<bitcoin::PublicKey>::from_str(&printed).expect("printed form parses");
    assert_eq!(
        reparsed, desc,
        "C10: {} prints as {} which parses to a different descriptor ({:?} vs {:?})",
        input, printed, reparsed.desc_type(), desc.desc_type()
    );
}

#[test]
fn constructed_bare_pkh_round_trips() {
    let ms = Miniscript::<bitcoin::PublicKey, BareCtx>::from_str(&format!("pkh({})", KEY)).unwrap();
    let desc = Descriptor::new_bare(ms).expect("accepted by the library");
    let reparsed = Descriptor::<bitcoin::PublicKey>::from_str(&desc.to_string()).unwrap();
    // observable difference, not only representation:
    assert_eq!(
        desc.address(Network::Bitcoin).is_ok(),
        reparsed.address(Network::Bitcoin).is_ok(),
        "C10: the descriptor has no address before the text round trip and has one afterwards"
    );
    assert_eq!(reparsed, desc);
}
