//! C09 finding 6: the fragment constructors (`Miniscript::sortedmulti`, `::multi`, ...) and the
//! descriptor constructors built on them (`Sh::new_sortedmulti`, `Descriptor::new_sh_sortedmulti`)
//! run none of the context checks, in particular not the 520-byte P2SH redeemScript limit that the
//! string parser applies to the very same descriptor. A 16-key sh(sortedmulti()) built through the
//! API is returned as `Ok`, gets a weight estimate, but is unspendable and makes the library panic.

use std::str::FromStr;

use miniscript::bitcoin::{self, ecdsa, secp256k1, PublicKey};
use miniscript::{Descriptor, Legacy, Miniscript, Satisfier, Threshold};

/// BIP16: the redeemScript is a scriptSig push; pushes above MAX_SCRIPT_ELEMENT_SIZE = 520 bytes fail.
const MAX_SCRIPT_ELEMENT_SIZE: usize = 520;

fn keys(n: usize) -> Vec<(secp256k1::SecretKey, PublicKey)> {
    let secp = secp256k1::Secp256k1::new();
    (0..n)
        .map(|i| {
            let mut b = [0x11u8; 32];
            b[1] = 1 + i as u8;
            let sk = secp256k1::SecretKey::from_slice(&b).unwrap();
            (sk, PublicKey { inner: secp256k1::PublicKey::from_secret_key(&secp, &sk), compressed: true })
        })
        .collect()
}

struct AllSigs(Vec<(secp256k1::SecretKey, PublicKey)>);
impl Satisfier<PublicKey> for AllSigs {
    fn lookup_ecdsa_sig(&self, pk: &PublicKey) -> Option<ecdsa::Signature> {
        let secp = secp256k1::Secp256k1::new();
        let msg = secp256k1::Message::from_digest([1u8; 32]);
        self.0.iter().find(|k| k.1 == *pk).map(|k| ecdsa::Signature {
            signature: secp.sign_ecdsa(&msg, &k.0),
            sighash_type: bitcoin::sighash::EcdsaSighashType::All,
        })
    }
}

fn check(desc: Descriptor<PublicKey>, k: &[(secp256k1::SecretKey, PublicKey)]) {
    let redeem_script = desc.explicit_script().unwrap();
    println!("accepted {:.40}...; redeemScript {} bytes; max_weight_to_satisfy() = {:?}",
        desc.to_string(), redeem_script.len(), desc.max_weight_to_satisfy());
    println!("its own string representation re-parses: {:?}",
        Descriptor::<PublicKey>::from_str(&desc.to_string()).map(|_| ()).map_err(|e| e.to_string()));
    let addr = std::panic::catch_unwind(|| desc.address(bitcoin::Network::Bitcoin).map(|a| a.to_string()));
    println!("address(): {}", match &addr { Ok(a) => format!("{:?}", a), Err(_) => "PANIC".into() });
    let sat = std::panic::catch_unwind(|| desc.get_satisfaction(AllSigs(k.to_vec())).map(|(_, s)| s.len()));
    println!("get_satisfaction(): {}", match &sat { Ok(a) => format!("{:?}", a), Err(_) => "PANIC".into() });
    assert!(
        redeem_script.len() <= MAX_SCRIPT_ELEMENT_SIZE,
        "C09 violated: the constructor returned Ok for an sh() descriptor whose redeemScript is {} bytes (P2SH allows {}); it is declared usable (script_pubkey, max_weight_to_satisfy) but no satisfaction can be executed",
        redeem_script.len(), MAX_SCRIPT_ELEMENT_SIZE
    );
}

#[test]
fn new_sh_sortedmulti_respects_the_p2sh_script_size_limit() {
    let k = keys(16);
    let thresh = Threshold::new(2, k.iter().map(|k| k.1).collect()).unwrap();
    match Descriptor::new_sh_sortedmulti(thresh) {
        Ok(desc) => check(desc, &k),
        Err(e) => println!("rejected as the property demands: {}", e),
    }
}

#[test]
fn sh_of_constructed_multi_respects_the_p2sh_script_size_limit() {
    let k = keys(16);
    let thresh = Threshold::new(2, k.iter().map(|k| k.1).collect()).unwrap();
    let ms = Miniscript::<PublicKey, Legacy>::multi(thresh);
    match Descriptor::new_sh(ms) {
        Ok(desc) => check(desc, &k),
        Err(e) => println!("rejected as the property demands: {}", e),
    }
}

/// Control: 15 keys (513 bytes) is fine and spendable.
#[test]
fn control_15_keys() {
    let k = keys(15);
    let thresh = Threshold::new(2, k.iter().map(|k| k.1).collect()).unwrap();
    check(Descriptor::new_sh_sortedmulti(thresh).unwrap(), &k);
}
