//! C09 finding 5: `Tap::CONSENSUS` ("the validation parameters enforcing consensus limits in this
//! context") does not carry the 1000-element stack limit, although BIP342 keeps it as a consensus
//! rule for tapscript and extends it to the initial stack. Everything that validates against
//! `Tap::CONSENSUS` - `Miniscript::validate`, `from_str_insane`, `decode_consensus`, and the leaf
//! check of `Tr::from_str` - declares leaves valid whose only satisfactions need more than 1000
//! stack elements, and the library produces those unexecutable satisfactions.

use std::str::FromStr;

use miniscript::bitcoin::script::Instruction;
use miniscript::bitcoin::taproot::TapLeafHash;
use miniscript::bitcoin::{self, opcodes, secp256k1, taproot, PublicKey, Script};
use miniscript::descriptor::Tr;
use miniscript::{Miniscript, Satisfier, ScriptContext, Tap};

/// BIP342, "Resource limits": "Stack + altstack element count limit: the existing limit of 1000
/// elements in the stack and altstack together after every executed opcode remains. It is extended
/// to also apply to the size of initial stack." (Core: MAX_STACK_SIZE, ExecuteWitnessScript/EvalScript)
const MAX_STACK_SIZE: usize = 1000;

fn keys(n: usize) -> Vec<(secp256k1::Keypair, PublicKey)> {
    let secp = secp256k1::Secp256k1::new();
    (0..n)
        .map(|i| {
            let mut b = [0x11u8; 32];
            b[0] = 1 + (i / 250) as u8;
            b[1] = 1 + (i % 250) as u8;
            let kp = secp256k1::Keypair::from_seckey_slice(&secp, &b).unwrap();
            (kp, PublicKey { inner: kp.public_key(), compressed: true })
        })
        .collect()
}

struct AllSigs(Vec<(secp256k1::Keypair, PublicKey)>);
impl Satisfier<PublicKey> for AllSigs {
    fn lookup_tap_leaf_script_sig(&self, pk: &PublicKey, _: &TapLeafHash) -> Option<taproot::Signature> {
        let secp = secp256k1::Secp256k1::new();
        let msg = secp256k1::Message::from_digest([1u8; 32]);
        self.0.iter().find(|k| k.1 == *pk).map(|k| taproot::Signature {
            signature: secp.sign_schnorr_no_aux_rand(&msg, &k.0),
            sighash_type: bitcoin::sighash::TapSighashType::Default,
        })
    }
}

/// Largest number of stack elements while executing `script` on an initial stack of `initial`
/// elements. Only the element count is tracked; supports exactly the opcodes of the scripts below
/// (no branches): data / number pushes, CHECKSIG, CHECKSIGVERIFY, CHECKSIGADD, NUMEQUAL(VERIFY).
fn max_stack_depth(script: &Script, initial: usize) -> usize {
    let (mut depth, mut max) = (initial as isize, initial as isize);
    for ins in script.instructions() {
        depth += match ins.unwrap() {
            Instruction::PushBytes(_) => 1,
            Instruction::Op(op) if (0x51..=0x60).contains(&op.to_u8()) => 1,
            Instruction::Op(op) if op == opcodes::all::OP_CHECKSIG => -1,
            Instruction::Op(op) if op == opcodes::all::OP_CHECKSIGVERIFY => -2,
            Instruction::Op(op) if op == opcodes::all::OP_CHECKSIGADD => -2,
            Instruction::Op(op) if op == opcodes::all::OP_NUMEQUAL => -1,
            Instruction::Op(op) if op == opcodes::all::OP_NUMEQUALVERIFY => -2,
            other => panic!("unexpected {:?}", other),
        };
        max = max.max(depth);
    }
    assert_eq!(depth, 1, "clean stack");
    max as usize
}

fn check(ms_str: &str, k: &[(secp256k1::Keypair, PublicKey)]) {
    // "checking only for consensus compatibility"
    let ms = match Miniscript::<PublicKey, Tap>::from_str_insane(ms_str) {
        Ok(ms) => ms,
        Err(e) => { println!("rejected as the property demands: {}", e); return; }
    };
    println!("validate(&Tap::CONSENSUS) = {:?}", ms.validate(&Tap::CONSENSUS));
    println!("Tap::check_local_consensus_validity = {:?}", Tap::check_local_consensus_validity(&ms));
    println!(
        "Miniscript::<XOnlyPublicKey, Tap>::decode_consensus(encode()) accepts: {}",
        Miniscript::<secp256k1::XOnlyPublicKey, Tap>::decode_consensus(&ms.encode()).is_ok()
    );
    let tr = Tr::<PublicKey>::from_str(&format!("tr({},{})", k[0].1, ms_str));
    println!("Tr::from_str accepts the leaf: {}", tr.is_ok());
    if ms.validate(&Tap::CONSENSUS).is_err() {
        return;
    }
    // declared consensus valid: its satisfactions must be executable
    let witness = ms.satisfy(AllSigs(k.to_vec())).expect("all signatures available");
    let depth = max_stack_depth(&ms.encode(), witness.len());
    println!("produced satisfaction: {} initial stack elements, {} elements at the peak", witness.len(), depth);
    assert!(
        witness.len() <= MAX_STACK_SIZE && depth <= MAX_STACK_SIZE,
        "C09 violated: the leaf is declared valid under Tap::CONSENSUS, but its satisfaction starts with {} stack elements and peaks at {}; BIP342 fails the script above {} (SCRIPT_ERR_STACK_SIZE)",
        witness.len(), depth, MAX_STACK_SIZE
    );
}

#[test]
fn consensus_valid_leaf_initial_stack_at_most_1000() {
    let k = keys(1001);
    let first: Vec<String> = k[..999].iter().map(|k| k.1.to_string()).collect();
    // 999 + 2 signatures: 1001 initial stack elements
    check(&format!("and_v(v:multi_a(999,{}),multi_a(2,{},{}))", first.join(","), k[999].1, k[1000].1), &k);
}

#[test]
fn consensus_valid_leaf_runtime_stack_at_most_1000() {
    let k = keys(1000);
    let first: Vec<String> = k[..999].iter().map(|k| k.1.to_string()).collect();
    // 1000 initial stack elements; the first key push makes it 1001
    check(&format!("and_v(v:multi_a(999,{}),pk({}))", first.join(","), k[999].1), &k);
}

/// Control: one key less and everything stays within the limit.
#[test]
fn control_999_elements() {
    let k = keys(999);
    let first: Vec<String> = k[..998].iter().map(|k| k.1.to_string()).collect();
    check(&format!("and_v(v:multi_a(998,{}),pk({}))", first.join(","), k[998].1), &k);
}
