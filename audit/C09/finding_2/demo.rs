//! C09 finding 2: `ExtData::pk_cost` counts an uncompressed key as 65 bytes in `pk_k` and `multi`
//! (the push opcode is missing; a compressed key is counted as 34 = 1 + 33). The 520-byte P2SH
//! redeemScript limit (and the 10 000 byte bare limit) is checked against this figure, so sh()
//! descriptors whose redeemScript is larger than 520 bytes are accepted although BIP16 makes them
//! unspendable; the library itself then panics when asked for the address or a satisfaction.

use std::str::FromStr;

use miniscript::bitcoin::{self, ecdsa, secp256k1, PublicKey};
use miniscript::{Descriptor, Legacy, Miniscript, Satisfier};

/// BIP16: the redeemScript is pushed by the scriptSig, and a push of more than
/// MAX_SCRIPT_ELEMENT_SIZE = 520 bytes makes script evaluation fail.
const MAX_SCRIPT_ELEMENT_SIZE: usize = 520;

fn keys(n: usize, compressed: bool) -> Vec<(secp256k1::SecretKey, PublicKey)> {
    let secp = secp256k1::Secp256k1::new();
    (0..n)
        .map(|i| {
            let mut b = [0x11u8; 32];
            b[0] = if compressed { 1 } else { 2 };
            b[1] = 1 + i as u8;
            let sk = secp256k1::SecretKey::from_slice(&b).unwrap();
            (sk, PublicKey { inner: secp256k1::PublicKey::from_secret_key(&secp, &sk), compressed })
        })
        .collect()
}

fn descriptor_string() -> String {
    let u = keys(7, false); // uncompressed keys: allowed in sh()
    let c = keys(2, true);
    format!(
        "sh(and_v(v:multi(1,{}),and_v(v:pk({}),pkh({}))))",
        u.iter().map(|k| k.1.to_string()).collect::<Vec<_>>().join(","),
        c[0].1,
        c[1].1
    )
}

struct AllSigs(Vec<(secp256k1::SecretKey, PublicKey)>);
impl Satisfier<PublicKey> for AllSigs {
    fn lookup_ecdsa_sig(&self, pk: &PublicKey) -> Option<ecdsa::Signature> {
        let secp = secp256k1::Secp256k1::new();
        let msg = secp256k1::Message::from_digest([1u8; 32]);
        self.0.iter().find(|k| k.1 == *pk).map(|k| ecdsa::Signature {
            signature: secp.sign_ecdsa(&msg, &k.0),
            sighash_type: bitcoin::sighash::EcdsaSighashType::All,
        })
    }
}

#[test]
fn pk_cost_is_the_encoded_script_size() {
    // the smallest instance: pk(<uncompressed key>) is PUSH65 <65 bytes> CHECKSIG = 67 bytes
    let k = keys(1, false)[0].1;
    let ms = Miniscript::<PublicKey, Legacy>::from_str(&format!("pk({})", k)).unwrap();
    println!("pk(uncompressed): encode().len() = {}, script_size() = {}, ext.pk_cost = {}",
        ms.encode().len(), ms.script_size(), ms.ext.pk_cost);
    assert_eq!(ms.script_size(), ms.encode().len());
    assert_eq!(
        ms.ext.pk_cost,
        ms.encode().len(),
        "C09 violated: ext.pk_cost (\"the number of bytes needed to encode its scriptpubkey\", the figure the script-size limits are checked against) differs from the encoded size"
    );
}

#[test]
fn accepted_sh_descriptor_has_a_redeem_script_of_at_most_520_bytes() {
    let s = descriptor_string();
    // sane: distinct keys, every path signed, non-malleable
    let desc = match Descriptor::<PublicKey>::from_str(&s) {
        Ok(d) => d,
        // this is what the property demands: the script is over the limit of its context
        Err(e) => { println!("rejected, as it should be: {}", e); return; }
    };
    let redeem_script = desc.explicit_script().unwrap();
    println!("accepted; redeemScript is {} bytes; max_weight_to_satisfy() = {:?}",
        redeem_script.len(), desc.max_weight_to_satisfy());
    // What the library does with the descriptor it accepted:
    let addr = std::panic::catch_unwind(|| desc.address(bitcoin::Network::Bitcoin).map(|a| a.to_string()));
    println!("address(): {}", match &addr { Ok(a) => format!("{:?}", a), Err(_) => "PANIC".into() });
    let mut all = keys(7, false);
    all.extend(keys(2, true));
    let sat = std::panic::catch_unwind(|| desc.get_satisfaction(AllSigs(all)).map(|(_, s)| s.len()));
    println!("get_satisfaction(): {}", match &sat { Ok(a) => format!("{:?}", a), Err(_) => "PANIC".into() });
    // the same script is refused by the Legacy miniscript parser, which measures the real size
    let inner = &s[3..s.len() - 1];
    println!("Miniscript::<_, Legacy>::from_str on the same script: {:?}",
        Miniscript::<PublicKey, Legacy>::from_str(inner).map(|_| ()).map_err(|e| e.to_string()));

    assert!(
        redeem_script.len() <= MAX_SCRIPT_ELEMENT_SIZE,
        "C09 violated: the library accepted an sh() descriptor (declared within the P2SH script-size limit) whose redeemScript is {} bytes; BIP16 / MAX_SCRIPT_ELEMENT_SIZE allow at most {}, so no satisfaction of it can be executed",
        redeem_script.len(), MAX_SCRIPT_ELEMENT_SIZE
    );
}
