//! C09 finding 3: for wsh() and sh(wsh()) descriptors `Plan::witness_size()` and
//! `Plan::satisfaction_weight()` do not count the witnessScript item, which `Plan::satisfy` (and
//! every other satisfaction API) appends to the witness. The plan therefore announces fewer bytes
//! than the witness it produces itself - by the script length plus its length prefix.

use std::str::FromStr;

use miniscript::bitcoin::{self, ecdsa, secp256k1, PublicKey, ScriptBuf, Witness};
use miniscript::{Descriptor, Satisfier};

fn keys(n: usize) -> Vec<(secp256k1::SecretKey, PublicKey)> {
    let secp = secp256k1::Secp256k1::new();
    (0..n)
        .map(|i| {
            let mut b = [0x11u8; 32];
            b[1] = 1 + i as u8;
            let sk = secp256k1::SecretKey::from_slice(&b).unwrap();
            (sk, PublicKey { inner: secp256k1::PublicKey::from_secret_key(&secp, &sk), compressed: true })
        })
        .collect()
}

struct AllSigs(Vec<(secp256k1::SecretKey, PublicKey)>);
impl Satisfier<PublicKey> for AllSigs {
    fn lookup_ecdsa_sig(&self, pk: &PublicKey) -> Option<ecdsa::Signature> {
        let secp = secp256k1::Secp256k1::new();
        let msg = secp256k1::Message::from_digest([1u8; 32]);
        self.0.iter().find(|k| k.1 == *pk).map(|k| ecdsa::Signature {
            signature: secp.sign_ecdsa(&msg, &k.0),
            sighash_type: bitcoin::sighash::EcdsaSighashType::All,
        })
    }
}

/// serialized size of the input's witness field: item count varint + every item with its length prefix
fn real_witness_size(w: &[Vec<u8>]) -> usize { if w.is_empty() { 0 } else { Witness::from_slice(w).size() } }
/// serialized size of the scriptSig including its length prefix
fn real_scriptsig_size(s: &ScriptBuf) -> usize { s.len() + bitcoin::VarInt(s.len() as u64).size() }

fn check(desc_str: &str, k: &[(secp256k1::SecretKey, PublicKey)]) -> Result<(), String> {
    let sat = AllSigs(k.to_vec());
    let desc = Descriptor::<PublicKey>::from_str(desc_str).unwrap();
    let mut errs = vec![];
    for (mode, plan) in [
        ("non-malleable", desc.clone().into_plan(&sat)),
        ("malleable", desc.clone().into_plan_mall(&sat)),
    ] {
        let plan = plan.expect("all keys available");
        let (witness, script_sig) = plan.satisfy(&sat).expect("plan can be completed");
        // the same witness every other API of the library produces
        assert_eq!((witness.clone(), script_sig.clone()), desc.get_satisfaction(&sat).unwrap());
        let (real_w, real_s) = (real_witness_size(&witness), real_scriptsig_size(&script_sig));
        println!(
            "{} [{}]: plan announces witness_size {} / scriptsig_size {} / satisfaction_weight {}; produced witness {} bytes, scriptSig {} bytes, weight {}",
            desc_str.split('(').next().unwrap(), mode,
            plan.witness_size(), plan.scriptsig_size(), plan.satisfaction_weight(),
            real_w, real_s, real_w + 4 * real_s
        );
        if plan.witness_size() < real_w {
            errs.push(format!("[{}] witness_size() = {} < {} bytes of the witness Plan::satisfy produced", mode, plan.witness_size(), real_w));
        }
        if plan.scriptsig_size() < real_s {
            errs.push(format!("[{}] scriptsig_size() = {} < {}", mode, plan.scriptsig_size(), real_s));
        }
        if plan.satisfaction_weight() < real_w + 4 * real_s {
            errs.push(format!("[{}] satisfaction_weight() = {} < {} wu really spent", mode, plan.satisfaction_weight(), real_w + 4 * real_s));
        }
    }
    if errs.is_empty() { Ok(()) } else { Err(format!("C09 violated for {}: {}", desc_str, errs.join("; "))) }
}

#[test]
fn wsh_plan_announces_at_least_the_produced_witness() {
    let k = keys(3);
    let r = check(&format!("wsh(pk({}))", k[0].1), &k);
    assert!(r.is_ok(), "{}", r.unwrap_err());
}

#[test]
fn wsh_multi_plan_announces_at_least_the_produced_witness() {
    let k = keys(3);
    let r = check(&format!("wsh(multi(2,{},{},{}))", k[0].1, k[1].1, k[2].1), &k);
    assert!(r.is_ok(), "{}", r.unwrap_err());
}

#[test]
fn sh_wsh_plan_announces_at_least_the_produced_witness() {
    let k = keys(3);
    let r = check(&format!("sh(wsh(and_v(v:pk({}),pk({}))))", k[0].1, k[1].1), &k);
    assert!(r.is_ok(), "{}", r.unwrap_err());
}

/// Control: for the descriptor types whose template contains every witness item the plan figures
/// are upper bounds (tr() templates contain the leaf script and control block explicitly).
#[test]
fn control_other_descriptor_types() {
    let k = keys(3);
    for d in [
        format!("wpkh({})", k[0].1),
        format!("sh(wpkh({}))", k[0].1),
        format!("pkh({})", k[0].1),
        format!("sh(multi(2,{},{},{}))", k[0].1, k[1].1, k[2].1),
    ] {
        let r = check(&d, &k);
        assert!(r.is_ok(), "{}", r.unwrap_err());
    }
}
