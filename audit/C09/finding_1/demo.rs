//! C09 finding 1: the static size figures of `expr_raw_pkh` assume a compressed key even in the
//! contexts (Legacy / Bare) where the hashed key may be uncompressed, so `max_satisfaction_size`,
//! `max_weight_to_satisfy` and the deprecated `max_satisfaction_weight` undershoot the scriptSig the
//! library itself produces.

use miniscript::bitcoin::hashes::{hash160, Hash};
use miniscript::bitcoin::{self, ecdsa, secp256k1, PublicKey, ScriptBuf, TxIn, Witness};
use miniscript::{Descriptor, Legacy, Miniscript, Satisfier};

/// Knows the key behind the hash and a signature for it (what a PSBT with a partial signature of an
/// uncompressed key provides).
struct KeyAndSig {
    pk: PublicKey,
    sig: ecdsa::Signature,
}

impl Satisfier<PublicKey> for KeyAndSig {
    fn lookup_raw_pkh_pk(&self, h: &hash160::Hash) -> Option<PublicKey> {
        if *h == hash160::Hash::hash(&self.pk.to_bytes()) { Some(self.pk) } else { None }
    }
    fn lookup_raw_pkh_ecdsa_sig(&self, h: &hash160::Hash) -> Option<(PublicKey, ecdsa::Signature)> {
        if *h == hash160::Hash::hash(&self.pk.to_bytes()) { Some((self.pk, self.sig)) } else { None }
    }
}

fn fixture() -> (Descriptor<PublicKey>, Miniscript<PublicKey, Legacy>, KeyAndSig) {
    let secp = secp256k1::Secp256k1::new();
    let sk = secp256k1::SecretKey::from_slice(&[7u8; 32]).unwrap();
    // an UNCOMPRESSED key: legal in P2SH / bare scripts
    let pk = PublicKey { inner: secp256k1::PublicKey::from_secret_key(&secp, &sk), compressed: false };
    let msg = secp256k1::Message::from_digest([1u8; 32]);
    let sig = ecdsa::Signature {
        signature: secp.sign_ecdsa(&msg, &sk),
        sighash_type: bitcoin::sighash::EcdsaSighashType::All,
    };
    // redeemScript: DUP HASH160 <hash160(pk)> EQUALVERIFY CHECKSIG, decoded from Script the way a
    // wallet decodes a script it found on chain / in a PSBT.
    let redeem_script = ScriptBuf::new_p2pkh(&pk.pubkey_hash());
    let ms = Miniscript::<PublicKey, Legacy>::decode_consensus(&redeem_script)
        .expect("a pay-to-pubkey-hash script is a valid Legacy miniscript");
    assert_eq!(ms.encode(), redeem_script);
    let desc = Descriptor::new_sh(ms.clone()).expect("valid sh() descriptor");
    (desc, ms, KeyAndSig { pk, sig })
}

fn weight_to_satisfy(witness: &[Vec<u8>], script_sig: &ScriptBuf) -> u64 {
    // exactly the quantity `max_weight_to_satisfy` documents: satisfied TxIn minus unsatisfied TxIn
    let txin = TxIn { script_sig: script_sig.clone(), witness: Witness::from_slice(witness), ..Default::default() };
    (txin.segwit_weight() - TxIn::default().segwit_weight()).to_wu()
}

#[test]
fn raw_pkh_scriptsig_size_is_bounded_by_max_satisfaction_size() {
    let (_, ms, sat) = fixture();
    for (mode, stack) in
        [("non-malleable", ms.satisfy(&sat)), ("malleable", ms.satisfy_malleable(&sat))]
    {
        let stack = stack.expect("the satisfier has key and signature");
        // scriptSig bytes of the satisfaction (without the redeemScript push): every element is a
        // direct push of < 76 bytes => 1 opcode byte + data
        let real: usize = stack.iter().map(|e| 1 + e.len()).sum();
        let bound = ms.max_satisfaction_size().unwrap();
        println!("{}: satisfaction needs {} scriptSig bytes, max_satisfaction_size() = {}", mode, real, bound);
        assert!(
            real <= bound,
            "C09 violated ({}): the library produced a {}-byte satisfaction for {} but announces max_satisfaction_size() = {}",
            mode, real, ms, bound
        );
    }
}

#[test]
fn raw_pkh_weight_is_bounded_by_max_weight_to_satisfy() {
    let (desc, _, sat) = fixture();
    let bound = desc.max_weight_to_satisfy().unwrap().to_wu();
    for (mode, res) in [
        ("non-malleable", desc.get_satisfaction(&sat)),
        ("malleable", desc.get_satisfaction_mall(&sat)),
    ] {
        let (witness, script_sig) = res.expect("satisfiable");
        let real = weight_to_satisfy(&witness, &script_sig);
        println!("{}: scriptSig {} bytes -> {} wu, max_weight_to_satisfy() = {} wu", mode, script_sig.len(), real, bound);
        assert!(
            real <= bound,
            "C09 violated ({}): spending {} costs {} wu but max_weight_to_satisfy() announces {} wu",
            mode, desc, real, bound
        );
    }
}

/// `substitute_raw_pkh` (used by the PSBT finalizer to resolve the hashes) copies the figures of
/// the raw node instead of recomputing them, so even once the uncompressed key is known the bound
/// stays too low - although the very same miniscript parsed from a string gets the right bound.
#[test]
fn substituted_raw_pkh_keeps_the_too_small_bound() {
    let (_, ms, sat) = fixture();
    let mut map = std::collections::BTreeMap::new();
    map.insert(hash160::Hash::hash(&sat.pk.to_bytes()), sat.pk);
    let substituted = ms.substitute_raw_pkh(&map);
    let parsed: Miniscript<PublicKey, Legacy> = substituted.to_string().parse().unwrap();
    assert_eq!(parsed, substituted);
    println!(
        "{}: max_satisfaction_size() = {} after substitute_raw_pkh, {} when parsed from its own string",
        substituted,
        substituted.max_satisfaction_size().unwrap(),
        parsed.max_satisfaction_size().unwrap()
    );
    let stack = substituted.satisfy(&SigOnly { pk: sat.pk, sig: sat.sig }).expect("satisfiable");
    let real: usize = stack.iter().map(|e| 1 + e.len()).sum();
    assert!(
        real <= substituted.max_satisfaction_size().unwrap(),
        "C09 violated: {} needs a {}-byte satisfaction, max_satisfaction_size() = {}",
        substituted, real, substituted.max_satisfaction_size().unwrap()
    );
}

struct SigOnly {
    pk: PublicKey,
    sig: ecdsa::Signature,
}
impl Satisfier<PublicKey> for SigOnly {
    fn lookup_ecdsa_sig(&self, pk: &PublicKey) -> Option<ecdsa::Signature> {
        if *pk == self.pk { Some(self.sig) } else { None }
    }
}

/// Control: with a compressed key behind the hash every bound holds, i.e. the tests above fail only
/// because of the key form.
#[test]
fn control_compressed_key_is_within_bounds() {
    let (_, _, sat) = fixture();
    let pk = PublicKey { inner: sat.pk.inner, compressed: true };
    let ms = Miniscript::<PublicKey, Legacy>::decode_consensus(&ScriptBuf::new_p2pkh(&pk.pubkey_hash())).unwrap();
    let desc = Descriptor::new_sh(ms).unwrap();
    let (witness, script_sig) = desc.get_satisfaction(&KeyAndSig { pk, sig: sat.sig }).unwrap();
    assert!(weight_to_satisfy(&witness, &script_sig) <= desc.max_weight_to_satisfy().unwrap().to_wu());
}
