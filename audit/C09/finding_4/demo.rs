//! C09 finding 4: the scriptSig-size standardness limit of the Legacy (P2SH) context is checked
//! against the satisfaction alone; the redeemScript, which is the last push of every P2SH
//! scriptSig (BIP16) and counts towards Bitcoin Core's MAX_STANDARD_SCRIPTSIG_SIZE = 1650
//! (policy/policy.cpp IsStandardTx: `txin.scriptSig.size() > MAX_STANDARD_SCRIPTSIG_SIZE` ->
//! "scriptsig-size"), is left out. Scripts declared within the resource limits produce
//! non-standard scriptSigs. (The newer `Legacy::SANE` validation parameters do not look at the
//! scriptSig size at all.)

use std::str::FromStr;

use miniscript::bitcoin::{self, ecdsa, secp256k1, PublicKey};
use miniscript::{Descriptor, Legacy, Miniscript, Satisfier, ScriptContext};

const MAX_STANDARD_SCRIPTSIG_SIZE: usize = 1650; // bitcoin/src/policy/policy.h

fn keys(n: usize) -> Vec<(secp256k1::SecretKey, PublicKey)> {
    let secp = secp256k1::Secp256k1::new();
    (0..n)
        .map(|i| {
            let mut b = [0x11u8; 32];
            b[1] = 1 + i as u8;
            let sk = secp256k1::SecretKey::from_slice(&b).unwrap();
            (sk, PublicKey { inner: secp256k1::PublicKey::from_secret_key(&secp, &sk), compressed: true })
        })
        .collect()
}

struct AllSigs(Vec<(secp256k1::SecretKey, PublicKey)>);
impl Satisfier<PublicKey> for AllSigs {
    fn lookup_ecdsa_sig(&self, pk: &PublicKey) -> Option<ecdsa::Signature> {
        let secp = secp256k1::Secp256k1::new();
        let msg = secp256k1::Message::from_digest([1u8; 32]);
        self.0.iter().find(|k| k.1 == *pk).map(|k| ecdsa::Signature {
            signature: secp.sign_ecdsa(&msg, &k.0),
            sighash_type: bitcoin::sighash::EcdsaSighashType::All,
        })
    }
}

/// and_v(v:pkh(K1),and_v(v:pkh(K2),...pkh(Kn))): n signatures by n distinct keys; sane.
fn all_of_pkh(k: &[(secp256k1::SecretKey, PublicKey)]) -> String {
    let mut s = format!("pkh({})", k[k.len() - 1].1);
    for key in k[..k.len() - 1].iter().rev() {
        s = format!("and_v(v:pkh({}),{})", key.1, s);
    }
    s
}

#[test]
fn script_within_resource_limits_has_a_standard_scriptsig() {
    let k = keys(13);
    let ms = Miniscript::<PublicKey, Legacy>::from_str(&all_of_pkh(&k)).expect("sane Legacy miniscript");
    println!(
        "script_size {} bytes, max_satisfaction_size (scriptSig without redeemScript) {} bytes",
        ms.script_size(), ms.max_satisfaction_size().unwrap()
    );
    println!("within_resource_limits() = {}, Legacy::check_local_policy_validity = {:?}",
        ms.within_resource_limits(), Legacy::check_local_policy_validity(&ms));
    // the library declares the script within all consensus and standardness limits of its context
    if !ms.within_resource_limits() {
        println!("declared over the limits, as the property demands");
        return;
    }
    let desc = Descriptor::new_sh(ms).unwrap();
    for (mode, res) in [
        ("non-malleable", desc.get_satisfaction(AllSigs(k.clone()))),
        ("malleable", desc.get_satisfaction_mall(AllSigs(k.clone()))),
    ] {
        let (witness, script_sig) = res.unwrap();
        assert!(witness.is_empty());
        println!("{}: the library's scriptSig is {} bytes", mode, script_sig.len());
        assert!(
            script_sig.len() <= MAX_STANDARD_SCRIPTSIG_SIZE,
            "C09 violated ({}): the script is declared within the resource limits of the Legacy/P2SH context (within_resource_limits() == true), but the scriptSig the library produces is {} bytes; Bitcoin Core relays at most {} (MAX_STANDARD_SCRIPTSIG_SIZE, reject reason \"scriptsig-size\")",
            mode, script_sig.len(), MAX_STANDARD_SCRIPTSIG_SIZE
        );
    }
}

/// Secondary: the default parser (`Miniscript::from_str`, i.e. `Legacy::SANE`, the parameters that
/// for Segwitv0 carry the standardness limits 3600 bytes / 100 items) has no scriptSig-size check
/// at all: a 20 x pkh script (500 bytes) is accepted and needs a 2.6 kB scriptSig.
#[test]
fn sane_parsed_script_has_a_standard_scriptsig() {
    let k = keys(20);
    let ms = Miniscript::<PublicKey, Legacy>::from_str(&all_of_pkh(&k)).expect("accepted as sane");
    assert!(ms.validate(&Legacy::SANE).is_ok());
    println!("within_resource_limits() = {} (the old check does notice this one)", ms.within_resource_limits());
    let desc = Descriptor::new_sh(ms).unwrap();
    let (_, script_sig) = desc.get_satisfaction(AllSigs(k)).unwrap();
    println!("20 x pkh: redeemScript {} bytes, scriptSig {} bytes", desc.explicit_script().unwrap().len(), script_sig.len());
    assert!(
        script_sig.len() <= MAX_STANDARD_SCRIPTSIG_SIZE,
        "C09 violated: a Legacy script accepted under Legacy::SANE needs a {}-byte scriptSig (standard: <= {})",
        script_sig.len(), MAX_STANDARD_SCRIPTSIG_SIZE
    );
}
