//! C02 / finding 1: a tapscript `pkh()` that the library sees as a raw public-key hash
//! (`expr_raw_pkh`, which is what `Miniscript::decode*` and therefore the PSBT finalizer produce)
//! can never be satisfied: the satisfier builds a witness template from the taproot look-ups
//! (`lookup_raw_pkh_tap_leaf_script_sig` / `lookup_raw_pkh_x_only_pk`) and then tries to fill the
//! public key in through the ECDSA look-ups (`lookup_raw_pkh_pk` / `lookup_raw_pkh_ecdsa_sig`).
//! With the library's own taproot satisfiers (the `(hash160, TapLeafHash) -> (key, sig)` map and
//! `PsbtInputSatisfier`) the second step finds nothing and the satisfier PANICS
//! ("the same satisfier should manage to complete the template") in both modes.
//!
//! The caller holds a valid signature for the only key of the script, a valid witness exists
//! (checked below WITHOUT the library: BIP341 control block commitment, HASH160 comparison, BIP340
//! signature over the BIP341/342 script-path sighash), so C02 demands a satisfaction.

use std::collections::HashMap;
use std::panic::{catch_unwind, AssertUnwindSafe};
use std::str::FromStr;

use miniscript::bitcoin::hashes::{hash160, Hash};
use miniscript::bitcoin::opcodes::all::*;
use miniscript::bitcoin::psbt::Psbt;
use miniscript::bitcoin::script::Builder;
use miniscript::bitcoin::sighash::{Prevouts, SighashCache};
use miniscript::bitcoin::taproot::{ControlBlock, LeafVersion, TapLeafHash};
use miniscript::bitcoin::{
    self, absolute, secp256k1, transaction, Amount, OutPoint, ScriptBuf, Sequence, TapSighashType,
    Transaction, TxIn, TxOut, Txid, Witness, XOnlyPublicKey,
};
use miniscript::psbt::PsbtExt;
use miniscript::{Descriptor, Miniscript, Tap};

struct Fixture {
    secp: secp256k1::Secp256k1<secp256k1::All>,
    x_internal: XOnlyPublicKey,
    x_a: XOnlyPublicKey,
    desc: Descriptor<XOnlyPublicKey>,
    script: ScriptBuf,
    control_block: ControlBlock,
    leaf_hash: TapLeafHash,
    prevout: TxOut,
    tx: Transaction,
    sig: bitcoin::taproot::Signature,
}

fn fixture() -> Fixture {
    let secp = secp256k1::Secp256k1::new();
    let kp_i = secp256k1::Keypair::from_seckey_slice(&secp, &[0x21; 32]).unwrap();
    let kp_a = secp256k1::Keypair::from_seckey_slice(&secp, &[0x22; 32]).unwrap();
    let (x_internal, _) = XOnlyPublicKey::from_keypair(&kp_i);
    let (x_a, _) = XOnlyPublicKey::from_keypair(&kp_a);

    // A sane taproot descriptor with one leaf: pkh(A).
    let desc =
        Descriptor::<XOnlyPublicKey>::from_str(&format!("tr({},pkh({}))", x_internal, x_a)).unwrap();
    let tr = match &desc {
        Descriptor::Tr(tr) => tr,
        _ => unreachable!(),
    };
    let info = tr.spend_info();
    let leaf = info.leaves().next().unwrap();
    let script = ScriptBuf::from(leaf.script());
    let control_block = leaf.control_block().clone();

    // The leaf script is the plain BIP342 pay-to-pubkey-hash: DUP HASH160 <h160(x-only A)> EQUALVERIFY CHECKSIG
    let expected_script = Builder::new()
        .push_opcode(OP_DUP)
        .push_opcode(OP_HASH160)
        .push_slice(hash160::Hash::hash(&x_a.serialize()).to_byte_array())
        .push_opcode(OP_EQUALVERIFY)
        .push_opcode(OP_CHECKSIG)
        .into_script();
    assert_eq!(script, expected_script);

    let prevout = TxOut { value: Amount::from_sat(100_000), script_pubkey: desc.script_pubkey() };
    let tx = Transaction {
        version: transaction::Version::TWO,
        lock_time: absolute::LockTime::ZERO,
        input: vec![TxIn {
            previous_output: OutPoint { txid: Txid::all_zeros(), vout: 0 },
            script_sig: ScriptBuf::new(),
            sequence: Sequence::MAX,
            witness: Witness::new(),
        }],
        output: vec![TxOut { value: Amount::from_sat(99_000), script_pubkey: ScriptBuf::new() }],
    };
    let leaf_hash = TapLeafHash::from_script(&script, LeafVersion::TapScript);
    let sighash = SighashCache::new(&tx)
        .taproot_script_spend_signature_hash(
            0,
            &Prevouts::All(&[prevout.clone()]),
            leaf_hash,
            TapSighashType::Default,
        )
        .unwrap();
    let msg = secp256k1::Message::from_digest(sighash.to_byte_array());
    let sig = bitcoin::taproot::Signature {
        signature: secp.sign_schnorr_no_aux_rand(&msg, &kp_a),
        sighash_type: TapSighashType::Default,
    };
    Fixture { secp, x_internal, x_a, desc, script, control_block, leaf_hash, prevout, tx, sig }
}

/// Consensus check of a script-path witness `[sig, key, script, control block]` for this output,
/// done with rust-bitcoin / secp256k1 only (no rust-miniscript code):
///  * BIP341: the control block commits `script` to the output key,
///  * BIP342 execution of `DUP HASH160 <h> EQUALVERIFY CHECKSIG` on the stack `[sig, key]`:
///    HASH160(key) == h, key is a 32-byte x-only key, sig is a valid BIP340 signature for the
///    script-path sighash of this leaf; CHECKSIG then leaves exactly one true element.
fn witness_is_consensus_valid(f: &Fixture, wit: &[Vec<u8>]) -> bool {
    if wit.len() != 4 {
        return false;
    }
    let (sig, key, script, cb) = (&wit[0], &wit[1], &wit[2], &wit[3]);
    let cb = match ControlBlock::decode(cb) {
        Ok(cb) => cb,
        Err(_) => return false,
    };
    let output_key = XOnlyPublicKey::from_slice(&f.prevout.script_pubkey.as_bytes()[2..34]).unwrap();
    let script = ScriptBuf::from(script.clone());
    if script != f.script || !cb.verify_taproot_commitment(&f.secp, output_key, &script) {
        return false;
    }
    let h = &script.as_bytes()[3..23];
    if hash160::Hash::hash(key).to_byte_array() != h {
        return false;
    }
    let key = match XOnlyPublicKey::from_slice(key) {
        Ok(k) => k,
        Err(_) => return false,
    };
    let sig = match bitcoin::taproot::Signature::from_slice(sig) {
        Ok(s) => s,
        Err(_) => return false,
    };
    let sighash = SighashCache::new(&f.tx)
        .taproot_script_spend_signature_hash(
            0,
            &Prevouts::All(&[f.prevout.clone()]),
            f.leaf_hash,
            sig.sighash_type,
        )
        .unwrap();
    let msg = secp256k1::Message::from_digest(sighash.to_byte_array());
    f.secp.verify_schnorr(&sig.signature, &msg, &key).is_ok()
}

/// The satisfier API on the decoded leaf script, with the map satisfier that the library itself
/// provides for "taproot signature by key hash" (`impl Satisfier for HashMap<(hash160, TapLeafHash), (Pk, Signature)>`).
#[test]
fn decoded_tap_pkh_with_the_librarys_map_satisfier() {
    let f = fixture();

    // 1. A spend from the caller's only asset (the signature of A) exists.
    let hand_made = vec![
        f.sig.to_vec(),
        f.x_a.serialize().to_vec(),
        f.script.to_bytes(),
        f.control_block.serialize(),
    ];
    assert!(witness_is_consensus_valid(&f, &hand_made), "hand-made witness must be valid");

    // 2. What the library makes of the on-chain script: a raw pkh.
    let ms = Miniscript::<XOnlyPublicKey, Tap>::decode_consensus(&f.script).unwrap();

    let mut sigs: HashMap<(hash160::Hash, TapLeafHash), (XOnlyPublicKey, bitcoin::taproot::Signature)> =
        HashMap::new();
    sigs.insert((hash160::Hash::hash(&f.x_a.serialize()), f.leaf_hash), (f.x_a, f.sig));

    for (mode, res) in [
        ("malleable", catch_unwind(AssertUnwindSafe(|| ms.satisfy_malleable(&sigs)))),
        ("non-malleable", catch_unwind(AssertUnwindSafe(|| ms.satisfy(&sigs)))),
    ] {
        let res = res.unwrap_or_else(|_| {
            panic!(
                "C02 violated: the {} satisfier PANICKED although the caller's signature spends the script",
                mode
            )
        });
        let mut wit = res.unwrap_or_else(|e| {
            panic!("C02 violated: the {} satisfier found nothing ({:?}) although a spend exists", mode, e)
        });
        wit.push(f.script.to_bytes());
        wit.push(f.control_block.serialize());
        assert!(witness_is_consensus_valid(&f, &wit), "{} satisfier returned an invalid witness", mode);
    }
}

/// The same thing through the PSBT finalizer: a fully signed taproot PSBT whose input carries the
/// leaf script, the control block and the script-path signature (everything BIP371 needs for
/// finalizing) but no `tap_key_origins` entry for A. (With the entry the finalizer can turn the raw
/// hash back into `pkh(A)` and succeeds - see the control at the end.)
#[test]
fn psbt_finalizer_on_a_signed_tap_pkh_leaf() {
    let f = fixture();
    let mut psbt = Psbt::from_unsigned_tx(f.tx.clone()).unwrap();
    psbt.inputs[0].witness_utxo = Some(f.prevout.clone());
    psbt.inputs[0]
        .tap_scripts
        .insert(f.control_block.clone(), (f.script.clone(), LeafVersion::TapScript));
    psbt.inputs[0].tap_internal_key = Some(f.x_internal);
    psbt.inputs[0].tap_script_sigs.insert((f.x_a, f.leaf_hash), f.sig);

    // control: with a key-origin entry for A everything works
    let mut with_origin = psbt.clone();
    with_origin.inputs[0]
        .tap_key_origins
        .insert(f.x_a, (vec![f.leaf_hash], (Default::default(), Default::default())));
    with_origin.finalize_mut(&f.secp).expect("control: finalizes when tap_key_origins names A");
    let wit = with_origin.inputs[0].final_script_witness.clone().unwrap().to_vec();
    assert!(witness_is_consensus_valid(&f, &wit));

    for mall in [true, false] {
        let mut p = psbt.clone();
        let secp = &f.secp;
        let res = catch_unwind(AssertUnwindSafe(|| {
            if mall {
                p.finalize_mall_mut(secp)
            } else {
                p.finalize_mut(secp)
            }
            .map(|()| p.inputs[0].final_script_witness.clone())
        }));
        let res = res.unwrap_or_else(|_| {
            panic!(
                "C02 violated: finalize{}_mut PANICKED on a fully signed input",
                if mall { "_mall" } else { "" }
            )
        });
        let wit = res.expect("C02 violated: finalizer reports the signed input as not satisfiable");
        assert!(witness_is_consensus_valid(&f, &wit.unwrap().to_vec()));
    }
    let _ = &f.desc;
}
