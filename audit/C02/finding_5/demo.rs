//! C02 / finding 5 (malleable mode only, low severity): the satisfier only knows ONE way of
//! dissatisfying `andor` / `and_b` / `thresh`, so a spend is missed when that one way needs a
//! public key (behind a raw `pkh`) the caller does not have.
//!
//! Witness script (well typed; this is what `decode_consensus` / the PSBT finalizer see):
//!     or_d(andor(pk(K0),pk(K2),pkh(<hash of K3>)),pk(K4))
//!   <K0> CHECKSIG NOTIF DUP HASH160 <h160(K3)> EQUALVERIFY CHECKSIG ELSE <K2> CHECKSIG ENDIF
//!   IFDUP NOTIF <K4> CHECKSIG ENDIF
//! The caller holds signatures of K0 and K4, nothing for K2, and does not know the key K3.
//! Spend:  <sig_K4> <> <sig_K0>   - K0 is satisfied, so the ELSE branch runs `pk(K2)` with an empty
//! signature (false); the `andor` is thereby dissatisfied and `or_d` falls through to `pk(K4)`.
//! The library's `andor` dissatisfaction is hard-wired to "dissatisfy X, dissatisfy Z" (which needs
//! K3), the alternative "satisfy X, dissatisfy Y" is never tried (Bitcoin Core's miniscript
//! satisfier has it), so `satisfy_malleable` / `finalize_mall_mut` say "could not satisfy".

use std::collections::HashMap;
use std::str::FromStr;

use miniscript::bitcoin::hashes::{hash160, Hash};
use miniscript::bitcoin::opcodes::all::*;
use miniscript::bitcoin::psbt::Psbt;
use miniscript::bitcoin::script::Builder;
use miniscript::bitcoin::sighash::SighashCache;
use miniscript::bitcoin::{
    self, absolute, secp256k1, transaction, Amount, EcdsaSighashType, OutPoint, ScriptBuf, Sequence,
    Transaction, TxIn, TxOut, Txid, Witness,
};
use miniscript::psbt::PsbtExt;
use miniscript::{Miniscript, Segwitv0};

struct Fixture {
    secp: secp256k1::Secp256k1<secp256k1::All>,
    pks: Vec<bitcoin::PublicKey>,
    sigs: Vec<bitcoin::ecdsa::Signature>,
    ws: ScriptBuf,
    prevout: TxOut,
    tx: Transaction,
}

fn fixture() -> Fixture {
    let secp = secp256k1::Secp256k1::new();
    let sks: Vec<_> =
        (0u8..5).map(|i| secp256k1::SecretKey::from_slice(&[0x61 + i; 32]).unwrap()).collect();
    let pks: Vec<_> = sks
        .iter()
        .map(|sk| bitcoin::PublicKey::new(secp256k1::PublicKey::from_secret_key(&secp, sk)))
        .collect();
    let ms = Miniscript::<bitcoin::PublicKey, Segwitv0>::from_str(&format!(
        "or_d(andor(pk({}),pk({}),pkh({})),pk({}))",
        pks[0], pks[2], pks[3], pks[4]
    ))
    .unwrap();
    let ws = ms.encode();
    let expected = Builder::new()
        .push_key(&pks[0])
        .push_opcode(OP_CHECKSIG)
        .push_opcode(OP_NOTIF)
        .push_opcode(OP_DUP)
        .push_opcode(OP_HASH160)
        .push_slice(hash160::Hash::hash(&pks[3].to_bytes()).to_byte_array())
        .push_opcode(OP_EQUALVERIFY)
        .push_opcode(OP_CHECKSIG)
        .push_opcode(OP_ELSE)
        .push_key(&pks[2])
        .push_opcode(OP_CHECKSIG)
        .push_opcode(OP_ENDIF)
        .push_opcode(OP_IFDUP)
        .push_opcode(OP_NOTIF)
        .push_key(&pks[4])
        .push_opcode(OP_CHECKSIG)
        .push_opcode(OP_ENDIF)
        .into_script();
    assert_eq!(ws, expected);

    let prevout = TxOut { value: Amount::from_sat(100_000), script_pubkey: ws.to_p2wsh() };
    let tx = Transaction {
        version: transaction::Version::TWO,
        lock_time: absolute::LockTime::ZERO,
        input: vec![TxIn {
            previous_output: OutPoint { txid: Txid::all_zeros(), vout: 0 },
            script_sig: ScriptBuf::new(),
            sequence: Sequence::MAX,
            witness: Witness::new(),
        }],
        output: vec![TxOut { value: Amount::from_sat(99_000), script_pubkey: ScriptBuf::new() }],
    };
    let sh = SighashCache::new(&tx)
        .p2wsh_signature_hash(0, &ws, prevout.value, EcdsaSighashType::All)
        .unwrap();
    let msg = secp256k1::Message::from_digest(sh.to_byte_array());
    let sigs = sks
        .iter()
        .map(|sk| bitcoin::ecdsa::Signature {
            signature: secp.sign_ecdsa(&msg, sk),
            sighash_type: EcdsaSighashType::All,
        })
        .collect();
    Fixture { secp, pks, sigs, ws, prevout, tx }
}

fn sig_ok(f: &Fixture, sig: &[u8], key: usize) -> bool {
    let sig = match bitcoin::ecdsa::Signature::from_slice(sig) {
        Ok(s) => s,
        Err(_) => return false,
    };
    let sh = SighashCache::new(&f.tx)
        .p2wsh_signature_hash(0, &f.ws, f.prevout.value, sig.sighash_type)
        .unwrap();
    f.secp
        .verify_ecdsa(&secp256k1::Message::from_digest(sh.to_byte_array()), &sig.signature, &f.pks[key].inner)
        .is_ok()
}

/// Script semantics of `<sig_K4> <> <sig_K0> <script>` (rust-bitcoin/secp256k1 only):
/// `<K0> CHECKSIG` consumes the top element and must be TRUE -> NOTIF skips to ELSE ->
/// `<K2> CHECKSIG` consumes the empty element -> FALSE (empty, so NULLFAIL is respected) ->
/// IFDUP does nothing, NOTIF consumes FALSE and runs `<K4> CHECKSIG` on the last element -> TRUE.
fn witness_is_consensus_valid(f: &Fixture, wit: &[Vec<u8>]) -> bool {
    wit.len() == 4
        && wit[3] == f.ws.to_bytes()
        && f.ws.to_p2wsh() == f.prevout.script_pubkey
        && sig_ok(f, &wit[2], 0)
        && wit[1].is_empty()
        && sig_ok(f, &wit[0], 4)
}

#[test]
fn malleable_satisfier_on_the_decoded_script() {
    let f = fixture();
    assert!(witness_is_consensus_valid(
        &f,
        &[f.sigs[4].to_vec(), vec![], f.sigs[0].to_vec(), f.ws.to_bytes()]
    ));

    let ms = Miniscript::<bitcoin::PublicKey, Segwitv0>::decode_consensus(&f.ws).unwrap();
    let mut sigs = HashMap::new();
    sigs.insert(f.pks[0], f.sigs[0]);
    sigs.insert(f.pks[4], f.sigs[4]);
    let res = ms.satisfy_malleable(&sigs);
    let mut wit = res.unwrap_or_else(|e| {
        panic!("C02 violated: malleable satisfier says {:?} although <sig_K4> <> <sig_K0> spends the script", e)
    });
    wit.push(f.ws.to_bytes());
    assert!(witness_is_consensus_valid(&f, &wit));
}

#[test]
fn psbt_finalize_mall() {
    let f = fixture();
    let mut psbt = Psbt::from_unsigned_tx(f.tx.clone()).unwrap();
    psbt.inputs[0].witness_utxo = Some(f.prevout.clone());
    psbt.inputs[0].witness_script = Some(f.ws.clone());
    psbt.inputs[0].partial_sigs.insert(f.pks[0], f.sigs[0]);
    psbt.inputs[0].partial_sigs.insert(f.pks[4], f.sigs[4]);

    // control: when the PSBT happens to know K3 the (other) dissatisfaction is found
    let mut ctl = psbt.clone();
    ctl.inputs[0].bip32_derivation.insert(f.pks[3].inner, (Default::default(), Default::default()));
    ctl.finalize_mall_mut(&f.secp).expect("control");

    let res = psbt.finalize_mall_mut(&f.secp);
    assert!(
        res.is_ok(),
        "C02 violated: finalize_mall_mut says {:?} although <sig_K4> <> <sig_K0> spends the output",
        res
    );
    assert!(witness_is_consensus_valid(&f, &psbt.inputs[0].final_script_witness.clone().unwrap().to_vec()));
}
