//! C02 / finding 3: the PSBT satisfier cannot dissatisfy `pkh(<uncompressed key>)`.
//!
//! Descriptor (sane, P2SH, uncompressed keys are legal and standard outside segwit):
//!     sh(or_d(pkh(U), pk(B)))        U = 65-byte uncompressed key, B = compressed key
//!   redeemScript: DUP HASH160 <h160(U)> EQUALVERIFY CHECKSIG IFDUP NOTIF <B> CHECKSIG ENDIF
//! Only B signs.  The spend is `<sig_B> <> <U> <redeemScript>`.
//!
//! Workflow, entirely through the library: `update_input_with_descriptor` (puts U and B into
//! `bip32_derivation`), B's signature into `partial_sigs`, `finalize_mut`.  The finalizer decodes the
//! redeemScript, meets the raw hash of U and asks `PsbtInputSatisfier::lookup_raw_pkh_pk`, which only
//! compares HASH160 of the COMPRESSED serialization of the `bip32_derivation` keys (these are
//! `secp256k1::PublicKey`s - they have no "compressed" flag, both serializations are the same key).
//! Result: "could not satisfy", in both modes.  The compressed twin of the descriptor finalizes.

use std::str::FromStr;

use miniscript::bitcoin::hashes::{hash160, Hash};
use miniscript::bitcoin::opcodes::all::*;
use miniscript::bitcoin::psbt::Psbt;
use miniscript::bitcoin::script::{Builder, Instruction};
use miniscript::bitcoin::sighash::SighashCache;
use miniscript::bitcoin::{
    self, absolute, secp256k1, transaction, Amount, EcdsaSighashType, OutPoint, ScriptBuf, Sequence,
    Transaction, TxIn, TxOut, Witness,
};
use miniscript::psbt::PsbtExt;
use miniscript::{DefiniteDescriptorKey, Descriptor};

/// Consensus check (rust-bitcoin/secp256k1 only) of the scriptSig `<sig_B> <> <U> <redeemScript>`:
///  * BIP16: HASH160(redeemScript) is the hash in the scriptPubKey, scriptSig is push-only,
///  * `DUP HASH160 <h> EQUALVERIFY`: HASH160(U) == h,
///  * `CHECKSIG` with an empty signature pushes false,
///  * `IFDUP NOTIF`: false is not duplicated, NOTIF consumes it and runs `<B> CHECKSIG`,
///    which must verify sig_B over the legacy sighash with scriptCode = redeemScript.
fn script_sig_is_consensus_valid(
    secp: &secp256k1::Secp256k1<secp256k1::All>,
    tx: &Transaction,
    prevout: &TxOut,
    redeem: &ScriptBuf,
    pk_b: &bitcoin::PublicKey,
    script_sig: &ScriptBuf,
) -> bool {
    let mut pushes = vec![];
    for ins in script_sig.instructions() {
        match ins {
            Ok(Instruction::PushBytes(b)) => pushes.push(b.as_bytes().to_vec()),
            Ok(Instruction::Op(op)) if op == OP_PUSHBYTES_0 => pushes.push(vec![]),
            _ => return false,
        }
    }
    if pushes.len() != 4 || pushes[3] != redeem.to_bytes() || redeem.to_p2sh() != prevout.script_pubkey {
        return false;
    }
    if !pushes[1].is_empty() {
        return false;
    }
    if hash160::Hash::hash(&pushes[2]).to_byte_array()[..] != redeem.as_bytes()[3..23] {
        return false;
    }
    let sig = match bitcoin::ecdsa::Signature::from_slice(&pushes[0]) {
        Ok(s) => s,
        Err(_) => return false,
    };
    let sighash =
        SighashCache::new(tx).legacy_signature_hash(0, redeem, sig.sighash_type.to_u32()).unwrap();
    let msg = secp256k1::Message::from_digest(sighash.to_byte_array());
    secp.verify_ecdsa(&msg, &sig.signature, &pk_b.inner).is_ok()
}

fn run(uncompressed: bool) -> (Result<(), String>, bool) {
    let secp = secp256k1::Secp256k1::new();
    let sk_u = secp256k1::SecretKey::from_slice(&[0x41; 32]).unwrap();
    let sk_b = secp256k1::SecretKey::from_slice(&[0x42; 32]).unwrap();
    let mut pk_u = bitcoin::PublicKey::new(secp256k1::PublicKey::from_secret_key(&secp, &sk_u));
    pk_u.compressed = !uncompressed;
    let pk_b = bitcoin::PublicKey::new(secp256k1::PublicKey::from_secret_key(&secp, &sk_b));

    let desc = Descriptor::<DefiniteDescriptorKey>::from_str(&format!(
        "sh(or_d(pkh({}),pk({})))",
        pk_u, pk_b
    ))
    .unwrap();
    let redeem = desc.explicit_script().unwrap();
    let expected = Builder::new()
        .push_opcode(OP_DUP)
        .push_opcode(OP_HASH160)
        .push_slice(hash160::Hash::hash(&pk_u.to_bytes()).to_byte_array())
        .push_opcode(OP_EQUALVERIFY)
        .push_opcode(OP_CHECKSIG)
        .push_opcode(OP_IFDUP)
        .push_opcode(OP_NOTIF)
        .push_key(&pk_b)
        .push_opcode(OP_CHECKSIG)
        .push_opcode(OP_ENDIF)
        .into_script();
    assert_eq!(redeem, expected);

    let prev_tx = Transaction {
        version: transaction::Version::TWO,
        lock_time: absolute::LockTime::ZERO,
        input: vec![],
        output: vec![TxOut { value: Amount::from_sat(100_000), script_pubkey: desc.script_pubkey() }],
    };
    let prevout = prev_tx.output[0].clone();
    let tx = Transaction {
        version: transaction::Version::TWO,
        lock_time: absolute::LockTime::ZERO,
        input: vec![TxIn {
            previous_output: OutPoint { txid: prev_tx.compute_txid(), vout: 0 },
            script_sig: ScriptBuf::new(),
            sequence: Sequence::MAX,
            witness: Witness::new(),
        }],
        output: vec![TxOut { value: Amount::from_sat(99_000), script_pubkey: ScriptBuf::new() }],
    };
    let sighash = SighashCache::new(&tx)
        .legacy_signature_hash(0, &redeem, EcdsaSighashType::All.to_u32())
        .unwrap();
    let msg = secp256k1::Message::from_digest(sighash.to_byte_array());
    let sig_b = bitcoin::ecdsa::Signature {
        signature: secp.sign_ecdsa(&msg, &sk_b),
        sighash_type: EcdsaSighashType::All,
    };

    // a spend from the caller's assets (sig_B) exists:
    let hand_made = Builder::new()
        .push_slice(sig_b.serialize())
        .push_opcode(OP_PUSHBYTES_0)
        .push_key(&pk_u)
        .push_slice(<&bitcoin::script::PushBytes>::try_from(redeem.as_bytes()).unwrap())
        .into_script();
    let hand_made_ok = script_sig_is_consensus_valid(&secp, &tx, &prevout, &redeem, &pk_b, &hand_made);

    // the library's PSBT workflow: updater, signer, finalizer
    let mut psbt = Psbt::from_unsigned_tx(tx.clone()).unwrap();
    psbt.inputs[0].non_witness_utxo = Some(prev_tx);
    psbt.update_input_with_descriptor(0, &desc).unwrap();
    assert!(psbt.inputs[0].bip32_derivation.contains_key(&pk_u.inner), "updater recorded U");
    psbt.inputs[0].partial_sigs.insert(pk_b, sig_b);

    let mut res = Ok(());
    for mall in [true, false] {
        let mut p = psbt.clone();
        let r = if mall { p.finalize_mall_mut(&secp) } else { p.finalize_mut(&secp) };
        match r {
            Ok(()) => {
                let ss = p.inputs[0].final_script_sig.clone().unwrap();
                assert!(script_sig_is_consensus_valid(&secp, &tx, &prevout, &redeem, &pk_b, &ss));
            }
            Err(e) => res = Err(format!("finalize{}_mut: {:?}", if mall { "_mall" } else { "" }, e)),
        }
    }
    (res, hand_made_ok)
}

#[test]
fn control_compressed_key() {
    let (res, hand_made_ok) = run(false);
    assert!(hand_made_ok);
    assert!(res.is_ok(), "{:?}", res);
}

#[test]
fn uncompressed_key_behind_pkh_must_be_dissatisfiable() {
    let (res, hand_made_ok) = run(true);
    assert!(hand_made_ok, "hand-made scriptSig <sig_B> <> <U> <redeemScript> must be valid");
    assert!(
        res.is_ok(),
        "C02 violated: {} although <sig_B> <> <U> <redeemScript> spends the output and the PSBT holds sig_B and U",
        res.unwrap_err()
    );
}
