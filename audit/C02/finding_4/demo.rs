//! C02 / finding 4: `Plan::update_psbt_input` does not record the public key that the plan needs
//! for DISSATISFYING a `pkh()`, so the library's own finalizer reports the planned spend as
//! impossible.
//!
//! Descriptor (sane):  wsh(or_d(pkh(A),pk(B)))        caller's assets: key B only
//!   DUP HASH160 <h160(A)> EQUALVERIFY CHECKSIG IFDUP NOTIF <B> CHECKSIG ENDIF
//! `into_plan` finds the spend `<sig_B> <> <A>`; the template is
//! [EcdsaSigPk(B), PushZero, Pubkey(A)].  `update_psbt_input` ("Update a PSBT input with the
//! metadata required to complete this plan") only looks at the signature placeholders and writes
//! B into `bip32_derivation`; A (the `Pubkey` placeholder) is dropped.  After B signed,
//! `finalize_mut` / `finalize_mall_mut` decode the witness script, find the raw hash of A, cannot
//! resolve it and answer "could not satisfy" - for an input the library itself planned and whose
//! plan completes fine with `Plan::satisfy` on the very same PSBT.
//! The taproot twin `tr(I,or_d(pkh(A),pk(B)))` fails the same way (`CouldNotSatisfyTr`).

use std::str::FromStr;

use miniscript::bitcoin::hashes::{hash160, Hash};
use miniscript::bitcoin::psbt::Psbt;
use miniscript::bitcoin::sighash::{Prevouts, SighashCache};
use miniscript::bitcoin::taproot::{ControlBlock, LeafVersion, TapLeafHash};
use miniscript::bitcoin::{
    self, absolute, secp256k1, transaction, Amount, EcdsaSighashType, OutPoint, ScriptBuf, Sequence,
    TapSighashType, Transaction, TxIn, TxOut, Txid, Witness, XOnlyPublicKey,
};
use miniscript::plan::Assets;
use miniscript::psbt::{PsbtExt, PsbtInputSatisfier};
use miniscript::{DefiniteDescriptorKey, Descriptor, DescriptorPublicKey};

fn spending_tx() -> Transaction {
    Transaction {
        version: transaction::Version::TWO,
        lock_time: absolute::LockTime::ZERO,
        input: vec![TxIn {
            previous_output: OutPoint { txid: Txid::all_zeros(), vout: 0 },
            script_sig: ScriptBuf::new(),
            sequence: Sequence::MAX,
            witness: Witness::new(),
        }],
        output: vec![TxOut { value: Amount::from_sat(99_000), script_pubkey: ScriptBuf::new() }],
    }
}

#[test]
fn wsh_plan_update_sign_finalize() {
    let secp = secp256k1::Secp256k1::new();
    let sk_b = secp256k1::SecretKey::from_slice(&[0x52; 32]).unwrap();
    let pk_a = bitcoin::PublicKey::new(secp256k1::PublicKey::from_secret_key(
        &secp,
        &secp256k1::SecretKey::from_slice(&[0x51; 32]).unwrap(),
    ));
    let pk_b = bitcoin::PublicKey::new(secp256k1::PublicKey::from_secret_key(&secp, &sk_b));
    let desc = Descriptor::<DefiniteDescriptorKey>::from_str(&format!(
        "wsh(or_d(pkh({}),pk({})))",
        pk_a, pk_b
    ))
    .unwrap();
    let ws = desc.explicit_script().unwrap();
    let prevout = TxOut { value: Amount::from_sat(100_000), script_pubkey: desc.script_pubkey() };
    let tx = spending_tx();

    // consensus check of `<sig> <> <A> <script>` with rust-bitcoin/secp256k1 only:
    // P2WSH program matches; HASH160(A) == h; CHECKSIG(empty) = false; IFDUP leaves it; NOTIF runs
    // `<B> CHECKSIG` which must verify the BIP143 signature of B.
    let valid = |wit: &[Vec<u8>]| -> bool {
        wit.len() == 4
            && wit[3] == ws.to_bytes()
            && ws.to_p2wsh() == prevout.script_pubkey
            && wit[1].is_empty()
            && hash160::Hash::hash(&wit[2]).to_byte_array()[..] == ws.as_bytes()[3..23]
            && match bitcoin::ecdsa::Signature::from_slice(&wit[0]) {
                Ok(sig) => {
                    let sh = SighashCache::new(&tx)
                        .p2wsh_signature_hash(0, &ws, prevout.value, sig.sighash_type)
                        .unwrap();
                    secp.verify_ecdsa(
                        &secp256k1::Message::from_digest(sh.to_byte_array()),
                        &sig.signature,
                        &pk_b.inner,
                    )
                    .is_ok()
                }
                Err(_) => false,
            }
    };

    // 1. plan with the caller's assets (key B only)
    let assets = Assets::new().add(DescriptorPublicKey::from_str(&pk_b.to_string()).unwrap());
    let plan = desc.clone().into_plan(&assets).expect("the planner finds the spend");

    // 2. updater role, done by the plan
    let mut psbt = Psbt::from_unsigned_tx(tx.clone()).unwrap();
    psbt.inputs[0].witness_utxo = Some(prevout.clone());
    plan.update_psbt_input(&mut psbt.inputs[0]);

    // 3. signer role
    let sh = SighashCache::new(&tx)
        .p2wsh_signature_hash(0, &ws, prevout.value, EcdsaSighashType::All)
        .unwrap();
    let sig_b = bitcoin::ecdsa::Signature {
        signature: secp.sign_ecdsa(&secp256k1::Message::from_digest(sh.to_byte_array()), &sk_b),
        sighash_type: EcdsaSighashType::All,
    };
    psbt.inputs[0].partial_sigs.insert(pk_b, sig_b);

    // the spend exists: hand-made, and also what the plan itself produces from this PSBT
    assert!(valid(&[sig_b.to_vec(), vec![], pk_a.to_bytes(), ws.to_bytes()]));
    let (wit, _) = plan.satisfy(&PsbtInputSatisfier::new(&psbt, 0)).expect("plan completes");
    assert!(valid(&wit));

    // 4. finalizer role
    for mall in [true, false] {
        let mut p = psbt.clone();
        let res = if mall { p.finalize_mall_mut(&secp) } else { p.finalize_mut(&secp) };
        assert!(
            res.is_ok(),
            "C02 violated: after into_plan + update_psbt_input + signing, finalize{}_mut says {:?}",
            if mall { "_mall" } else { "" },
            res
        );
        assert!(valid(&p.inputs[0].final_script_witness.clone().unwrap().to_vec()));
    }
}

#[test]
fn tr_plan_update_sign_finalize() {
    let secp = secp256k1::Secp256k1::new();
    let kp = |b: u8| secp256k1::Keypair::from_seckey_slice(&secp, &[b; 32]).unwrap();
    let (x_i, x_a, x_b) = (
        XOnlyPublicKey::from_keypair(&kp(0x53)).0,
        XOnlyPublicKey::from_keypair(&kp(0x54)).0,
        XOnlyPublicKey::from_keypair(&kp(0x55)).0,
    );
    let desc = Descriptor::<DefiniteDescriptorKey>::from_str(&format!(
        "tr({},or_d(pkh({}),pk({})))",
        x_i, x_a, x_b
    ))
    .unwrap();
    let prevout = TxOut { value: Amount::from_sat(100_000), script_pubkey: desc.script_pubkey() };
    let tx = spending_tx();
    let script = match &desc {
        Descriptor::Tr(tr) => tr.leaves().next().unwrap().miniscript().encode(),
        _ => unreachable!(),
    };
    let lh = TapLeafHash::from_script(&script, LeafVersion::TapScript);

    // consensus check of `<sig_B> <> <A> <script> <control block>` (BIP341 commitment, HASH160(A),
    // empty signature = false under BIP342, BIP340 signature of B over the script-path sighash)
    let valid = |wit: &[Vec<u8>]| -> bool {
        if wit.len() != 5 || wit[3] != script.to_bytes() || !wit[1].is_empty() {
            return false;
        }
        let cb = match ControlBlock::decode(&wit[4]) {
            Ok(cb) => cb,
            Err(_) => return false,
        };
        let out_key = XOnlyPublicKey::from_slice(&prevout.script_pubkey.as_bytes()[2..34]).unwrap();
        if !cb.verify_taproot_commitment(&secp, out_key, &script) {
            return false;
        }
        if hash160::Hash::hash(&wit[2]).to_byte_array()[..] != script.as_bytes()[3..23] || wit[2].len() != 32 {
            return false;
        }
        match bitcoin::taproot::Signature::from_slice(&wit[0]) {
            Ok(sig) => {
                let sh = SighashCache::new(&tx)
                    .taproot_script_spend_signature_hash(0, &Prevouts::All(&[prevout.clone()]), lh, sig.sighash_type)
                    .unwrap();
                secp.verify_schnorr(&sig.signature, &secp256k1::Message::from_digest(sh.to_byte_array()), &x_b).is_ok()
            }
            Err(_) => false,
        }
    };

    let assets = Assets::new().add(DescriptorPublicKey::from_str(&x_b.to_string()).unwrap());
    let plan = desc.clone().into_plan(&assets).expect("the planner finds the script-path spend");
    let mut psbt = Psbt::from_unsigned_tx(tx.clone()).unwrap();
    psbt.inputs[0].witness_utxo = Some(prevout.clone());
    plan.update_psbt_input(&mut psbt.inputs[0]);

    let sh = SighashCache::new(&tx)
        .taproot_script_spend_signature_hash(0, &Prevouts::All(&[prevout.clone()]), lh, TapSighashType::Default)
        .unwrap();
    let sig_b = bitcoin::taproot::Signature {
        signature: secp.sign_schnorr_no_aux_rand(&secp256k1::Message::from_digest(sh.to_byte_array()), &kp(0x55)),
        sighash_type: TapSighashType::Default,
    };
    psbt.inputs[0].tap_script_sigs.insert((x_b, lh), sig_b);

    let (wit, _) = plan.satisfy(&PsbtInputSatisfier::new(&psbt, 0)).expect("plan completes");
    assert!(valid(&wit), "the plan's own witness is valid");

    for mall in [true, false] {
        let mut p = psbt.clone();
        let res = if mall { p.finalize_mall_mut(&secp) } else { p.finalize_mut(&secp) };
        assert!(
            res.is_ok(),
            "C02 violated: after into_plan + update_psbt_input + signing, finalize{}_mut says {:?}",
            if mall { "_mall" } else { "" },
            res
        );
        assert!(valid(&p.inputs[0].final_script_witness.clone().unwrap().to_vec()));
    }
}
