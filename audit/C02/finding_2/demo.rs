//! C02 / finding 2: the satisfier cannot DISSATISFY a raw `pkh` although the caller's own
//! signature look-up hands it the public key.
//!
//! Script (sane, P2WSH):  andor(pkh(A), older(1000), pk(B))
//!   DUP HASH160 <h160(A)> EQUALVERIFY CHECKSIG NOTIF <B> CHECKSIG ELSE <1000> CSV ENDIF
//! Both A and B have signed, the input's nSequence does not meet older(1000).  The only spend is
//! "dissatisfy pkh(A), satisfy pk(B)":  witness  <sig_B> <> <A> <script>.
//! The PSBT holds sig_A, sig_B and therefore both public keys (`partial_sigs` is keyed by key),
//! but no `bip32_derivation` (it is optional in BIP174).  `finalize_mut`/`finalize_mall_mut`
//! answer "could not satisfy".
//!
//! Root cause: `Witness::pkh_public_key` (template stage) only asks `lookup_raw_pkh_pk`, while
//! `Placeholder::PubkeyHash::satisfy_self` (completion stage) and the trait documentation of
//! `lookup_raw_pkh_ecdsa_sig` ("the users can use this map to provide pkh -> pk mapping which can
//! be useful for dissatisfying pkh") also accept the key from `lookup_raw_pkh_ecdsa_sig`.

use std::str::FromStr;

use miniscript::bitcoin::hashes::{hash160, Hash};
use miniscript::bitcoin::opcodes::all::*;
use miniscript::bitcoin::psbt::Psbt;
use miniscript::bitcoin::script::Builder;
use miniscript::bitcoin::sighash::SighashCache;
use miniscript::bitcoin::{
    self, absolute, secp256k1, transaction, Amount, EcdsaSighashType, OutPoint, ScriptBuf, Sequence,
    Transaction, TxIn, TxOut, Txid, Witness,
};
use miniscript::psbt::PsbtExt;
use miniscript::{Descriptor, Miniscript, Satisfier, Segwitv0};

struct Fixture {
    secp: secp256k1::Secp256k1<secp256k1::All>,
    pk_a: bitcoin::PublicKey,
    pk_b: bitcoin::PublicKey,
    sig_a: bitcoin::ecdsa::Signature,
    sig_b: bitcoin::ecdsa::Signature,
    witness_script: ScriptBuf,
    prevout: TxOut,
    tx: Transaction,
}

fn fixture() -> Fixture {
    let secp = secp256k1::Secp256k1::new();
    let sk_a = secp256k1::SecretKey::from_slice(&[0x31; 32]).unwrap();
    let sk_b = secp256k1::SecretKey::from_slice(&[0x32; 32]).unwrap();
    let pk_a = bitcoin::PublicKey::new(secp256k1::PublicKey::from_secret_key(&secp, &sk_a));
    let pk_b = bitcoin::PublicKey::new(secp256k1::PublicKey::from_secret_key(&secp, &sk_b));

    let desc = Descriptor::<bitcoin::PublicKey>::from_str(&format!(
        "wsh(andor(pkh({}),older(1000),pk({})))",
        pk_a, pk_b
    ))
    .unwrap();
    let witness_script = desc.explicit_script().unwrap();
    let expected = Builder::new()
        .push_opcode(OP_DUP)
        .push_opcode(OP_HASH160)
        .push_slice(hash160::Hash::hash(&pk_a.to_bytes()).to_byte_array())
        .push_opcode(OP_EQUALVERIFY)
        .push_opcode(OP_CHECKSIG)
        .push_opcode(OP_NOTIF)
        .push_key(&pk_b)
        .push_opcode(OP_CHECKSIG)
        .push_opcode(OP_ELSE)
        .push_int(1000)
        .push_opcode(OP_CSV)
        .push_opcode(OP_ENDIF)
        .into_script();
    assert_eq!(witness_script, expected);

    let prevout = TxOut { value: Amount::from_sat(100_000), script_pubkey: desc.script_pubkey() };
    let tx = Transaction {
        version: transaction::Version::TWO,
        lock_time: absolute::LockTime::ZERO,
        input: vec![TxIn {
            previous_output: OutPoint { txid: Txid::all_zeros(), vout: 0 },
            script_sig: ScriptBuf::new(),
            // relative lock of 1000 blocks is NOT met (BIP68/112): only the pk(B) branch is open
            sequence: Sequence::ENABLE_RBF_NO_LOCKTIME,
            witness: Witness::new(),
        }],
        output: vec![TxOut { value: Amount::from_sat(99_000), script_pubkey: ScriptBuf::new() }],
    };
    let sighash = SighashCache::new(&tx)
        .p2wsh_signature_hash(0, &witness_script, prevout.value, EcdsaSighashType::All)
        .unwrap();
    let msg = secp256k1::Message::from_digest(sighash.to_byte_array());
    let sign = |sk| bitcoin::ecdsa::Signature {
        signature: secp.sign_ecdsa(&msg, sk),
        sighash_type: EcdsaSighashType::All,
    };
    let (sig_a, sig_b) = (sign(&sk_a), sign(&sk_b));
    Fixture { secp, pk_a, pk_b, sig_a, sig_b, witness_script, prevout, tx }
}

/// BIP141/143 + script semantics for the witness `[sig_B, <>, A, script]`, checked with
/// rust-bitcoin/secp256k1 only:
///  * SHA256(script) is the witness program,
///  * `DUP HASH160 <h> EQUALVERIFY`: HASH160(A) == h,
///  * `CHECKSIG` with the empty signature pushes false (allowed by NULLFAIL because it is empty),
///  * `NOTIF` therefore runs `<B> CHECKSIG`, which must verify sig_B over the BIP143 sighash;
///    the ELSE branch with CHECKSEQUENCEVERIFY is not executed.
fn witness_is_consensus_valid(f: &Fixture, wit: &[Vec<u8>]) -> bool {
    if wit.len() != 4 || wit[3] != f.witness_script.to_bytes() {
        return false;
    }
    if ScriptBuf::from(wit[3].clone()).to_p2wsh() != f.prevout.script_pubkey {
        return false;
    }
    let (sig_b, empty, key_a) = (&wit[0], &wit[1], &wit[2]);
    if !empty.is_empty() {
        return false;
    }
    if hash160::Hash::hash(key_a).to_byte_array()[..] != f.witness_script.as_bytes()[3..23] {
        return false;
    }
    let sig_b = match bitcoin::ecdsa::Signature::from_slice(sig_b) {
        Ok(s) => s,
        Err(_) => return false,
    };
    let sighash = SighashCache::new(&f.tx)
        .p2wsh_signature_hash(0, &f.witness_script, f.prevout.value, sig_b.sighash_type)
        .unwrap();
    let msg = secp256k1::Message::from_digest(sighash.to_byte_array());
    f.secp.verify_ecdsa(&msg, &sig_b.signature, &f.pk_b.inner).is_ok()
}

#[test]
fn psbt_with_both_signatures_but_no_bip32_derivation() {
    let f = fixture();
    let hand_made = vec![f.sig_b.to_vec(), vec![], f.pk_a.to_bytes(), f.witness_script.to_bytes()];
    assert!(witness_is_consensus_valid(&f, &hand_made), "hand-made witness must be valid");

    let mut psbt = Psbt::from_unsigned_tx(f.tx.clone()).unwrap();
    psbt.inputs[0].witness_utxo = Some(f.prevout.clone());
    psbt.inputs[0].witness_script = Some(f.witness_script.clone());
    psbt.inputs[0].partial_sigs.insert(f.pk_a, f.sig_a);
    psbt.inputs[0].partial_sigs.insert(f.pk_b, f.sig_b);

    // control: the same PSBT finalizes once A is ALSO listed in bip32_derivation
    let mut ctl = psbt.clone();
    ctl.inputs[0].bip32_derivation.insert(f.pk_a.inner, (Default::default(), Default::default()));
    ctl.finalize_mut(&f.secp).expect("control");
    assert!(witness_is_consensus_valid(&f, &ctl.inputs[0].final_script_witness.clone().unwrap().to_vec()));

    for mall in [true, false] {
        let mut p = psbt.clone();
        let res = if mall { p.finalize_mall_mut(&f.secp) } else { p.finalize_mut(&f.secp) };
        assert!(
            res.is_ok(),
            "C02 violated: finalize{}_mut reports {:?} although <sig_B> <> <A> spends the output and the PSBT holds sig_B and A",
            if mall { "_mall" } else { "" },
            res
        );
        assert!(witness_is_consensus_valid(&f, &p.inputs[0].final_script_witness.clone().unwrap().to_vec()));
    }
}

/// A satisfier written against the trait documentation: signatures by key and by key hash.
struct SigsByKeyAndHash<'a>(&'a Fixture);
impl Satisfier<bitcoin::PublicKey> for SigsByKeyAndHash<'_> {
    fn lookup_ecdsa_sig(&self, pk: &bitcoin::PublicKey) -> Option<bitcoin::ecdsa::Signature> {
        if *pk == self.0.pk_a {
            Some(self.0.sig_a)
        } else if *pk == self.0.pk_b {
            Some(self.0.sig_b)
        } else {
            None
        }
    }
    // "Even if signatures for public key Hashes are not available, the users can use this map to
    //  provide pkh -> pk mapping which can be useful for dissatisfying pkh."
    fn lookup_raw_pkh_ecdsa_sig(
        &self,
        h: &hash160::Hash,
    ) -> Option<(bitcoin::PublicKey, bitcoin::ecdsa::Signature)> {
        [(self.0.pk_a, self.0.sig_a), (self.0.pk_b, self.0.sig_b)]
            .into_iter()
            .find(|(pk, _)| hash160::Hash::hash(&pk.to_bytes()) == *h)
    }
}

#[test]
fn satisfier_api_on_the_decoded_script() {
    let f = fixture();
    let ms = Miniscript::<bitcoin::PublicKey, Segwitv0>::decode_consensus(&f.witness_script).unwrap();
    // nSequence does not meet older(1000): the satisfier is given no relative lock at all.
    let stfr = SigsByKeyAndHash(&f);
    for (mode, res) in [("malleable", ms.satisfy_malleable(&stfr)), ("non-malleable", ms.satisfy(&stfr))] {
        let mut wit = res.unwrap_or_else(|e| {
            panic!("C02 violated: {} satisfier: {:?}, although <sig_B> <> <A> spends the script", mode, e)
        });
        wit.push(f.witness_script.to_bytes());
        assert!(witness_is_consensus_valid(&f, &wit));
    }
}
