// C14 audit, finding 2
//
// Whether an input can be finalized depends on the ORDER in which the inputs of a PSBT are
// finalized.
//
// `get_descriptor` / `construct_tap_witness` (src/psbt/finalizer.rs) resolve the public key behind a
// `pkh()` / `pk_h()` fragment of input i from the `bip32_derivation` / `tap_key_origins` maps of
// *every* input of the PSBT.  `finalize_input` erases these maps of an input when it finalizes it.
// So when the key of a `pkh()` that has to be dissatisfied (`<> <key>`) is only listed in another
// input, finalizing that other input first makes this input unfinalizable - for good: a retry can
// never succeed, although the PSBT carried everything that was needed.
//
// Histories that get there with library calls only: the same descriptor funds two inputs, one is
// updated with `update_input_with_descriptor` (lists all keys), the other one with
// `Plan::update_psbt_input` (lists only the keys that *sign* in the plan - not the key that is
// merely revealed to dissatisfy `pkh()`).  The same happens with any updater that omits key origins
// (BIP 174 does not require them; Bitcoin Core's `bip32derivs=false`).
//
// Run: cp audit/finding_2/demo.rs tests/audit_2.rs && cargo test --offline --test audit_2

use std::str::FromStr;

use miniscript::bitcoin::hashes::Hash;
use miniscript::bitcoin::key::{Keypair, XOnlyPublicKey};
use miniscript::bitcoin::psbt::{Input, Psbt};
use miniscript::bitcoin::secp256k1::{self, Secp256k1, SecretKey};
use miniscript::bitcoin::sighash::{EcdsaSighashType, SighashCache, TapSighashType};
use miniscript::bitcoin::taproot::TapLeafHash;
use miniscript::bitcoin::{
    absolute, ecdsa, taproot, transaction, Amount, OutPoint, PublicKey, ScriptBuf, Sequence,
    Transaction, TxIn, TxOut, Txid, Witness,
};
use miniscript::plan::Assets;
use miniscript::psbt::PsbtExt;
use miniscript::{DefiniteDescriptorKey, Descriptor, DescriptorPublicKey};

fn key(n: u8) -> (SecretKey, PublicKey) {
    let secp = Secp256k1::new();
    let mut b = [0x11u8; 32];
    b[31] = n;
    let sk = SecretKey::from_slice(&b).unwrap();
    (sk, PublicKey::new(secp256k1::PublicKey::from_secret_key(&secp, &sk)))
}

fn desc(template: &str) -> Descriptor<DefiniteDescriptorKey> {
    let s = template
        .replace("K0", &key(1).1.to_string())
        .replace("K1", &key(2).1.to_string())
        .replace("K5", &key(6).1.to_string());
    Descriptor::from_str(&s).unwrap()
}

/// A transaction spending two different UTXOs of the same descriptor.
fn two_input_psbt(d: &Descriptor<DefiniteDescriptorKey>) -> Psbt {
    let mut txins = vec![];
    let mut fundings = vec![];
    for n in 0..2u32 {
        let f = Transaction {
            version: transaction::Version::TWO,
            lock_time: absolute::LockTime::ZERO,
            input: vec![TxIn {
                previous_output: OutPoint { txid: Txid::all_zeros(), vout: n },
                script_sig: ScriptBuf::new(),
                sequence: Sequence::MAX,
                witness: Witness::new(),
            }],
            output: vec![TxOut {
                value: Amount::from_sat(100_000 + n as u64),
                script_pubkey: d.script_pubkey(),
            }],
        };
        txins.push(TxIn {
            previous_output: OutPoint { txid: f.compute_txid(), vout: 0 },
            script_sig: ScriptBuf::new(),
            sequence: Sequence::ENABLE_RBF_NO_LOCKTIME,
            witness: Witness::new(),
        });
        fundings.push(f);
    }
    let tx = Transaction {
        version: transaction::Version::TWO,
        lock_time: absolute::LockTime::ZERO,
        input: txins,
        output: vec![TxOut {
            value: Amount::from_sat(150_000),
            script_pubkey: ScriptBuf::from_hex("0014000102030405060708090a0b0c0d0e0f10111213")
                .unwrap(),
        }],
    };
    let mut psbt = Psbt::from_unsigned_tx(tx).unwrap();
    for (i, f) in fundings.into_iter().enumerate() {
        psbt.inputs[i].witness_utxo = Some(f.output[0].clone());
        psbt.inputs[i].non_witness_utxo = Some(f);
    }
    psbt
}

/// K1 signs input `idx` (ECDSA for segwit v0, Schnorr for every leaf for taproot).
fn sign_with_k1(psbt: &mut Psbt, idx: usize) {
    let secp = Secp256k1::new();
    let (sk, pk) = key(2);
    let tx = psbt.unsigned_tx.clone();
    let mut cache = SighashCache::new(&tx);
    if psbt.inputs[idx].witness_utxo.as_ref().unwrap().script_pubkey.is_p2tr() {
        let kp = Keypair::from_secret_key(&secp, &sk);
        let x = XOnlyPublicKey::from(pk.inner);
        let leaves: Vec<TapLeafHash> = psbt.inputs[idx]
            .tap_scripts
            .values()
            .map(|(s, v)| TapLeafHash::from_script(s, *v))
            .collect();
        for lh in leaves {
            let msg = psbt.sighash_msg(idx, &mut cache, Some(lh)).unwrap().to_secp_msg();
            let signature = secp.sign_schnorr_no_aux_rand(&msg, &kp);
            psbt.inputs[idx].tap_script_sigs.insert(
                (x, lh),
                taproot::Signature { signature, sighash_type: TapSighashType::Default },
            );
        }
    } else {
        let msg = psbt.sighash_msg(idx, &mut cache, None).unwrap().to_secp_msg();
        let signature = secp.sign_ecdsa(&msg, &sk);
        psbt.inputs[idx]
            .partial_sigs
            .insert(pk, ecdsa::Signature { signature, sighash_type: EcdsaSighashType::All });
    }
}

/// Finalize the inputs one by one in the given order; returns which inputs ended up final.
fn finalize_in_order(mut psbt: Psbt, order: &[usize]) -> (Vec<bool>, Psbt) {
    let secp = Secp256k1::new();
    for &i in order {
        let before = psbt.inputs[i].clone();
        if psbt.finalize_inp_mut(&secp, i).is_err() {
            assert_eq!(before, psbt.inputs[i], "a failing finalize must not touch the input");
        }
    }
    let fin = psbt
        .inputs
        .iter()
        .map(|i| i.final_script_witness.is_some() || i.final_script_sig.is_some())
        .collect();
    (fin, psbt)
}

fn assert_order_independent(psbt: &Psbt, what: &str) {
    if let Err(e) = check_order_independent(psbt, what) {
        panic!("{}", e);
    }
}

fn check_order_independent(psbt: &Psbt, what: &str) -> Result<(), String> {
    let secp = Secp256k1::new();
    let (a, pa) = finalize_in_order(psbt.clone(), &[0, 1]);
    let (b, pb) = finalize_in_order(psbt.clone(), &[1, 0]);
    // `finalize_mut` is the order [0, 1] as well
    let mut pc = psbt.clone();
    let c_ok = pc.finalize_mut(&secp).is_ok();
    println!("{what}: order [0,1] -> {a:?}, order [1,0] -> {b:?}, finalize_mut ok: {c_ok}");
    // where an input is finalized the produced spend is the same, so this is only about
    // success/failure
    if a != b {
        return Err(format!(
            "{what}: the same PSBT (same scripts, keys, signatures) must give the same result for \
             finalize_inp(0);finalize_inp(1) = {a:?} and finalize_inp(1);finalize_inp(0) = {b:?}"
        ));
    }
    assert_eq!(pa, pb, "{what}: finalized PSBTs differ");
    assert_eq!(c_ok, b.iter().all(|x| *x), "{what}: finalize_mut disagrees with order [1,0]");
    if c_ok {
        pc.extract(&secp).unwrap();
    }
    Ok(())
}

/// Input 0 updated from the descriptor, input 1 from a `Plan`; both signed by K1, which is all the
/// plan needs (`pkh(K0)` is dissatisfied with `<> <K0>`).
#[test]
fn finalization_does_not_depend_on_input_order_wsh_plan() {
    let d = desc("wsh(or_d(pkh(K0),pk(K1)))");
    let mut psbt = two_input_psbt(&d);
    psbt.update_input_with_descriptor(0, &d).unwrap();
    let k1 = DescriptorPublicKey::from_str(&key(2).1.to_string()).unwrap();
    let plan = d.clone().into_plan(&Assets::new().add(k1)).unwrap();
    plan.update_psbt_input(&mut psbt.inputs[1]);
    sign_with_k1(&mut psbt, 0);
    sign_with_k1(&mut psbt, 1);
    assert_order_independent(&psbt, "wsh, input 1 updated by Plan::update_psbt_input");
}

/// Same with an updater that records scripts but no key origins for input 1 (BIP 174 allows it).
#[test]
fn finalization_does_not_depend_on_input_order_no_key_origins() {
    let mut failures = vec![];
    for t in ["wsh(or_d(pkh(K0),pk(K1)))", "sh(wsh(or_d(pkh(K0),pk(K1))))", "tr(K5,or_d(pkh(K0),pk(K1)))"]
    {
        let d = desc(t);
        let mut psbt = two_input_psbt(&d);
        psbt.update_input_with_descriptor(0, &d).unwrap();
        psbt.update_input_with_descriptor(1, &d).unwrap();
        psbt.inputs[1].bip32_derivation.clear();
        psbt.inputs[1].tap_key_origins.clear();
        sign_with_k1(&mut psbt, 0);
        sign_with_k1(&mut psbt, 1);
        if let Err(e) = check_order_independent(&psbt, t) {
            failures.push(e);
        }
    }
    assert!(failures.is_empty(), "order dependent finalization:\n{}", failures.join("\n"));
}

/// Control: when both inputs list their keys themselves every order works (and when none does,
/// every order fails) - the finalizer is fine as long as no input borrows from another one.
#[test]
fn control_self_contained_inputs() {
    let d = desc("wsh(or_d(pkh(K0),pk(K1)))");
    let mut psbt = two_input_psbt(&d);
    psbt.update_input_with_descriptor(0, &d).unwrap();
    psbt.update_input_with_descriptor(1, &d).unwrap();
    sign_with_k1(&mut psbt, 0);
    sign_with_k1(&mut psbt, 1);
    assert_order_independent(&psbt, "control, both self contained");
    let (fin, _) = finalize_in_order(psbt.clone(), &[0, 1]);
    assert_eq!(fin, vec![true, true]);

    psbt.inputs[0].bip32_derivation.clear();
    psbt.inputs[1].bip32_derivation.clear();
    assert_order_independent(&psbt, "control, no key origins at all");
    let (fin, _) = finalize_in_order(psbt, &[1, 0]);
    assert_eq!(fin, vec![false, false]);
    let _ = Input::default();
}
