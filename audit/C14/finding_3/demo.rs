// C14 audit, finding 3
//
// The finalizer and the extractor never tie the UTXO record of an input to the outpoint that the
// unsigned transaction actually references.
//
// `get_utxo` (src/psbt/finalizer.rs) - used by `finalize_*`, `extract`/`interpreter_check` and
// `sighash_msg` - takes `witness_utxo` if present, else `non_witness_utxo.output[vout]`, and
//   (a) never compares `non_witness_utxo.compute_txid()` with
//       `unsigned_tx.input[i].previous_output.txid`,
//   (b) never compares `witness_utxo` with `non_witness_utxo.output[vout]` when both are present
//       (and prefers the unauthenticated `witness_utxo`).
// Only `update_input_with_descriptor` performs these checks, and nothing forces it to run last (or
// at all).  So `finalize_mut` returns Ok and `extract` returns Ok(tx) - "also does the interpreter
// sanity check" - for a scriptSig/witness that does NOT spend the referenced output:
//   (a) legacy: the scriptSig satisfies the scriptPubKey of an unrelated transaction,
//   (b) segwit v0: the signature commits (BIP 143) to an amount that is not the amount of the
//       referenced output, although the PSBT contains the full previous transaction.
//
// Run: cp audit/finding_3/demo.rs tests/audit_3.rs && cargo test --offline --test audit_3

use std::str::FromStr;

use miniscript::bitcoin::hashes::{hash160, Hash};
use miniscript::bitcoin::psbt::Psbt;
use miniscript::bitcoin::script::Instruction;
use miniscript::bitcoin::secp256k1::{self, Message, Secp256k1, SecretKey};
use miniscript::bitcoin::sighash::{EcdsaSighashType, SighashCache};
use miniscript::bitcoin::{
    absolute, ecdsa, transaction, Amount, OutPoint, PublicKey, ScriptBuf, Sequence, Transaction,
    TxIn, TxOut, Txid, Witness,
};
use miniscript::psbt::{PsbtExt, PsbtInputExt};
use miniscript::{DefiniteDescriptorKey, Descriptor};

fn key(n: u8) -> (SecretKey, PublicKey) {
    let secp = Secp256k1::new();
    let mut b = [0x11u8; 32];
    b[31] = n;
    let sk = SecretKey::from_slice(&b).unwrap();
    (sk, PublicKey::new(secp256k1::PublicKey::from_secret_key(&secp, &sk)))
}

fn desc(template: &str) -> Descriptor<DefiniteDescriptorKey> {
    let s = template
        .replace("K0", &key(1).1.to_string())
        .replace("K1", &key(2).1.to_string());
    Descriptor::from_str(&s).unwrap()
}

fn paying_to(spk: ScriptBuf, value: u64, salt: u32) -> Transaction {
    Transaction {
        version: transaction::Version::TWO,
        lock_time: absolute::LockTime::ZERO,
        input: vec![TxIn {
            previous_output: OutPoint { txid: Txid::all_zeros(), vout: salt },
            script_sig: ScriptBuf::new(),
            sequence: Sequence::MAX,
            witness: Witness::new(),
        }],
        output: vec![TxOut { value: Amount::from_sat(value), script_pubkey: spk }],
    }
}

fn spending(prev: &Transaction) -> Psbt {
    let tx = Transaction {
        version: transaction::Version::TWO,
        lock_time: absolute::LockTime::ZERO,
        input: vec![TxIn {
            previous_output: OutPoint { txid: prev.compute_txid(), vout: 0 },
            script_sig: ScriptBuf::new(),
            sequence: Sequence::ENABLE_RBF_NO_LOCKTIME,
            witness: Witness::new(),
        }],
        output: vec![TxOut {
            value: Amount::from_sat(500),
            script_pubkey: ScriptBuf::from_hex("0014000102030405060708090a0b0c0d0e0f10111213")
                .unwrap(),
        }],
    };
    Psbt::from_unsigned_tx(tx).unwrap()
}

/// A signer that follows the UTXO record of the PSBT the way rust-bitcoin's `Psbt::sign` does
/// (`witness_utxo` if present, else `non_witness_utxo.output[vout]`); it does not use any
/// rust-miniscript code.
fn sign(psbt: &mut Psbt, n: u8) {
    let secp = Secp256k1::new();
    let (sk, pk) = key(n);
    let tx = psbt.unsigned_tx.clone();
    let mut cache = SighashCache::new(&tx);
    let inp = &psbt.inputs[0];
    let utxo = match (&inp.witness_utxo, &inp.non_witness_utxo) {
        (Some(w), _) => w.clone(),
        (None, Some(n)) => n.output[tx.input[0].previous_output.vout as usize].clone(),
        _ => panic!("no utxo"),
    };
    let digest = if utxo.script_pubkey.is_p2wpkh() {
        cache
            .p2wpkh_signature_hash(0, &utxo.script_pubkey, utxo.value, EcdsaSighashType::All)
            .unwrap()
            .to_byte_array()
    } else {
        cache
            .legacy_signature_hash(0, &utxo.script_pubkey, EcdsaSighashType::All.to_u32())
            .unwrap()
            .to_byte_array()
    };
    let signature = secp.sign_ecdsa(&Message::from_digest(digest), &sk);
    psbt.inputs[0]
        .partial_sigs
        .insert(pk, ecdsa::Signature { signature, sighash_type: EcdsaSighashType::All });
}

/// (a) `non_witness_utxo` is a transaction other than the one referenced by the input.
#[test]
fn finalize_binds_non_witness_utxo_to_the_referenced_outpoint() {
    let secp = Secp256k1::new();
    // the coin that the transaction really spends: pkh(K0)
    let real_prev = paying_to(desc("pkh(K0)").script_pubkey(), 100_000, 0);
    // an unrelated transaction paying to pkh(K1)
    let unrelated = paying_to(desc("pkh(K1)").script_pubkey(), 100_000, 1);
    assert_ne!(real_prev.compute_txid(), unrelated.compute_txid());

    let mut psbt = spending(&real_prev);
    psbt.inputs[0].non_witness_utxo = Some(unrelated.clone());
    // (the checked updater refuses this PSBT, the unchecked one and all later roles do not)
    assert!(psbt.update_input_with_descriptor(0, &desc("pkh(K1)")).is_err());
    psbt.inputs[0].update_with_descriptor_unchecked(&desc("pkh(K1)")).unwrap();
    sign(&mut psbt, 2);
    // it is a perfectly parseable PSBT
    let mut psbt = Psbt::deserialize(&psbt.serialize()).unwrap();

    assert_eq!(psbt.unsigned_tx.input[0].previous_output.txid, real_prev.compute_txid());
    assert_ne!(
        psbt.inputs[0].non_witness_utxo.as_ref().unwrap().compute_txid(),
        psbt.unsigned_tx.input[0].previous_output.txid
    );

    let fin = psbt.finalize_mut(&secp);
    let ext = psbt.extract(&secp);
    println!("finalize_mut: {:?}\nextract: {:?}", fin, ext.as_ref().map(|t| t.compute_txid()));

    if let Ok(tx) = &ext {
        // Script evaluation against the referenced output (P2PKH of K0):
        // <sig> <pubkey> DUP HASH160 <h> EQUALVERIFY CHECKSIG needs HASH160(pubkey) == h.
        let pushed_key = tx.input[0]
            .script_sig
            .instructions()
            .filter_map(|i| match i {
                Ok(Instruction::PushBytes(b)) => Some(b.as_bytes().to_vec()),
                _ => None,
            })
            .last()
            .unwrap();
        let referenced_spk = &real_prev.output[0].script_pubkey;
        assert_eq!(
            &hash160::Hash::hash(&pushed_key).to_byte_array()[..],
            &referenced_spk.as_bytes()[3..23],
            "extract() returned a transaction whose input 0 fails OP_EQUALVERIFY against the \
             output it references"
        );
    }
    assert!(
        fin.is_err() && ext.is_err(),
        "finalize/extract must fail: the UTXO record is not the output referenced by the unsigned \
         transaction (txid mismatch)"
    );
}

/// (b) `witness_utxo` contradicts the (correct, txid-matching) `non_witness_utxo`.
#[test]
fn finalize_does_not_trust_witness_utxo_over_the_full_previous_transaction() {
    let secp = Secp256k1::new();
    let d = desc("wpkh(K0)");
    let real_prev = paying_to(d.script_pubkey(), 100_000, 0);
    let mut psbt = spending(&real_prev);
    psbt.inputs[0].non_witness_utxo = Some(real_prev.clone());
    psbt.inputs[0].witness_utxo = Some(real_prev.output[0].clone());
    psbt.update_input_with_descriptor(0, &d).unwrap();
    // somebody on the way rewrites the amount (the classic way to make signers mis-state fees)
    psbt.inputs[0].witness_utxo.as_mut().unwrap().value = Amount::from_sat(1_000);
    sign(&mut psbt, 1);
    let mut psbt = Psbt::deserialize(&psbt.serialize()).unwrap();

    let fin = psbt.finalize_mut(&secp);
    let ext = psbt.extract(&secp);
    println!("finalize_mut: {:?}\nextract: {:?}", fin, ext.as_ref().map(|t| t.compute_txid()));

    if let Ok(tx) = &ext {
        // BIP 143: the signature hash commits to the amount of the output being spent, i.e. of
        // output 0 of the transaction whose txid is in the outpoint: 100_000 sat.
        let sig = ecdsa::Signature::from_slice(tx.input[0].witness.nth(0).unwrap()).unwrap();
        let mut cache = SighashCache::new(tx);
        let h = cache
            .p2wpkh_signature_hash(0, &d.script_pubkey(), Amount::from_sat(100_000), sig.sighash_type)
            .unwrap();
        let ok = secp
            .verify_ecdsa(&Message::from_digest(h.to_byte_array()), &sig.signature, &key(1).1.inner)
            .is_ok();
        assert!(
            ok,
            "extract() returned a transaction whose signature does not verify for the amount of \
             the referenced output (BIP 143)"
        );
    }
    assert!(fin.is_err() && ext.is_err(), "inconsistent UTXO records must not finalize");
}

/// Control: consistent records finalize, extract and verify.
#[test]
fn control_consistent_utxo_records() {
    let secp = Secp256k1::new();
    for t in ["pkh(K0)", "wpkh(K0)"] {
        let d = desc(t);
        let real_prev = paying_to(d.script_pubkey(), 100_000, 0);
        let mut psbt = spending(&real_prev);
        psbt.inputs[0].non_witness_utxo = Some(real_prev.clone());
        if t.starts_with('w') {
            psbt.inputs[0].witness_utxo = Some(real_prev.output[0].clone());
        }
        psbt.update_input_with_descriptor(0, &d).unwrap();
        sign(&mut psbt, 1);
        psbt.finalize_mut(&secp).unwrap();
        psbt.extract(&secp).unwrap();
    }
}
