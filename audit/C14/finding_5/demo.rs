// C14 audit, finding 5
//
// Finalizing a legacy P2SH input PANICS when a partial signature serializes to 73 bytes (72-byte DER + sighash byte).
//
// `witness_to_scriptsig` (src/util.rs) asserts `wit.len() < 73` ("All pushes in miniscript are < 73
// bytes") for every scriptSig element except the last.  That is off by one: a strict-DER ECDSA
// signature is up to 72 bytes (33-byte r and 33-byte s), 73 with the sighash byte - the very size
// the library itself budgets for a signature (`Placeholder::EcdsaSigPk => 73` in the same file).
// libsecp signers emit low-S (<= 72 bytes with sighash byte), but a PSBT is a multi-party format:
// any co-signer can put a high-S signature into PSBT_IN_PARTIAL_SIG (rust-bitcoin parses it, BIP 66
// / consensus accept it, only policy's LOW_S objects) and thereby aborts the finalizer of everybody
// who receives the PSBT.  `finalize_mut`, `finalize_inp_mut`, the `*_mall` variants and
// `Plan::satisfy` are affected; segwit inputs are not (no scriptSig conversion): they fail cleanly.
//
// Run: cp audit/finding_5/demo.rs tests/audit_5.rs && cargo test --offline --test audit_5

use std::panic::{catch_unwind, AssertUnwindSafe};
use std::str::FromStr;

use miniscript::bitcoin::hashes::Hash;
use miniscript::bitcoin::psbt::Psbt;
use miniscript::bitcoin::secp256k1::{self, Secp256k1, SecretKey};
use miniscript::bitcoin::sighash::{EcdsaSighashType, SighashCache};
use miniscript::bitcoin::{
    absolute, ecdsa, transaction, Amount, OutPoint, PublicKey, ScriptBuf, Sequence, Transaction,
    TxIn, TxOut, Txid, Witness,
};
use miniscript::psbt::PsbtExt;
use miniscript::{DefiniteDescriptorKey, Descriptor};

fn key(n: u8) -> (SecretKey, PublicKey) {
    let secp = Secp256k1::new();
    let mut b = [0x11u8; 32];
    b[31] = n;
    let sk = SecretKey::from_slice(&b).unwrap();
    (sk, PublicKey::new(secp256k1::PublicKey::from_secret_key(&secp, &sk)))
}

fn desc(template: &str) -> Descriptor<DefiniteDescriptorKey> {
    let s = template
        .replace("K0", &key(1).1.to_string())
        .replace("K1", &key(2).1.to_string());
    Descriptor::from_str(&s).unwrap()
}

/// A PSBT spending `d`, signed by K0 (honest, low-S) and by K1, whose signature is put into the
/// PSBT in its high-S form and is 73 bytes long.
fn psbt_with_73_byte_signature(d: &Descriptor<DefiniteDescriptorKey>) -> Psbt {
    let secp = Secp256k1::new();
    let segwit = d.desc_type().segwit_version().is_some();
    let funding = Transaction {
        version: transaction::Version::TWO,
        lock_time: absolute::LockTime::ZERO,
        input: vec![TxIn {
            previous_output: OutPoint { txid: Txid::all_zeros(), vout: 0 },
            script_sig: ScriptBuf::new(),
            sequence: Sequence::MAX,
            witness: Witness::new(),
        }],
        output: vec![TxOut { value: Amount::from_sat(100_000), script_pubkey: d.script_pubkey() }],
    };
    // vary the payment amount until K1's (deterministic) signature has a 33-byte r
    for amount in 50_000u64.. {
        let tx = Transaction {
            version: transaction::Version::TWO,
            lock_time: absolute::LockTime::ZERO,
            input: vec![TxIn {
                previous_output: OutPoint { txid: funding.compute_txid(), vout: 0 },
                script_sig: ScriptBuf::new(),
                sequence: Sequence::ENABLE_RBF_NO_LOCKTIME,
                witness: Witness::new(),
            }],
            output: vec![TxOut {
                value: Amount::from_sat(amount),
                script_pubkey: ScriptBuf::from_hex("0014000102030405060708090a0b0c0d0e0f10111213")
                    .unwrap(),
            }],
        };
        let mut psbt = Psbt::from_unsigned_tx(tx.clone()).unwrap();
        psbt.inputs[0].non_witness_utxo = Some(funding.clone());
        if segwit {
            psbt.inputs[0].witness_utxo = Some(funding.output[0].clone());
        }
        psbt.update_input_with_descriptor(0, d).unwrap();
        let mut cache = SighashCache::new(&tx);
        let msg = psbt.sighash_msg(0, &mut cache, None).unwrap().to_secp_msg();

        let low_s = secp.sign_ecdsa(&msg, &key(2).0);
        let compact = low_s.serialize_compact();
        if compact[0] < 0x80 {
            continue; // r would be 32 bytes in DER
        }
        // s -> n - s: the same signature in its high-S form (valid ECDSA, valid strict DER)
        let mut s = [0u8; 32];
        s.copy_from_slice(&compact[32..]);
        let neg = SecretKey::from_slice(&s).unwrap().negate().secret_bytes();
        let mut high = compact;
        high[32..].copy_from_slice(&neg);
        let high_s = secp256k1::ecdsa::Signature::from_compact(&high).unwrap();
        let hostile = ecdsa::Signature { signature: high_s, sighash_type: EcdsaSighashType::All };
        assert_eq!(hostile.to_vec().len(), 73);
        // mathematically / by consensus still a valid signature for this message and key
        let mut normalized = high_s;
        normalized.normalize_s();
        assert!(secp.verify_ecdsa(&msg, &normalized, &key(2).1.inner).is_ok());

        let honest = ecdsa::Signature {
            signature: secp.sign_ecdsa(&msg, &key(1).0),
            sighash_type: EcdsaSighashType::All,
        };
        psbt.inputs[0].partial_sigs.insert(key(1).1, honest);
        psbt.inputs[0].partial_sigs.insert(key(2).1, hostile);
        // goes over the wire like any other PSBT
        return Psbt::deserialize(&psbt.serialize()).unwrap();
    }
    unreachable!()
}

fn finalize_must_not_panic(template: &str) -> Result<(), String> {
    let secp = Secp256k1::new();
    let d = desc(template);
    let mut psbt = psbt_with_73_byte_signature(&d);
    let before = psbt.clone();
    match catch_unwind(AssertUnwindSafe(|| psbt.finalize_inp_mut(&secp, 0))) {
        Err(_) => Err(format!("{template}: finalize_inp_mut panicked")),
        Ok(Err(e)) => {
            println!("{template}: finalize failed cleanly: {e}");
            assert_eq!(psbt, before, "a failing finalize must leave the input untouched");
            Ok(())
        }
        Ok(Ok(())) => {
            println!("{template}: finalized");
            psbt.extract(&secp).map(|_| ()).map_err(|e| format!("{template}: extract {e}"))
        }
    }
}

/// Property: a finalize call either succeeds with a valid spend or fails and leaves the input
/// untouched - whatever (well-formed) signatures the other parties added.
#[test]
fn legacy_inputs_with_a_73_byte_partial_signature() {
    let mut failures = vec![];
    for t in [
        "sh(multi(2,K0,K1))",
        "sh(and_v(v:pk(K0),pk(K1)))",
        "multi(2,K0,K1)",         // bare, K1's signature is the last element: no assertion
        "pkh(K1)",                // Pkh builds its scriptSig without witness_to_scriptsig
    ] {
        if let Err(e) = finalize_must_not_panic(t) {
            failures.push(e);
        }
    }
    assert!(
        failures.is_empty(),
        "expected Ok or a clean Err with the PSBT untouched:\n{}",
        failures.join("\n")
    );
}

/// Control: the same signature on segwit inputs is rejected with an error, no panic.
#[test]
fn control_segwit_inputs_fail_cleanly() {
    for t in ["wsh(multi(2,K0,K1))", "sh(wsh(multi(2,K0,K1)))", "wpkh(K1)"] {
        finalize_must_not_panic(t).unwrap();
    }
}
