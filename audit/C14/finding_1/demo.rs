// C14 audit, finding 1
//
// `Plan::update_psbt_input` (src/plan.rs) records a Taproot script-path key in
// PSBT_IN_TAP_BIP32_DERIVATION with an EMPTY leaf-hash list on the first call; the leaf hash is
// only added when the function is called a second time on the same input.
//
//  * BIP 371: "<hashes len> <leaf hash>* <fingerprint> <path> ... The leaf hashes are of the
//    leaves which involve this public key."  The planned key is part of the planned leaf (the leaf
//    script recorded in `tap_scripts` by the very same call contains it), so the recorded data is
//    not consistent with the descriptor's output.
//  * A BIP 371 signer selects the leaves to sign from exactly this list (rust-bitcoin's
//    `Psbt::sign`, used below, hardware signers): nothing is signed, the plan cannot be finalized.
//  * the update is not idempotent: the second call changes the input.
//
// Run: cp audit/finding_1/demo.rs tests/audit_1.rs && cargo test --offline --test audit_1

use std::str::FromStr;

use miniscript::bitcoin::bip32::{DerivationPath, Xpriv, Xpub};
use miniscript::bitcoin::hashes::Hash;
use miniscript::bitcoin::key::XOnlyPublicKey;
use miniscript::bitcoin::psbt::{Input, Psbt};
use miniscript::bitcoin::secp256k1::Secp256k1;
use miniscript::bitcoin::taproot::TapLeafHash;
use miniscript::bitcoin::{
    absolute, transaction, Amount, Network, OutPoint, ScriptBuf, Sequence, Transaction, TxIn,
    TxOut, Txid, Witness,
};
use miniscript::plan::Assets;
use miniscript::psbt::{PsbtExt, PsbtInputExt};
use miniscript::{DefiniteDescriptorKey, Descriptor, DescriptorPublicKey};

struct Setup {
    desc: Descriptor<DefiniteDescriptorKey>,
    /// the cosigner that can only use the script path `pk(B/0/1)`
    cosigner_master: Xpriv,
    cosigner_key: DescriptorPublicKey,
    cosigner_xonly: XOnlyPublicKey,
    internal_master: Xpriv,
    internal_key: DescriptorPublicKey,
}

fn setup() -> Setup {
    let secp = Secp256k1::new();
    let mk = |seed: u8| {
        let master = Xpriv::new_master(Network::Bitcoin, &[seed; 32]).unwrap();
        let path = DerivationPath::from_str("m/86'/0'/0'").unwrap();
        let acct = Xpub::from_priv(&secp, &master.derive_priv(&secp, &path).unwrap());
        (master, format!("[{}/86'/0'/0']{}", master.fingerprint(&secp), acct))
    };
    let (a_master, a) = mk(1);
    let (b_master, b) = mk(2);
    let (_c_master, c) = mk(3);
    // tr(A, {pk(B), pk(C)})
    let s = format!("tr({a}/0/1,{{pk({b}/0/1),pk({c}/0/1)}})");
    let desc = Descriptor::<DefiniteDescriptorKey>::from_str(&s).unwrap();
    let cosigner_key = DescriptorPublicKey::from_str(&format!("{b}/0/1")).unwrap();
    let internal_key = DescriptorPublicKey::from_str(&format!("{a}/0/1")).unwrap();
    let cosigner_xonly = {
        let p = DerivationPath::from_str("m/86'/0'/0'/0/1").unwrap();
        let sk = b_master.derive_priv(&secp, &p).unwrap();
        XOnlyPublicKey::from(Xpub::from_priv(&secp, &sk).public_key)
    };
    Setup {
        desc,
        cosigner_master: b_master,
        cosigner_key,
        cosigner_xonly,
        internal_master: a_master,
        internal_key,
    }
}

fn psbt_spending(desc: &Descriptor<DefiniteDescriptorKey>) -> Psbt {
    let funding = Transaction {
        version: transaction::Version::TWO,
        lock_time: absolute::LockTime::ZERO,
        input: vec![TxIn {
            previous_output: OutPoint { txid: Txid::all_zeros(), vout: 0 },
            script_sig: ScriptBuf::new(),
            sequence: Sequence::MAX,
            witness: Witness::new(),
        }],
        output: vec![TxOut {
            value: Amount::from_sat(100_000),
            script_pubkey: desc.script_pubkey(),
        }],
    };
    let tx = Transaction {
        version: transaction::Version::TWO,
        lock_time: absolute::LockTime::ZERO,
        input: vec![TxIn {
            previous_output: OutPoint { txid: funding.compute_txid(), vout: 0 },
            script_sig: ScriptBuf::new(),
            sequence: Sequence::ENABLE_RBF_NO_LOCKTIME,
            witness: Witness::new(),
        }],
        output: vec![TxOut {
            value: Amount::from_sat(90_000),
            script_pubkey: ScriptBuf::from_hex("0014000102030405060708090a0b0c0d0e0f10111213")
                .unwrap(),
        }],
    };
    let mut psbt = Psbt::from_unsigned_tx(tx).unwrap();
    psbt.inputs[0].witness_utxo = Some(funding.output[0].clone());
    psbt.inputs[0].non_witness_utxo = Some(funding);
    psbt
}

/// The leaf hashes of all leaf scripts recorded in the input that contain `key` (computed from the
/// raw scripts only: a `pk(K)` leaf is `<32-byte K> OP_CHECKSIG`).
fn leaves_involving(input: &Input, key: &XOnlyPublicKey) -> Vec<TapLeafHash> {
    let mut v: Vec<_> = input
        .tap_scripts
        .values()
        .filter(|(script, _)| script.as_bytes().windows(32).any(|w| w == &key.serialize()[..]))
        .map(|(script, ver)| TapLeafHash::from_script(script, *ver))
        .collect();
    v.sort();
    v.dedup();
    v
}

/// Property: "updating a PSBT from a descriptor records ... key origins and Taproot data
/// consistent with the descriptor's output" - the key of the planned leaf must be listed with the
/// hash of that leaf (BIP 371).
#[test]
fn plan_update_records_leaf_hash_of_the_planned_leaf() {
    let s = setup();
    let plan = s
        .desc
        .clone()
        .into_plan(&Assets::new().add(s.cosigner_key.clone()))
        .expect("script path through pk(B) is available");

    let mut input = Input::default();
    plan.update_psbt_input(&mut input);

    assert_eq!(input.tap_scripts.len(), 1, "the planned leaf script is recorded");
    let expected = leaves_involving(&input, &s.cosigner_xonly);
    assert_eq!(expected.len(), 1, "the recorded leaf script contains the cosigner key");

    let (leaf_hashes, _source) = input
        .tap_key_origins
        .get(&s.cosigner_xonly)
        .expect("origin of the planned key is recorded");
    assert_eq!(
        leaf_hashes, &expected,
        "BIP 371: PSBT_IN_TAP_BIP32_DERIVATION must list the leaves that involve the key; \
         the leaf recorded in tap_scripts by the same call involves it"
    );
}

/// Property: updating is idempotent - repeating the same update must not change the PSBT.
#[test]
fn plan_update_is_idempotent() {
    let s = setup();
    let plan = s
        .desc
        .clone()
        .into_plan(&Assets::new().add(s.cosigner_key.clone()))
        .unwrap();
    let mut input = Input::default();
    plan.update_psbt_input(&mut input);
    let once = input.clone();
    plan.update_psbt_input(&mut input);
    assert_eq!(once, input, "a second identical update changed the input");
}

/// End to end: update from the plan, sign with a BIP 371 signer (rust-bitcoin `Psbt::sign`, which
/// signs for the leaves listed in PSBT_IN_TAP_BIP32_DERIVATION), finalize, extract.
#[test]
fn plan_updated_input_can_be_signed_by_a_bip371_signer_and_finalized() {
    let secp = Secp256k1::new();
    let s = setup();
    let plan = s
        .desc
        .clone()
        .into_plan(&Assets::new().add(s.cosigner_key.clone()))
        .unwrap();

    let mut psbt = psbt_spending(&s.desc);
    plan.update_psbt_input(&mut psbt.inputs[0]);
    let _ = psbt.sign(&s.cosigner_master, &secp);

    assert_eq!(
        psbt.inputs[0].tap_script_sigs.len(),
        1,
        "the cosigner owns the key of the planned leaf and must have signed it"
    );
    psbt.finalize_mut(&secp).expect("the plan is completely signed");
    psbt.extract(&secp).expect("valid spend");
}

/// Control 1: the same flow works when the input is updated through the descriptor updater
/// (`update_input_with_descriptor`), i.e. signer, keys and finalizer are fine.
#[test]
fn control_descriptor_updater() {
    let secp = Secp256k1::new();
    let s = setup();
    let mut psbt = psbt_spending(&s.desc);
    psbt.update_input_with_descriptor(0, &s.desc).unwrap();
    let (lh, _) = psbt.inputs[0].tap_key_origins.get(&s.cosigner_xonly).unwrap();
    assert_eq!(lh, &leaves_involving(&psbt.inputs[0], &s.cosigner_xonly));
    let _ = psbt.sign(&s.cosigner_master, &secp);
    assert_eq!(psbt.inputs[0].tap_script_sigs.len(), 1);
    psbt.finalize_mut(&secp).unwrap();
    psbt.extract(&secp).unwrap();
}

/// Control 2: a key-path plan is recorded correctly (internal key, no leaf hashes) and works.
#[test]
fn control_key_path_plan() {
    let secp = Secp256k1::new();
    let s = setup();
    let plan = s
        .desc
        .clone()
        .into_plan(&Assets::new().add(s.internal_key.clone()))
        .unwrap();
    let mut psbt = psbt_spending(&s.desc);
    plan.update_psbt_input(&mut psbt.inputs[0]);
    let once = psbt.inputs[0].clone();
    plan.update_psbt_input(&mut psbt.inputs[0]);
    assert_eq!(once, psbt.inputs[0]);
    let _ = psbt.sign(&s.internal_master, &secp);
    assert!(psbt.inputs[0].tap_key_sig.is_some());
    psbt.finalize_mut(&secp).unwrap();
    psbt.extract(&secp).unwrap();
    // silence unused warning of the helper trait
    let _ = Input::default().update_with_descriptor_unchecked(&s.desc);
}
