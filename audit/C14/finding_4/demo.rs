// C14 audit, finding 4
//
// Finalizing a Taproot script-path input whose leaf contains `pkh(K)` PANICS (instead of producing
// the valid witness or returning an error) when K's signature is present in
// PSBT_IN_TAP_SCRIPT_SIG but K is not listed in any PSBT_IN_TAP_BIP32_DERIVATION.
//
// BIP 371 does not oblige an updater to add key origins (Bitcoin Core: `bip32derivs=false`; keys
// without known origin).  The finalizer decodes the leaf to `expr_raw_pkh(<hash>)`; the satisfier
// *plans* the satisfaction from `lookup_raw_pkh_tap_leaf_script_sig` (finds key + signature in
// `tap_script_sigs`), but `Placeholder::PubkeyHash::satisfy_self` (src/miniscript/satisfy/mod.rs)
// then fetches the key with the ECDSA-only lookups `lookup_raw_pkh_pk` / `lookup_raw_pkh_ecdsa_sig`
// (bip32_derivation / partial_sigs - empty for a Taproot input), gets `None`, and
// `Satisfaction::satisfy` hits `.expect("the same satisfier should manage to complete the
// template")`.
//
// Run: cp audit/finding_4/demo.rs tests/audit_4.rs && cargo test --offline --test audit_4

use std::panic::{catch_unwind, AssertUnwindSafe};
use std::str::FromStr;

use miniscript::bitcoin::hashes::Hash;
use miniscript::bitcoin::key::{Keypair, XOnlyPublicKey};
use miniscript::bitcoin::psbt::Psbt;
use miniscript::bitcoin::secp256k1::{self, Secp256k1, SecretKey};
use miniscript::bitcoin::sighash::{SighashCache, TapSighashType};
use miniscript::bitcoin::taproot::TapLeafHash;
use miniscript::bitcoin::{
    absolute, taproot, transaction, Amount, OutPoint, PublicKey, ScriptBuf, Sequence, Transaction,
    TxIn, TxOut, Txid, Witness,
};
use miniscript::psbt::PsbtExt;
use miniscript::{DefiniteDescriptorKey, Descriptor};

fn key(n: u8) -> (SecretKey, PublicKey) {
    let secp = Secp256k1::new();
    let mut b = [0x11u8; 32];
    b[31] = n;
    let sk = SecretKey::from_slice(&b).unwrap();
    (sk, PublicKey::new(secp256k1::PublicKey::from_secret_key(&secp, &sk)))
}

fn desc(template: &str) -> Descriptor<DefiniteDescriptorKey> {
    let s = template
        .replace("K0", &key(1).1.to_string())
        .replace("K1", &key(2).1.to_string())
        .replace("K2", &key(3).1.to_string());
    Descriptor::from_str(&s).unwrap()
}

fn signed_psbt(d: &Descriptor<DefiniteDescriptorKey>, signers: &[u8]) -> Psbt {
    let secp = Secp256k1::new();
    let funding = Transaction {
        version: transaction::Version::TWO,
        lock_time: absolute::LockTime::ZERO,
        input: vec![TxIn {
            previous_output: OutPoint { txid: Txid::all_zeros(), vout: 0 },
            script_sig: ScriptBuf::new(),
            sequence: Sequence::MAX,
            witness: Witness::new(),
        }],
        output: vec![TxOut { value: Amount::from_sat(100_000), script_pubkey: d.script_pubkey() }],
    };
    let tx = Transaction {
        version: transaction::Version::TWO,
        lock_time: absolute::LockTime::ZERO,
        input: vec![TxIn {
            previous_output: OutPoint { txid: funding.compute_txid(), vout: 0 },
            script_sig: ScriptBuf::new(),
            sequence: Sequence::ENABLE_RBF_NO_LOCKTIME,
            witness: Witness::new(),
        }],
        output: vec![TxOut {
            value: Amount::from_sat(90_000),
            script_pubkey: ScriptBuf::from_hex("0014000102030405060708090a0b0c0d0e0f10111213")
                .unwrap(),
        }],
    };
    let mut psbt = Psbt::from_unsigned_tx(tx.clone()).unwrap();
    psbt.inputs[0].witness_utxo = Some(funding.output[0].clone());
    psbt.inputs[0].non_witness_utxo = Some(funding);
    psbt.update_input_with_descriptor(0, d).unwrap();

    let mut cache = SighashCache::new(&tx);
    let leaves: Vec<TapLeafHash> = psbt.inputs[0]
        .tap_scripts
        .values()
        .map(|(s, v)| TapLeafHash::from_script(s, *v))
        .collect();
    for n in signers {
        let (sk, pk) = key(*n);
        let kp = Keypair::from_secret_key(&secp, &sk);
        for lh in &leaves {
            let msg = psbt.sighash_msg(0, &mut cache, Some(*lh)).unwrap().to_secp_msg();
            let signature = secp.sign_schnorr_no_aux_rand(&msg, &kp);
            psbt.inputs[0].tap_script_sigs.insert(
                (XOnlyPublicKey::from(pk.inner), *lh),
                taproot::Signature { signature, sighash_type: TapSighashType::Default },
            );
        }
    }
    psbt
}

/// Property: a finalize call either succeeds with a valid spend or fails and leaves the input
/// untouched ("including repeated and failing finalize calls") - it must not abort the caller.
#[test]
fn finalize_tr_pkh_leaf_without_key_origins() {
    let secp = Secp256k1::new();
    let d = desc("tr(K0,and_v(v:pkh(K1),pk(K2)))");
    // K1 and K2 signed the leaf: everything the witness `<sig K2> <sig K1> <K1> <script> <cb>` needs
    let mut psbt = signed_psbt(&d, &[2, 3]);
    // the updater did not publish key origins (optional in BIP 371)
    psbt.inputs[0].tap_key_origins.clear();
    let mut psbt = Psbt::deserialize(&psbt.serialize()).unwrap();
    let before = psbt.clone();

    let res = catch_unwind(AssertUnwindSafe(|| psbt.finalize_inp_mut(&secp, 0)));
    match res {
        Err(_) => panic!(
            "finalize_inp_mut panicked (\"the same satisfier should manage to complete the \
             template\") - expected Ok with a valid witness, or Err with the input untouched"
        ),
        Ok(Err(e)) => {
            println!("finalize failed cleanly: {e}");
            assert_eq!(psbt, before, "a failing finalize must leave the input untouched");
        }
        Ok(Ok(())) => {
            let tx = psbt.extract(&secp).expect("valid spend");
            let w = &tx.input[0].witness;
            assert_eq!(w.len(), 5);
            assert_eq!(w.nth(2).unwrap(), &XOnlyPublicKey::from(key(2).1.inner).serialize()[..]);
        }
    }
}

/// Control: with the key origins in place the very same input finalizes and extracts.
#[test]
fn control_with_key_origins() {
    let secp = Secp256k1::new();
    let d = desc("tr(K0,and_v(v:pkh(K1),pk(K2)))");
    let mut psbt = signed_psbt(&d, &[2, 3]);
    psbt.finalize_inp_mut(&secp, 0).unwrap();
    let tx = psbt.extract(&secp).unwrap();
    assert_eq!(tx.input[0].witness.len(), 5);
}

/// Control: the segwit v0 analogue (no key origins, `pkh` key only known from `partial_sigs`) is
/// handled: `satisfy_self` falls back to `lookup_raw_pkh_ecdsa_sig`.  Only the x-only flavour of
/// that fallback is missing.
#[test]
fn control_wsh_analogue_has_the_fallback() {
    use miniscript::bitcoin::ecdsa;
    use miniscript::bitcoin::sighash::EcdsaSighashType;
    let secp = Secp256k1::new();
    let d = desc("wsh(and_v(v:pkh(K1),pk(K2)))");
    let funding_spk = d.script_pubkey();
    let funding = Transaction {
        version: transaction::Version::TWO,
        lock_time: absolute::LockTime::ZERO,
        input: vec![TxIn::default()],
        output: vec![TxOut { value: Amount::from_sat(100_000), script_pubkey: funding_spk }],
    };
    let tx = Transaction {
        version: transaction::Version::TWO,
        lock_time: absolute::LockTime::ZERO,
        input: vec![TxIn {
            previous_output: OutPoint { txid: funding.compute_txid(), vout: 0 },
            ..Default::default()
        }],
        output: vec![TxOut { value: Amount::from_sat(90_000), script_pubkey: ScriptBuf::new() }],
    };
    let mut psbt = Psbt::from_unsigned_tx(tx.clone()).unwrap();
    psbt.inputs[0].witness_utxo = Some(funding.output[0].clone());
    psbt.update_input_with_descriptor(0, &d).unwrap();
    psbt.inputs[0].bip32_derivation.clear();
    let mut cache = SighashCache::new(&tx);
    for n in [2u8, 3] {
        let (sk, pk) = key(n);
        let msg = psbt.sighash_msg(0, &mut cache, None).unwrap().to_secp_msg();
        let signature = secp.sign_ecdsa(&msg, &sk);
        psbt.inputs[0]
            .partial_sigs
            .insert(pk, ecdsa::Signature { signature, sighash_type: EcdsaSighashType::All });
    }
    psbt.finalize_inp_mut(&secp, 0).unwrap();
    psbt.extract(&secp).unwrap();
}
