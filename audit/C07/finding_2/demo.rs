//! C07 audit, finding 2: a `sh()` descriptor whose redeemScript is larger than 520 bytes is
//! unspendable by consensus (BIP16 pushes the redeemScript as one stack element, and script
//! elements are limited to MAX_SCRIPT_ELEMENT_SIZE = 520 bytes), yet `lift()` reports a
//! satisfiable policy for it when the script contains uncompressed keys: the size bookkeeping
//! used by the resource-limit check (`ExtData::pk_cost`) counts an uncompressed key push as
//! 65 bytes instead of 66.
//!
//! Script side of the comparison: only byte counting and hashing, nothing from the library's
//! satisfier or interpreter.

use std::collections::HashMap;
use std::str::FromStr;
use std::sync::Arc;

use bitcoin::hashes::{hash160, Hash};
use bitcoin::script::Instruction;
use bitcoin::secp256k1::{Secp256k1, SecretKey};
use bitcoin::{relative, PublicKey, ScriptBuf, Sequence};
use miniscript::bitcoin;
use miniscript::policy::semantic::Policy;
use miniscript::policy::Liftable;
use miniscript::{Descriptor, Legacy, Miniscript, RelLockTime, Terminal, Translator};

const MAX_SCRIPT_ELEMENT_SIZE: usize = 520; // consensus, script/script.h

type Ms = Miniscript<PublicKey, Legacy>;

fn key(seed: u8, compressed: bool) -> PublicKey {
    let sk = SecretKey::from_slice(&[seed; 32]).unwrap();
    PublicKey { compressed, inner: sk.public_key(&Secp256k1::new()) }
}

/// World: every key of the descriptor can sign, nSequence is given, no preimages needed.
fn eval(p: &Policy<PublicKey>, sequence: Sequence) -> bool {
    match p {
        Policy::Unsatisfiable => false,
        Policy::Trivial => true,
        Policy::Key(_) => true,
        Policy::Older(t) => match sequence.to_relative_lock_time() {
            Some(have) => relative::LockTime::from(*t).is_implied_by(have),
            None => false,
        },
        Policy::Thresh(t) => t.iter().filter(|sub| eval(sub, sequence)).count() >= t.k(),
        _ => false,
    }
}

/// Can *any* scriptSig make a P2SH output with this redeemScript succeed, as far as the
/// redeemScript push is concerned?
///
/// BIP16: the scriptSig must end with a push of the serialized redeemScript whose HASH160 is in
/// the scriptPubKey. Bitcoin Core's `EvalScript` fails with SCRIPT_ERR_PUSH_SIZE on every push
/// of more than 520 bytes, so no scriptSig can put a larger redeemScript on the stack.
fn p2sh_redeem_script_is_pushable(desc: &Descriptor<PublicKey>, redeem: &ScriptBuf) -> bool {
    // the descriptor really pays to this redeemScript
    let spk = desc.script_pubkey();
    let mut expected = vec![0xa9, 0x14];
    expected.extend(hash160::Hash::hash(redeem.as_bytes()).to_byte_array());
    expected.push(0x87);
    assert_eq!(spk.as_bytes(), &expected[..], "OP_HASH160 <hash160(redeemScript)> OP_EQUAL");
    // a scriptSig `<anything...> <redeemScript>`
    let script_sig = bitcoin::script::Builder::new()
        .push_slice(<&bitcoin::script::PushBytes>::try_from(redeem.as_bytes()).unwrap())
        .into_script();
    script_sig.instructions().all(|ins| match ins {
        Ok(Instruction::PushBytes(b)) => b.len() <= MAX_SCRIPT_ELEMENT_SIZE,
        Ok(_) => true,
        Err(_) => false,
    })
}

fn check(desc: &Descriptor<PublicKey>, how: &str) {
    let Ok(policy) = desc.lift() else { return }; // refusing to lift is fine
    let redeem = desc.explicit_script().unwrap();
    // the most favourable world: all keys sign, the relative lock has long expired
    let sequence = Sequence::from_height(1000);
    let by_policy = eval(&policy, sequence);
    let by_script = p2sh_redeem_script_is_pushable(desc, &redeem);
    assert!(
        !by_policy || by_script,
        "C07 ({}): the P2SH descriptor with scriptPubKey {} has a redeemScript of {} bytes, more than the \
         520 bytes a script push may have, so no scriptSig can ever spend it. The lifted policy `{}` \
         evaluates to true when all keys sign: the policy invents a spending path",
        how,
        desc.script_pubkey(),
        redeem.len(),
        policy
    );
}

fn ast(t: Terminal<PublicKey, Legacy>) -> Result<Ms, miniscript::Error> { Ms::from_ast(t) }
fn v_pk(k: PublicKey) -> Result<Ms, miniscript::Error> {
    ast(Terminal::Verify(Arc::new(ast(Terminal::Check(Arc::new(ast(Terminal::PkK(k))?)))?)))
}

/// and_v(v:pk(U1),and_v(v:pk(U2),and_v(v:pk(U3),and_v(v:pk(C1),..and_v(v:pk(C8),and_v(v:older(N),pk(C9)))..))))
/// with 3 uncompressed and 9 compressed keys, node by node through `Miniscript::from_ast`.
fn build(older: u32) -> Result<Ms, miniscript::Error> {
    let last = ast(Terminal::Check(Arc::new(ast(Terminal::PkK(key(100, true)))?)))?;
    let older = ast(Terminal::Older(RelLockTime::from_consensus(older).unwrap()))?;
    let mut cur = ast(Terminal::AndV(Arc::new(ast(Terminal::Verify(Arc::new(older)))?), Arc::new(last)))?;
    for i in 0..8 {
        cur = ast(Terminal::AndV(Arc::new(v_pk(key(10 + i, true))?), Arc::new(cur)))?;
    }
    for i in 0..3 {
        cur = ast(Terminal::AndV(Arc::new(v_pk(key(50 + i, false))?), Arc::new(cur)))?;
    }
    Ok(cur)
}

/// Route 1: the documented programmatic constructor, `Miniscript::from_ast`, then
/// `Descriptor::new_sh`. `older(200)` gives a 521 byte script, `older(40000)` 522 bytes.
#[test]
fn from_ast_accepts_oversized_redeem_script_and_lift_offers_it() {
    for older in [200, 40000] {
        let Ok(ms) = build(older) else { continue }; // refusing to build is fine
        let Ok(desc) = Descriptor::new_sh(ms) else { continue };
        check(&desc, "Miniscript::from_ast + Descriptor::new_sh");
    }
}

/// Route 2: a descriptor with placeholder keys is parsed (425 bytes as far as the parser can
/// tell), then `translate_pk` maps three of the placeholders to uncompressed keys.
#[test]
fn translate_pk_to_uncompressed_keys_and_lift_offers_it() {
    let names = ["U1", "U2", "U3", "C1", "C2", "C3", "C4", "C5", "C6", "C7", "C8"];
    let mut s = String::from("and_v(v:older(200),pk(C9))");
    for name in names.iter().rev() {
        s = format!("and_v(v:pk({}),{})", name, s);
    }
    let desc = Descriptor::<String>::from_str(&format!("sh({})", s)).expect("fine with placeholder keys");

    struct T(HashMap<String, PublicKey>);
    impl Translator<String> for T {
        type TargetPk = PublicKey;
        type Error = ();
        fn pk(&mut self, pk: &String) -> Result<PublicKey, ()> { self.0.get(pk).copied().ok_or(()) }
        // (the descriptor has no hash locks)
        fn sha256(&mut self, _: &String) -> Result<bitcoin::hashes::sha256::Hash, ()> { Err(()) }
        fn hash256(&mut self, _: &String) -> Result<miniscript::hash256::Hash, ()> { Err(()) }
        fn ripemd160(&mut self, _: &String) -> Result<bitcoin::hashes::ripemd160::Hash, ()> { Err(()) }
        fn hash160(&mut self, _: &String) -> Result<bitcoin::hashes::hash160::Hash, ()> { Err(()) }
    }
    let mut map = HashMap::new();
    for (i, name) in names.iter().enumerate() {
        map.insert(name.to_string(), key(10 + i as u8, !name.starts_with('U')));
    }
    map.insert("C9".to_string(), key(100, true));
    let Ok(desc) = desc.translate_pk(&mut T(map)) else { return }; // refusing is fine
    check(&desc, "Descriptor::<String>::from_str + translate_pk");
}

/// Route 3: the descriptor given as a plain string (works for `Descriptor<DescriptorPublicKey>`
/// as well, an uncompressed key is written as its 130 hex digits).
#[test]
fn descriptor_from_str_accepts_oversized_redeem_script_and_lift_offers_it() {
    let s = format!("sh({})", build(17).unwrap()).replace("older(17)", "older(200)");
    let Ok(desc) = Descriptor::<PublicKey>::from_str(&s) else { return }; // refusing is fine
    assert_eq!(desc.explicit_script().unwrap().len(), 521);
    check(&desc, "Descriptor::<PublicKey>::from_str");

    let Ok(desc) = Descriptor::<miniscript::DescriptorPublicKey>::from_str(&s) else { return };
    let Ok(policy) = desc.lift() else { return };
    let redeem = desc.at_derivation_index(0).unwrap().explicit_script().unwrap();
    assert!(
        redeem.len() <= MAX_SCRIPT_ELEMENT_SIZE || policy.minimum_n_keys().is_none(),
        "C07 (Descriptor::<DescriptorPublicKey>::from_str): redeemScript of {} bytes can never be pushed, \
         but the lifted policy is satisfiable with {:?} keys",
        redeem.len(),
        policy.minimum_n_keys()
    );
}

/// Controls: one byte less (older(17): 520 bytes) is a spendable script and lifts; the same
/// 521 byte script is refused when all the size bookkeeping is exact (compressed keys only:
/// 15 keys -> 525 bytes), and by `Miniscript::from_str*`, which measure the real script.
#[test]
fn controls() {
    let ms = build(17).unwrap();
    assert_eq!(ms.encode().len(), 520);
    let desc = Descriptor::new_sh(ms).unwrap();
    let policy = desc.lift().unwrap();
    assert!(eval(&policy, Sequence::from_height(1000)));
    assert!(p2sh_redeem_script_is_pushable(&desc, &desc.explicit_script().unwrap()));

    let mut cur = ast(Terminal::Check(Arc::new(ast(Terminal::PkK(key(100, true))).unwrap()))).unwrap();
    let mut refused = false;
    for i in 0..14 {
        match v_pk(key(10 + i, true)).and_then(|v| ast(Terminal::AndV(Arc::new(v), Arc::new(cur.clone())))) {
            Ok(next) => cur = next,
            Err(_) => refused = true,
        }
    }
    assert!(refused, "15 compressed keys (525 bytes) are refused by from_ast");

    // the same tree with older(200) instead of older(17) is one byte longer
    let s = build(17).unwrap().to_string().replace("older(17)", "older(200)");
    assert!(Ms::from_str_insane(&s).is_err(), "Miniscript::from_str_insane counts correctly");
}
