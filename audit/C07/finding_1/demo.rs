//! C07 audit, finding 1: descriptors whose top-level miniscript is not of base type `B`
//! (`K`, `V` or `W`) are accepted - by `Descriptor::from_str` for `wsh()`, `sh()`, `sh(wsh())`,
//! and by the constructors `Descriptor::new_wsh` / `new_sh` / `new_sh_wsh` / `new_tr` - and
//! `lift()` reports a policy for them that is not the spending condition of the script.
//!
//! Policy side: a tiny evaluator over the public `semantic::Policy` enum.
//! Script side: nothing from the library's satisfier/interpreter is trusted. The output script is
//! checked against the script/witness program by hashing (BIP16/BIP141) or with rust-bitcoin's
//! `ControlBlock::verify_taproot_commitment` (BIP341), and the script is run by a small
//! evaluator (pushes, DUP, HASH160, EQUAL(VERIFY), SWAP, BOOLAND, TO/FROMALTSTACK, CHECKSIG(VERIFY) with
//! real BIP143 ECDSA / BIP342 Schnorr signature checks) that ends with the success rule of
//! BIP141/BIP342: exactly one element on the stack, and it is true.

use std::collections::HashSet;
use std::str::FromStr;
use std::sync::Arc;

use bitcoin::hashes::{hash160, sha256, Hash};
use bitcoin::key::{Keypair, XOnlyPublicKey};
use bitcoin::opcodes::all::*;
use bitcoin::script::Instruction;
use bitcoin::secp256k1::{self, Secp256k1};
use bitcoin::sighash::{EcdsaSighashType, Prevouts, SighashCache, TapSighashType};
use bitcoin::taproot::{LeafVersion, TapLeafHash};
use bitcoin::{
    absolute, relative, transaction, Amount, OutPoint, PublicKey, Script, ScriptBuf, Sequence,
    Transaction, TxIn, TxOut, Txid, Witness,
};
use miniscript::bitcoin;
use miniscript::descriptor::TapTree;
use miniscript::policy::semantic::Policy;
use miniscript::policy::Liftable;
use miniscript::{Descriptor, Miniscript, MiniscriptKey, Tap, Terminal};

// ---------------------------------------------------------------- policy side

/// An asset world: the keys that can sign (no hash preimages), and the time fields of the tx.
struct World<Pk> {
    keys: HashSet<Pk>,
    lock_time: absolute::LockTime,
    sequence: Sequence,
}

fn world<Pk: MiniscriptKey>(keys: &[Pk]) -> World<Pk> {
    World {
        keys: keys.iter().cloned().collect(),
        lock_time: absolute::LockTime::ZERO,
        sequence: Sequence::MAX,
    }
}

fn eval<Pk: MiniscriptKey>(p: &Policy<Pk>, w: &World<Pk>) -> bool {
    match p {
        Policy::Unsatisfiable => false,
        Policy::Trivial => true,
        Policy::Key(k) => w.keys.contains(k),
        Policy::After(t) => {
            w.sequence != Sequence::MAX && absolute::LockTime::from(*t).is_implied_by(w.lock_time)
        }
        Policy::Older(t) => match w.sequence.to_relative_lock_time() {
            Some(have) => relative::LockTime::from(*t).is_implied_by(have),
            None => false,
        },
        Policy::Sha256(_) | Policy::Hash256(_) | Policy::Ripemd160(_) | Policy::Hash160(_) => false,
        Policy::Thresh(t) => t.iter().filter(|sub| eval(sub, w)).count() >= t.k(),
    }
}

// ---------------------------------------------------------------- script side

fn truthy(v: &[u8]) -> bool {
    // CastToBool: any non-zero byte, except that a lone sign bit in the last byte is "negative zero".
    for (i, b) in v.iter().enumerate() {
        if *b != 0 {
            return !(i == v.len() - 1 && *b == 0x80);
        }
    }
    false
}

/// Result of a signature check: `Some(valid)`, or `None` if the whole script has to fail.
type SigCheck<'a> = &'a dyn Fn(&[u8], &[u8]) -> Option<bool>;

/// Runs a witness script / tapscript on the given initial stack. Only the opcodes that occur
/// in the scripts of this demo are implemented; anything else makes the evaluation fail.
fn run_script(script: &Script, mut stack: Vec<Vec<u8>>, checksig: SigCheck) -> bool {
    let mut alt: Vec<Vec<u8>> = vec![];
    if stack.len() > 1000 || stack.iter().any(|e| e.len() > 520) {
        return false;
    }
    for ins in script.instructions() {
        let ins = match ins {
            Ok(i) => i,
            Err(_) => return false,
        };
        match ins {
            Instruction::PushBytes(b) => {
                if b.len() > 520 {
                    return false;
                }
                stack.push(b.as_bytes().to_vec())
            }
            Instruction::Op(op) => {
                if op == OP_DUP {
                    let Some(t) = stack.last().cloned() else { return false };
                    stack.push(t);
                } else if op == OP_HASH160 {
                    let Some(t) = stack.pop() else { return false };
                    stack.push(hash160::Hash::hash(&t).to_byte_array().to_vec());
                } else if op == OP_EQUAL || op == OP_EQUALVERIFY {
                    let (Some(a), Some(b)) = (stack.pop(), stack.pop()) else { return false };
                    if op == OP_EQUALVERIFY {
                        if a != b {
                            return false;
                        }
                    } else {
                        stack.push(if a == b { vec![1] } else { vec![] });
                    }
                } else if op == OP_BOOLAND {
                    let (Some(a), Some(b)) = (stack.pop(), stack.pop()) else { return false };
                    if a.len() > 4 || b.len() > 4 {
                        return false;
                    }
                    stack.push(if truthy(&a) && truthy(&b) { vec![1] } else { vec![] });
                } else if op == OP_SWAP {
                    let n = stack.len();
                    if n < 2 {
                        return false;
                    }
                    stack.swap(n - 1, n - 2);
                } else if op == OP_TOALTSTACK {
                    let Some(t) = stack.pop() else { return false };
                    alt.push(t);
                } else if op == OP_FROMALTSTACK {
                    let Some(t) = alt.pop() else { return false };
                    stack.push(t);
                } else if op == OP_CHECKSIG || op == OP_CHECKSIGVERIFY {
                    // pops the public key, then the signature
                    let (Some(pk), Some(sig)) = (stack.pop(), stack.pop()) else { return false };
                    let Some(ok) = checksig(&sig, &pk) else { return false };
                    if op == OP_CHECKSIGVERIFY {
                        if !ok {
                            return false;
                        }
                    } else {
                        stack.push(if ok { vec![1] } else { vec![] });
                    }
                } else {
                    return false;
                }
            }
        }
        if stack.len() + alt.len() > 1000 {
            return false;
        }
    }
    // BIP141 (P2WSH) and BIP342 (tapscript): exactly one element must remain, and it must be true.
    stack.len() == 1 && truthy(&stack[0])
}

fn spending_tx<Pk>(w: &World<Pk>) -> Transaction {
    Transaction {
        version: transaction::Version::TWO,
        lock_time: w.lock_time,
        input: vec![TxIn {
            previous_output: OutPoint { txid: Txid::all_zeros(), vout: 0 },
            script_sig: ScriptBuf::new(),
            sequence: w.sequence,
            witness: Witness::new(),
        }],
        output: vec![TxOut { value: Amount::from_sat(49_000), script_pubkey: ScriptBuf::new() }],
    }
}

const VALUE: Amount = Amount::from_sat(50_000);

/// All the ways to put the given signatures, in order, between up to two filler elements.
fn candidate_stacks(sigs: &[Vec<u8>]) -> Vec<Vec<Vec<u8>>> {
    let one = vec![1u8];
    let fills: [Vec<Vec<u8>>; 6] = [
        vec![],
        vec![vec![]],
        vec![one.clone()],
        vec![one.clone(), one.clone()],
        vec![vec![], one.clone()],
        vec![one.clone(), vec![]],
    ];
    let mut ret = vec![];
    for fill in fills {
        ret.push(fill.clone());
        for pos in 0..=fill.len() {
            let mut st = fill.clone();
            for (i, s) in sigs.iter().enumerate() {
                st.insert(pos + i, s.clone());
            }
            ret.push(st);
        }
    }
    ret
}

// ---- P2WSH (also nested in P2SH)

struct WshSpend {
    witness_script: ScriptBuf,
    tx: Transaction,
}

impl WshSpend {
    /// Checks that `desc` pays to exactly this witness script (BIP141, BIP16 for the nested form).
    fn new<Pk>(desc: &Descriptor<PublicKey>, w: &World<Pk>) -> Self {
        let witness_script = desc.explicit_script().unwrap();
        let program = sha256::Hash::hash(witness_script.as_bytes()).to_byte_array();
        let mut v0 = vec![0x00, 0x20];
        v0.extend(program);
        let spk = desc.script_pubkey();
        if spk.as_bytes()[0] == 0x00 {
            assert_eq!(spk.as_bytes(), &v0[..], "scriptPubKey is OP_0 <sha256(witness script)>");
        } else {
            // sh(wsh()): OP_HASH160 <hash160(OP_0 <program>)> OP_EQUAL
            let mut p2sh = vec![0xa9, 0x14];
            p2sh.extend(hash160::Hash::hash(&v0).to_byte_array());
            p2sh.push(0x87);
            assert_eq!(spk.as_bytes(), &p2sh[..]);
        }
        Self { witness_script, tx: spending_tx(w) }
    }

    fn sign(&self, kp: &Keypair) -> Vec<u8> {
        let secp = Secp256k1::new();
        let sighash = SighashCache::new(&self.tx)
            .p2wsh_signature_hash(0, &self.witness_script, VALUE, EcdsaSighashType::All)
            .unwrap();
        let msg = secp256k1::Message::from_digest(sighash.to_byte_array());
        let mut sig = secp.sign_ecdsa(&msg, &kp.secret_key()).serialize_der().to_vec();
        sig.push(EcdsaSighashType::All as u8);
        sig
    }

    /// Is the witness `stack ++ [witness script]` valid?
    fn valid(&self, stack: Vec<Vec<u8>>) -> bool {
        let secp = Secp256k1::verification_only();
        let check = |sig: &[u8], pk: &[u8]| -> Option<bool> {
            // consensus: an invalid or empty signature makes CHECKSIG push false
            let Some((ty, der)) = sig.split_last() else { return Some(false) };
            let (Ok(sig), Ok(pk)) =
                (secp256k1::ecdsa::Signature::from_der(der), secp256k1::PublicKey::from_slice(pk))
            else {
                return Some(false);
            };
            let Ok(ty) = EcdsaSighashType::from_standard(*ty as u32) else { return Some(false) };
            let sighash = SighashCache::new(&self.tx)
                .p2wsh_signature_hash(0, &self.witness_script, VALUE, ty)
                .unwrap();
            let msg = secp256k1::Message::from_digest(sighash.to_byte_array());
            Some(secp.verify_ecdsa(&msg, &sig, &pk).is_ok())
        };
        run_script(&self.witness_script, stack, &check)
    }
}

// ---- taproot script path

struct TapSpend {
    leaf_script: ScriptBuf,
    control_block: bitcoin::taproot::ControlBlock,
    leaf_hash: TapLeafHash,
    prevout: TxOut,
    tx: Transaction,
}

impl TapSpend {
    fn new<Pk>(desc: &Descriptor<XOnlyPublicKey>, w: &World<Pk>) -> Self {
        let tr = match desc {
            Descriptor::Tr(tr) => tr,
            _ => panic!("taproot only"),
        };
        let spend_info = tr.spend_info();
        let leaf = spend_info.leaves().next().expect("one leaf");
        let leaf_script = leaf.script().to_owned();
        let control_block = leaf.control_block().clone();
        let leaf_hash = TapLeafHash::from_script(&leaf_script, LeafVersion::TapScript);
        let prevout = TxOut { value: VALUE, script_pubkey: desc.script_pubkey() };
        Self { leaf_script, control_block, leaf_hash, prevout, tx: spending_tx(w) }
    }

    fn sign(&self, kp: &Keypair) -> Vec<u8> {
        let secp = Secp256k1::new();
        let prevouts = [self.prevout.clone()];
        let sighash = SighashCache::new(&self.tx)
            .taproot_script_spend_signature_hash(
                0,
                &Prevouts::All(&prevouts),
                self.leaf_hash,
                TapSighashType::Default,
            )
            .unwrap();
        let msg = secp256k1::Message::from_digest(sighash.to_byte_array());
        secp.sign_schnorr_no_aux_rand(&msg, kp).as_ref().to_vec()
    }

    /// BIP341 script path validation of the witness `stack ++ [script, control block]`.
    fn valid(&self, stack: Vec<Vec<u8>>) -> bool {
        let secp = Secp256k1::verification_only();
        // scriptPubKey is OP_1 <32 byte output key>
        let spk = self.prevout.script_pubkey.as_bytes();
        assert!(spk.len() == 34 && spk[0] == 0x51 && spk[1] == 0x20);
        let output_key = XOnlyPublicKey::from_slice(&spk[2..]).unwrap();
        // the control block commits to this very script (checked by rust-bitcoin, not by miniscript)
        if !self
            .control_block
            .verify_taproot_commitment(&secp, output_key, &self.leaf_script)
        {
            return false;
        }
        let check = |sig: &[u8], pk: &[u8]| -> Option<bool> {
            // BIP342: an empty signature is "false", any other signature has to be valid
            if pk.len() != 32 {
                return None; // (unknown key types are not used in this demo)
            }
            if sig.is_empty() {
                return Some(false);
            }
            let sig = bitcoin::taproot::Signature::from_slice(sig).ok()?;
            let pk = XOnlyPublicKey::from_slice(pk).ok()?;
            let prevouts = [self.prevout.clone()];
            let sighash = SighashCache::new(&self.tx)
                .taproot_script_spend_signature_hash(
                    0,
                    &Prevouts::All(&prevouts),
                    self.leaf_hash,
                    sig.sighash_type,
                )
                .ok()?;
            let msg = secp256k1::Message::from_digest(sighash.to_byte_array());
            secp.verify_schnorr(&sig.signature, &msg, &pk).ok()?;
            Some(true)
        };
        run_script(&self.leaf_script, stack, &check)
    }
}

fn keypair(seed: u8) -> Keypair {
    Keypair::from_seckey_slice(&Secp256k1::new(), &[seed; 32]).unwrap()
}
fn full(kp: &Keypair) -> PublicKey { PublicKey::new(kp.public_key()) }
fn xonly(kp: &Keypair) -> XOnlyPublicKey { kp.x_only_public_key().0 }

/// Parses and lifts; `None` if the library refuses either (fine for C07: no policy is shown).
fn parse_and_lift(s: &str) -> Option<(Descriptor<PublicKey>, Policy<PublicKey>)> {
    let desc = Descriptor::<PublicKey>::from_str(s).ok()?;
    let policy = desc.lift().ok()?;
    Some((desc, policy))
}

// ---------------------------------------------------------------- the violations

/// `wsh(pk_k(A))`, `sh(wsh(pk_k(A)))` given as *strings*: the witness script is just `<A>`, the
/// witness [script] leaves the key as the single, true, stack element. Anyone can spend; the
/// lifted policy is `pk(A)`.
#[test]
fn parsed_wsh_pk_k_is_anyone_can_spend_but_policy_demands_a_key() {
    let a = keypair(0x41);
    for s in [format!("wsh(pk_k({}))", full(&a)), format!("sh(wsh(pk_k({})))", full(&a))] {
        let Some((desc, policy)) = parse_and_lift(&s) else { continue };
        let w = world::<PublicKey>(&[]); // nobody can sign
        let spend = WshSpend::new(&desc, &w);
        let by_script = spend.valid(vec![]); // witness = [witness script]
        let by_policy = eval(&policy, &w);
        assert_eq!(
            by_policy, by_script,
            "C07: Descriptor::from_str(\"{}\") has witness script `{}`; with NO keys at all the witness \
             [script] spends it: {}. The lifted policy `{}` evaluates to {} in that world: the policy \
             hides a spending path",
            s, spend.witness_script, by_script, policy, by_policy
        );
    }
}

/// `wsh(and_v(v:pk(A),pk_k(B)))` (type K): `<A> CHECKSIGVERIFY <B>`. A alone spends it, the
/// lifted policy is `and(pk(A),pk(B))`.
#[test]
fn parsed_wsh_ending_in_pk_k_needs_one_key_but_policy_demands_two() {
    let (a, b) = (keypair(0x41), keypair(0x42));
    let s = format!("wsh(and_v(v:pk({}),pk_k({})))", full(&a), full(&b));
    let Some((desc, policy)) = parse_and_lift(&s) else { return };
    let w = world(&[full(&a)]); // only A can sign
    let spend = WshSpend::new(&desc, &w);
    let by_script = spend.valid(vec![spend.sign(&a)]);
    let by_policy = eval(&policy, &w);
    assert_eq!(
        by_policy, by_script,
        "C07: Descriptor::from_str(\"{}\") has witness script `{}`; the witness [sig_A, script] spends \
         it: {}. The lifted policy `{}` evaluates to {} when only A signs: the policy hides a spending path",
        s, spend.witness_script, by_script, policy, by_policy
    );
}

/// `wsh(a:pk(A))` (type W): `TOALTSTACK <A> CHECKSIG FROMALTSTACK` needs two initial elements
/// and leaves two, so "exactly one element" can never hold. Unspendable; the policy is `pk(A)`.
#[test]
fn parsed_wsh_w_type_is_unspendable_but_policy_offers_it() {
    let a = keypair(0x41);
    let s = format!("wsh(a:pk({}))", full(&a));
    let Some((desc, policy)) = parse_and_lift(&s) else { return };
    let w = world(&[full(&a)]);
    let spend = WshSpend::new(&desc, &w);
    let by_script =
        candidate_stacks(&[spend.sign(&a)]).into_iter().any(|stack| spend.valid(stack));
    let by_policy = eval(&policy, &w);
    assert_eq!(
        by_policy, by_script,
        "C07: Descriptor::from_str(\"{}\") has witness script `{}`, which cannot end with exactly one \
         stack element; with A's signature no witness spends it (found one: {}). The lifted policy `{}` \
         evaluates to {}: the policy invents a spending path",
        s, spend.witness_script, by_script, policy, by_policy
    );
}

/// The same through the taproot constructors (the `tr()` string parser does refuse these):
/// leaves `pk_k(A)` / `pk_h(A)` of type K.
#[test]
fn constructed_tr_with_k_type_leaf_is_anyone_can_spend() {
    type Ms = Miniscript<XOnlyPublicKey, Tap>;
    let (a, internal) = (keypair(0x41), keypair(0x42));
    let pk_a = xonly(&a);
    for (leaf, stack) in [
        (Ms::from_ast(Terminal::PkK(pk_a)).unwrap(), vec![]),
        // the "asset" here is the public key itself, which is printed in the descriptor
        (Ms::from_ast(Terminal::PkH(pk_a)).unwrap(), vec![pk_a.serialize().to_vec()]),
    ] {
        let Ok(desc) = Descriptor::new_tr(xonly(&internal), Some(TapTree::leaf(leaf))) else { continue };
        let Ok(policy) = desc.lift() else { continue };
        let w = world::<XOnlyPublicKey>(&[]);
        let spend = TapSpend::new(&desc, &w);
        let by_script = spend.valid(stack);
        let by_policy = eval(&policy, &w);
        assert_eq!(
            by_policy, by_script,
            "C07: {} (scriptPubKey {}) has leaf script `{}`; without any signature a witness spends it: {}. \
             The lifted policy `{}` evaluates to {}: the policy hides a spending path",
            desc, desc.script_pubkey(), spend.leaf_script, by_script, policy, by_policy
        );
    }
}

/// Taproot leaf `a:pk(A)` (type W), through the constructors: unspendable, policy `or(pk(I),pk(A))`.
#[test]
fn constructed_tr_with_w_type_leaf_is_unspendable() {
    type Ms = Miniscript<XOnlyPublicKey, Tap>;
    let (a, internal) = (keypair(0x41), keypair(0x42));
    let leaf = Ms::from_ast(Terminal::Alt(Arc::new(Ms::pk(xonly(&a))))).unwrap();
    let Ok(desc) = Descriptor::new_tr(xonly(&internal), Some(TapTree::leaf(leaf))) else { return };
    let Ok(policy) = desc.lift() else { return };
    let w = world(&[xonly(&a)]); // A can sign, the internal key cannot
    let spend = TapSpend::new(&desc, &w);
    let by_script =
        candidate_stacks(&[spend.sign(&a)]).into_iter().any(|stack| spend.valid(stack));
    let by_policy = eval(&policy, &w);
    assert_eq!(
        by_policy, by_script,
        "C07: {} has leaf script `{}` which cannot end with exactly one stack element; with A's key no \
         witness spends it (found one: {}). The lifted policy `{}` evaluates to {}: the policy invents a \
         spending path",
        desc, spend.leaf_script, by_script, policy, by_policy
    );
}

/// Controls: for well-formed (type B) descriptors the same harness agrees with the policy in
/// every world, so the failures above are not artefacts of the evaluator.
#[test]
fn controls() {
    let (a, b, internal) = (keypair(0x41), keypair(0x42), keypair(0x43));
    for s in [
        format!("wsh(pk({}))", full(&a)),
        format!("sh(wsh(and_v(v:pk({}),pk({}))))", full(&a), full(&b)),
        format!("wsh(and_b(pk({}),a:pk({})))", full(&a), full(&b)),
    ] {
        let (desc, policy) = parse_and_lift(&s).expect("well-formed");
        for mask in 0..4u8 {
            let mut kps = vec![];
            if mask & 1 != 0 {
                kps.push(&a);
            }
            if mask & 2 != 0 {
                kps.push(&b);
            }
            let w = world(&kps.iter().map(|kp| full(kp)).collect::<Vec<_>>());
            let spend = WshSpend::new(&desc, &w);
            // every ordered selection of the available signatures (and_b(pk(A),a:pk(B)) takes
            // its inputs as [sig_B, sig_A])
            let sigs: Vec<Vec<u8>> = kps.iter().map(|kp| spend.sign(kp)).collect();
            let mut selections: Vec<Vec<Vec<u8>>> = vec![vec![]];
            for s in &sigs {
                selections.push(vec![s.clone()]);
            }
            if sigs.len() == 2 {
                selections.push(vec![sigs[0].clone(), sigs[1].clone()]);
                selections.push(vec![sigs[1].clone(), sigs[0].clone()]);
            }
            let by_script = selections
                .iter()
                .any(|sel| candidate_stacks(sel).into_iter().any(|st| spend.valid(st)));
            assert_eq!(eval(&policy, &w), by_script, "control {} mask {}", s, mask);
        }
    }
    let desc = Descriptor::new_tr(
        xonly(&internal),
        Some(TapTree::leaf(Miniscript::<XOnlyPublicKey, Tap>::pk(xonly(&a)))),
    )
    .unwrap();
    let policy = desc.lift().unwrap();
    for have_a in [false, true] {
        let w = world(&if have_a { vec![xonly(&a)] } else { vec![] });
        let spend = TapSpend::new(&desc, &w);
        let sigs = if have_a { vec![spend.sign(&a)] } else { vec![] };
        let by_script = candidate_stacks(&sigs).into_iter().any(|st| spend.valid(st));
        assert_eq!(eval(&policy, &w), by_script, "control {} have_a={}", desc, have_a);
    }
    // the tr() string parser, and Miniscript::from_str, do refuse a non-B top level
    let s = format!("tr({},pk_k({}))", xonly(&internal), xonly(&a));
    assert!(Descriptor::<XOnlyPublicKey>::from_str(&s).is_err());
    let s = format!("pk_k({})", full(&a));
    assert!(Miniscript::<PublicKey, miniscript::Segwitv0>::from_str(&s).is_err());
}
