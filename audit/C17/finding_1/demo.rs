// Standalone integration test: copy to tests/audit_1.rs and run
//   CARGO_TARGET_DIR=/tmp/wt/C17/target cargo test --offline --test audit_1
#![allow(dead_code, unused_imports)]

// ---------------------------------------------------------------------------------------------
// A small, independent Bitcoin Script verifier (consensus rules of Bitcoin Core's interpreter.cpp
// for the opcodes miniscript emits): BIP16 (P2SH), BIP65 (CLTV), BIP66 (strict DER), BIP68/112
// (CSV), BIP141/143 (segwit v0, incl. CLEANSTACK for witness programs), BIP147 (NULLDUMMY),
// BIP341/342 (taproot key and script path, CHECKSIGADD, MINIMALIF).
// It does NOT use the miniscript crate at all.
// ---------------------------------------------------------------------------------------------
mod refinterp {
    use miniscript::bitcoin::hashes::{hash160, ripemd160, sha256, sha256d, Hash};
    use miniscript::bitcoin::opcodes::all::*;
    use miniscript::bitcoin::script::Instruction;
    use miniscript::bitcoin::sighash::{Prevouts, SighashCache, TapSighashType};
    use miniscript::bitcoin::taproot::{ControlBlock, LeafVersion, TapLeafHash};
    use miniscript::bitcoin::{
        secp256k1, Script, ScriptBuf, Transaction, TxOut, XOnlyPublicKey,
    };

    #[derive(Clone, Copy, PartialEq, Eq, Debug)]
    pub enum SigVersion {
        Base,
        WitnessV0,
        Tapscript,
    }

    pub struct Checker<'a> {
        pub tx: &'a Transaction,
        pub idx: usize,
        pub prevouts: &'a [TxOut],
    }

    fn cast_to_bool(v: &[u8]) -> bool {
        for (i, b) in v.iter().enumerate() {
            if *b != 0 {
                // negative zero
                return !(i == v.len() - 1 && *b == 0x80);
            }
        }
        false
    }

    fn num(v: &[u8], max: usize) -> Result<i64, String> {
        if v.len() > max {
            return Err(format!("script number overflow ({} bytes)", v.len()));
        }
        if v.is_empty() {
            return Ok(0);
        }
        let mut r: i64 = 0;
        for (i, b) in v.iter().enumerate() {
            r |= (*b as i64) << (8 * i);
        }
        if v[v.len() - 1] & 0x80 != 0 {
            r &= !(0x80i64 << (8 * (v.len() - 1)));
            r = -r;
        }
        Ok(r)
    }

    fn enc(n: i64) -> Vec<u8> {
        if n == 0 {
            return vec![];
        }
        let neg = n < 0;
        let mut a = n.unsigned_abs();
        let mut r = vec![];
        while a > 0 {
            r.push((a & 0xff) as u8);
            a >>= 8;
        }
        if r[r.len() - 1] & 0x80 != 0 {
            r.push(if neg { 0x80 } else { 0 });
        } else if neg {
            let l = r.len() - 1;
            r[l] |= 0x80;
        }
        r
    }

    impl<'a> Checker<'a> {
        fn check_ecdsa(
            &self,
            sig: &[u8],
            pk: &[u8],
            script_code: &Script,
            sv: SigVersion,
        ) -> Result<bool, String> {
            if sig.is_empty() {
                return Ok(false);
            }
            let (der, ht) = sig.split_at(sig.len() - 1);
            // BIP66: strict DER or the script fails
            let s = secp256k1::ecdsa::Signature::from_der(der)
                .map_err(|e| format!("non-DER signature: {}", e))?;
            let mut s = s;
            s.normalize_s();
            let pk = match secp256k1::PublicKey::from_slice(pk) {
                Ok(pk) => pk,
                Err(_) => return Ok(false),
            };
            if sv == SigVersion::WitnessV0 && pk.serialize().len() != 33 {
                // policy only (WITNESS_PUBKEYTYPE); keep going
            }
            let cache = &mut SighashCache::new(self.tx);
            let msg = match sv {
                SigVersion::Base => {
                    let h = cache
                        .legacy_signature_hash(self.idx, script_code, ht[0] as u32)
                        .map_err(|e| e.to_string())?;
                    secp256k1::Message::from_digest(h.to_byte_array())
                }
                SigVersion::WitnessV0 => {
                    let ty = miniscript::bitcoin::sighash::EcdsaSighashType::from_consensus(
                        ht[0] as u32,
                    );
                    let h = cache
                        .p2wsh_signature_hash(
                            self.idx,
                            script_code,
                            self.prevouts[self.idx].value,
                            ty,
                        )
                        .map_err(|e| e.to_string())?;
                    secp256k1::Message::from_digest(h.to_byte_array())
                }
                SigVersion::Tapscript => unreachable!(),
            };
            let secp = secp256k1::Secp256k1::verification_only();
            Ok(secp.verify_ecdsa(&msg, &s, &pk).is_ok())
        }

        fn check_schnorr(
            &self,
            sig: &[u8],
            pk: &[u8],
            leaf: Option<TapLeafHash>,
        ) -> Result<bool, String> {
            // caller handles the empty signature
            if pk.len() != 32 {
                return Err("unknown pubkey type in tapscript".into());
            }
            let pk = XOnlyPublicKey::from_slice(pk).map_err(|e| e.to_string())?;
            let (raw, ty) = match sig.len() {
                64 => (sig, TapSighashType::Default),
                65 => {
                    if sig[64] == 0 {
                        return Err("explicit SIGHASH_DEFAULT byte".into());
                    }
                    (
                        &sig[..64],
                        TapSighashType::from_consensus_u8(sig[64]).map_err(|e| e.to_string())?,
                    )
                }
                _ => return Err(format!("schnorr signature of {} bytes", sig.len())),
            };
            let s = secp256k1::schnorr::Signature::from_slice(raw).map_err(|e| e.to_string())?;
            let cache = &mut SighashCache::new(self.tx);
            let h = cache
                .taproot_signature_hash(
                    self.idx,
                    &Prevouts::All(self.prevouts),
                    None,
                    leaf.map(|l| (l, 0xffff_ffff)),
                    ty,
                )
                .map_err(|e| e.to_string())?;
            let msg = secp256k1::Message::from_digest(h.to_byte_array());
            let secp = secp256k1::Secp256k1::verification_only();
            if secp.verify_schnorr(&s, &msg, &pk).is_ok() {
                Ok(true)
            } else {
                Err("invalid (non-empty) schnorr signature".into())
            }
        }

        // BIP65
        fn check_locktime(&self, n: i64) -> Result<(), String> {
            if n < 0 {
                return Err("CLTV: negative locktime".into());
            }
            let tx_lt = self.tx.lock_time.to_consensus_u32() as i64;
            const T: i64 = 500_000_000;
            if !((tx_lt < T && n < T) || (tx_lt >= T && n >= T)) {
                return Err(format!("CLTV: unit mismatch (script {}, nLockTime {})", n, tx_lt));
            }
            if n > tx_lt {
                return Err(format!("CLTV: script wants {} > nLockTime {}", n, tx_lt));
            }
            if self.tx.input[self.idx].sequence.0 == 0xffff_ffff {
                return Err("CLTV: input is final (nSequence = 0xffffffff)".into());
            }
            Ok(())
        }

        // BIP112
        fn check_sequence(&self, n: i64) -> Result<(), String> {
            if n < 0 {
                return Err("CSV: negative".into());
            }
            if n & (1 << 31) != 0 {
                return Ok(()); // disable flag in the operand: NOP
            }
            if (self.tx.version.0 as u32) < 2 {
                return Err("CSV: transaction version < 2".into());
            }
            let seq = self.tx.input[self.idx].sequence.0 as i64;
            if seq & (1 << 31) != 0 {
                return Err("CSV: input nSequence has the disable flag".into());
            }
            let mask: i64 = (1 << 22) | 0xffff;
            let (a, b) = (seq & mask, n & mask);
            const F: i64 = 1 << 22;
            if !((a < F && b < F) || (a >= F && b >= F)) {
                return Err(format!("CSV: unit mismatch (script {}, nSequence {})", n, seq));
            }
            if b > a {
                return Err(format!("CSV: script wants {} > nSequence {}", b, a));
            }
            Ok(())
        }

        pub fn eval(
            &self,
            script: &Script,
            stack: &mut Vec<Vec<u8>>,
            sv: SigVersion,
        ) -> Result<(), String> {
            let leaf = if sv == SigVersion::Tapscript {
                Some(TapLeafHash::from_script(script, LeafVersion::TapScript))
            } else {
                None
            };
            let mut alt: Vec<Vec<u8>> = vec![];
            let mut exec: Vec<bool> = vec![];
            macro_rules! pop {
                () => {
                    stack.pop().ok_or_else(|| "pop from empty stack".to_string())?
                };
            }
            for ins in script.instructions() {
                let ins = ins.map_err(|e| e.to_string())?;
                let running = exec.iter().all(|b| *b);
                match ins {
                    Instruction::PushBytes(b) => {
                        if running {
                            stack.push(b.as_bytes().to_vec());
                        }
                    }
                    Instruction::Op(op) => {
                        let code = op.to_u8();
                        // flow control is processed even when not running
                        if op == OP_IF || op == OP_NOTIF {
                            let mut v = false;
                            if running {
                                let top = pop!();
                                if sv == SigVersion::Tapscript
                                    && !(top.is_empty() || top == vec![1u8])
                                {
                                    return Err("MINIMALIF (tapscript consensus)".into());
                                }
                                v = cast_to_bool(&top);
                                if op == OP_NOTIF {
                                    v = !v;
                                }
                            }
                            exec.push(v);
                            continue;
                        }
                        if op == OP_ELSE {
                            let l = exec.len();
                            if l == 0 {
                                return Err("unbalanced ELSE".into());
                            }
                            exec[l - 1] = !exec[l - 1];
                            continue;
                        }
                        if op == OP_ENDIF {
                            exec.pop().ok_or_else(|| "unbalanced ENDIF".to_string())?;
                            continue;
                        }
                        if !running {
                            continue;
                        }
                        if code == 0x4f {
                            stack.push(enc(-1));
                        } else if (0x51..=0x60).contains(&code) {
                            stack.push(enc((code - 0x50) as i64));
                        } else if op == OP_VERIFY {
                            if !cast_to_bool(&pop!()) {
                                return Err("VERIFY failed".into());
                            }
                        } else if op == OP_DUP {
                            let t = stack.last().ok_or("DUP on empty stack")?.clone();
                            stack.push(t);
                        } else if op == OP_IFDUP {
                            let t = stack.last().ok_or("IFDUP on empty stack")?.clone();
                            if cast_to_bool(&t) {
                                stack.push(t);
                            }
                        } else if op == OP_DROP {
                            pop!();
                        } else if op == OP_SWAP {
                            let a = pop!();
                            let b = pop!();
                            stack.push(a);
                            stack.push(b);
                        } else if op == OP_TOALTSTACK {
                            alt.push(pop!());
                        } else if op == OP_FROMALTSTACK {
                            stack.push(alt.pop().ok_or("empty altstack")?);
                        } else if op == OP_SIZE {
                            let l = stack.last().ok_or("SIZE on empty stack")?.len();
                            stack.push(enc(l as i64));
                        } else if op == OP_EQUAL || op == OP_EQUALVERIFY {
                            let a = pop!();
                            let b = pop!();
                            let eq = a == b;
                            if op == OP_EQUALVERIFY {
                                if !eq {
                                    return Err("EQUALVERIFY failed".into());
                                }
                            } else {
                                stack.push(if eq { vec![1] } else { vec![] });
                            }
                        } else if op == OP_0NOTEQUAL {
                            let a = num(&pop!(), 4)?;
                            stack.push(enc((a != 0) as i64));
                        } else if op == OP_NOT {
                            let a = num(&pop!(), 4)?;
                            stack.push(enc((a == 0) as i64));
                        } else if op == OP_BOOLAND
                            || op == OP_BOOLOR
                            || op == OP_ADD
                            || op == OP_NUMEQUAL
                            || op == OP_NUMEQUALVERIFY
                        {
                            let b = num(&pop!(), 4)?;
                            let a = num(&pop!(), 4)?;
                            let r = if op == OP_BOOLAND {
                                (a != 0 && b != 0) as i64
                            } else if op == OP_BOOLOR {
                                (a != 0 || b != 0) as i64
                            } else if op == OP_ADD {
                                a + b
                            } else {
                                (a == b) as i64
                            };
                            if op == OP_NUMEQUALVERIFY {
                                if r == 0 {
                                    return Err("NUMEQUALVERIFY failed".into());
                                }
                            } else {
                                stack.push(enc(r));
                            }
                        } else if op == OP_SHA256 {
                            let a = pop!();
                            stack.push(sha256::Hash::hash(&a).to_byte_array().to_vec());
                        } else if op == OP_HASH256 {
                            let a = pop!();
                            stack.push(sha256d::Hash::hash(&a).to_byte_array().to_vec());
                        } else if op == OP_RIPEMD160 {
                            let a = pop!();
                            stack.push(ripemd160::Hash::hash(&a).to_byte_array().to_vec());
                        } else if op == OP_HASH160 {
                            let a = pop!();
                            stack.push(hash160::Hash::hash(&a).to_byte_array().to_vec());
                        } else if op == OP_CLTV {
                            let n = num(stack.last().ok_or("CLTV on empty stack")?, 5)?;
                            self.check_locktime(n)?;
                        } else if op == OP_CSV {
                            let n = num(stack.last().ok_or("CSV on empty stack")?, 5)?;
                            self.check_sequence(n)?;
                        } else if op == OP_CHECKSIG || op == OP_CHECKSIGVERIFY {
                            let pk = pop!();
                            let sig = pop!();
                            let ok = if sv == SigVersion::Tapscript {
                                if sig.is_empty() {
                                    false
                                } else {
                                    self.check_schnorr(&sig, &pk, leaf)?
                                }
                            } else {
                                self.check_ecdsa(&sig, &pk, script, sv)?
                            };
                            if op == OP_CHECKSIGVERIFY {
                                if !ok {
                                    return Err("CHECKSIGVERIFY failed".into());
                                }
                            } else {
                                stack.push(if ok { vec![1] } else { vec![] });
                            }
                        } else if op == OP_CHECKSIGADD {
                            if sv != SigVersion::Tapscript {
                                return Err("CHECKSIGADD outside tapscript".into());
                            }
                            let pk = pop!();
                            let n = num(&pop!(), 4)?;
                            let sig = pop!();
                            let ok = if sig.is_empty() {
                                false
                            } else {
                                self.check_schnorr(&sig, &pk, leaf)?
                            };
                            stack.push(enc(n + ok as i64));
                        } else if op == OP_CHECKMULTISIG || op == OP_CHECKMULTISIGVERIFY {
                            if sv == SigVersion::Tapscript {
                                return Err("CHECKMULTISIG in tapscript".into());
                            }
                            let n = num(&pop!(), 4)?;
                            if !(0..=20).contains(&n) {
                                return Err("bad pubkey count".into());
                            }
                            let mut pks = vec![];
                            for _ in 0..n {
                                pks.push(pop!());
                            }
                            pks.reverse(); // now in script order
                            let m = num(&pop!(), 4)?;
                            if m < 0 || m > n {
                                return Err("bad sig count".into());
                            }
                            let mut sigs = vec![];
                            for _ in 0..m {
                                sigs.push(pop!());
                            }
                            sigs.reverse(); // now in witness order (first pushed first)
                            let dummy = pop!();
                            if !dummy.is_empty() {
                                return Err("NULLDUMMY".into());
                            }
                            // Core walks from the top; equivalently: sigs must match a
                            // subsequence of the pubkeys in order.
                            let mut ki = 0usize;
                            let mut ok = true;
                            for s in &sigs {
                                let mut matched = false;
                                while ki < pks.len() {
                                    let r = self.check_ecdsa(s, &pks[ki], script, sv)?;
                                    ki += 1;
                                    if r {
                                        matched = true;
                                        break;
                                    }
                                }
                                if !matched {
                                    ok = false;
                                    break;
                                }
                            }
                            if op == OP_CHECKMULTISIGVERIFY {
                                if !ok {
                                    return Err("CHECKMULTISIGVERIFY failed".into());
                                }
                            } else {
                                stack.push(if ok { vec![1] } else { vec![] });
                            }
                        } else {
                            return Err(format!("opcode {:?} not modelled", op));
                        }
                    }
                }
            }
            if !exec.is_empty() {
                return Err("unbalanced conditional".into());
            }
            Ok(())
        }

        fn scriptsig_pushes(&self) -> Result<Vec<Vec<u8>>, String> {
            let mut st = vec![];
            for ins in self.tx.input[self.idx].script_sig.instructions() {
                match ins.map_err(|e| e.to_string())? {
                    Instruction::PushBytes(b) => st.push(b.as_bytes().to_vec()),
                    Instruction::Op(op) => {
                        let c = op.to_u8();
                        if c == 0x4f {
                            st.push(enc(-1))
                        } else if (0x51..=0x60).contains(&c) {
                            st.push(enc((c - 0x50) as i64))
                        } else {
                            return Err("scriptSig is not push-only".into());
                        }
                    }
                }
            }
            Ok(st)
        }

        fn witness_program(
            &self,
            version: u8,
            program: &[u8],
            wit: Vec<Vec<u8>>,
            is_p2sh: bool,
        ) -> Result<(), String> {
            if version == 0 && program.len() == 32 {
                let mut stack = wit;
                let ws = ScriptBuf::from(stack.pop().ok_or("empty witness for P2WSH")?);
                if sha256::Hash::hash(ws.as_bytes()).to_byte_array()[..] != program[..] {
                    return Err("witness script hash mismatch".into());
                }
                self.eval(&ws, &mut stack, SigVersion::WitnessV0)?;
                if stack.len() != 1 {
                    return Err(format!("CLEANSTACK: {} elements left", stack.len()));
                }
                if !cast_to_bool(&stack[0]) {
                    return Err("script evaluated to false".into());
                }
                Ok(())
            } else if version == 0 && program.len() == 20 {
                if wit.len() != 2 {
                    return Err("P2WPKH needs exactly 2 witness elements".into());
                }
                let code = ScriptBuf::new_p2pkh(
                    &miniscript::bitcoin::PubkeyHash::from_slice(program).unwrap(),
                );
                let mut stack = wit;
                self.eval(&code, &mut stack, SigVersion::WitnessV0)?;
                if stack.len() != 1 || !cast_to_bool(&stack[0]) {
                    return Err("P2WPKH failed".into());
                }
                Ok(())
            } else if version == 1 && program.len() == 32 && !is_p2sh {
                let mut stack = wit;
                if stack.is_empty() {
                    return Err("empty taproot witness".into());
                }
                if stack.len() >= 2 && stack.last().unwrap().first() == Some(&0x50) {
                    return Err("annex not modelled".into());
                }
                if stack.len() == 1 {
                    let sig = stack.pop().unwrap();
                    return self.check_schnorr(&sig, program, None).and_then(|ok| {
                        if ok {
                            Ok(())
                        } else {
                            Err("key path signature invalid".into())
                        }
                    });
                }
                let cb = stack.pop().unwrap();
                let script = ScriptBuf::from(stack.pop().unwrap());
                let cb = ControlBlock::decode(&cb).map_err(|e| e.to_string())?;
                let secp = secp256k1::Secp256k1::verification_only();
                let out = XOnlyPublicKey::from_slice(program).map_err(|e| e.to_string())?;
                if !cb.verify_taproot_commitment(&secp, out, &script) {
                    return Err("taproot commitment mismatch".into());
                }
                if cb.leaf_version != LeafVersion::TapScript {
                    return Err("unknown leaf version".into());
                }
                self.eval(&script, &mut stack, SigVersion::Tapscript)?;
                if stack.len() != 1 {
                    return Err(format!("CLEANSTACK: {} elements left", stack.len()));
                }
                if !cast_to_bool(&stack[0]) {
                    return Err("script evaluated to false".into());
                }
                Ok(())
            } else {
                Err("unknown witness program".into())
            }
        }

        /// VerifyScript for input `idx`.
        pub fn verify(&self) -> Result<(), String> {
            let spk = &self.prevouts[self.idx].script_pubkey;
            let txin = &self.tx.input[self.idx];
            let wit: Vec<Vec<u8>> = txin.witness.iter().map(|x| x.to_vec()).collect();
            if let Some(v) = spk.witness_version() {
                if !txin.script_sig.is_empty() {
                    return Err("native witness program with non-empty scriptSig".into());
                }
                let b = spk.as_bytes();
                return self.witness_program(v.to_num(), &b[2..], wit, false);
            }
            let mut stack = self.scriptsig_pushes()?;
            if spk.is_p2sh() {
                let copy = stack.clone();
                self.eval(spk, &mut stack, SigVersion::Base)?;
                if stack.is_empty() || !cast_to_bool(stack.last().unwrap()) {
                    return Err("P2SH hash mismatch".into());
                }
                let mut stack = copy;
                let redeem = ScriptBuf::from(stack.pop().ok_or("no redeemScript")?);
                if let Some(v) = redeem.witness_version() {
                    if !stack.is_empty() {
                        return Err("P2SH-witness scriptSig must be exactly the program push".into());
                    }
                    // and must be a single canonical push
                    let mut exp = miniscript::bitcoin::script::Builder::new();
                    exp = exp.push_slice(
                        <&miniscript::bitcoin::script::PushBytes>::try_from(redeem.as_bytes())
                            .unwrap(),
                    );
                    if exp.into_script() != txin.script_sig {
                        return Err("P2SH-witness scriptSig malleated".into());
                    }
                    let b = redeem.as_bytes();
                    return self.witness_program(v.to_num(), &b[2..], wit, true);
                }
                if !wit.is_empty() {
                    return Err("unexpected witness".into());
                }
                self.eval(&redeem, &mut stack, SigVersion::Base)?;
                if stack.is_empty() || !cast_to_bool(stack.last().unwrap()) {
                    return Err("redeemScript evaluated to false".into());
                }
                return Ok(());
            }
            if !wit.is_empty() {
                return Err("unexpected witness".into());
            }
            self.eval(spk, &mut stack, SigVersion::Base)?;
            if stack.is_empty() || !cast_to_bool(stack.last().unwrap()) {
                return Err("scriptPubKey evaluated to false".into());
            }
            Ok(())
        }
    }
}

// Shared driver: key material, a signer that stands behind an `Assets`, tx construction,
// plan completion and validation with the reference interpreter.
use std::collections::BTreeMap;
use std::str::FromStr;

use miniscript::bitcoin::hashes::{hash160, ripemd160, sha256, Hash};
use miniscript::bitcoin::sighash::{EcdsaSighashType, Prevouts, SighashCache, TapSighashType};
use miniscript::bitcoin::taproot::TapLeafHash;
use miniscript::bitcoin::{
    self, absolute, relative, secp256k1, transaction, Amount, OutPoint, ScriptBuf, Sequence,
    Transaction, TxIn, TxOut, Witness, XOnlyPublicKey,
};
use miniscript::plan::{AssetProvider, Assets, Plan};
use miniscript::{hash256, DefiniteDescriptorKey, Descriptor, Satisfier, ToPublicKey};

pub struct World {
    pub secp: secp256k1::Secp256k1<secp256k1::All>,
    /// x-only public key -> secret key
    pub sks: BTreeMap<XOnlyPublicKey, secp256k1::SecretKey>,
    pub sha256: BTreeMap<sha256::Hash, [u8; 32]>,
    pub hash256: BTreeMap<hash256::Hash, [u8; 32]>,
    pub ripemd160: BTreeMap<ripemd160::Hash, [u8; 32]>,
    pub hash160: BTreeMap<hash160::Hash, [u8; 32]>,
    pub ecdsa_ty: std::cell::Cell<EcdsaSighashType>,
    pub tap_ty: std::cell::Cell<TapSighashType>,
}

impl World {
    pub fn new() -> Self {
        World {
            secp: secp256k1::Secp256k1::new(),
            sks: BTreeMap::new(),
            sha256: BTreeMap::new(),
            hash256: BTreeMap::new(),
            ripemd160: BTreeMap::new(),
            hash160: BTreeMap::new(),
            ecdsa_ty: std::cell::Cell::new(EcdsaSighashType::All),
            tap_ty: std::cell::Cell::new(TapSighashType::Default),
        }
    }
    pub fn add_sk(&mut self, sk: secp256k1::SecretKey) -> bitcoin::PublicKey {
        let pk = secp256k1::PublicKey::from_secret_key(&self.secp, &sk);
        self.sks.insert(pk.x_only_public_key().0, sk);
        bitcoin::PublicKey::new(pk)
    }
    pub fn add_preimage(&mut self, p: [u8; 32]) {
        self.sha256.insert(sha256::Hash::hash(&p), p);
        self.hash256.insert(hash256::Hash::hash(&p), p);
        self.ripemd160.insert(ripemd160::Hash::hash(&p), p);
        self.hash160.insert(hash160::Hash::hash(&p), p);
    }
}

/// The signer that stands behind a set of `Assets`: it has a signature for a key exactly when
/// the assets say so, a preimage exactly when the assets list the hash, and accepts a lock exactly
/// when the assets allow it.
pub struct Signer<'a> {
    pub w: &'a World,
    pub assets: &'a Assets,
    pub desc: &'a Descriptor<DefiniteDescriptorKey>,
    pub tx: &'a Transaction,
    pub prevouts: &'a [TxOut],
    pub ecdsa_ty: EcdsaSighashType,
    pub tap_ty: TapSighashType,
}

impl<'a> Signer<'a> {
    fn sk(&self, pk: &DefiniteDescriptorKey) -> Option<secp256k1::SecretKey> {
        self.w.sks.get(&pk.to_x_only_pubkey()).copied()
    }
}

impl<'a> Satisfier<DefiniteDescriptorKey> for Signer<'a> {
    fn lookup_ecdsa_sig(&self, pk: &DefiniteDescriptorKey) -> Option<bitcoin::ecdsa::Signature> {
        if !self.assets.provider_lookup_ecdsa_sig(pk) {
            return None;
        }
        let sk = self.sk(pk)?;
        let mut cache = SighashCache::new(self.tx);
        let code = self.desc.script_code().ok()?;
        let msg = if self.desc.desc_type().segwit_version().is_some() {
            let h = cache
                .p2wsh_signature_hash(0, &code, self.prevouts[0].value, self.ecdsa_ty)
                .unwrap();
            secp256k1::Message::from_digest(h.to_byte_array())
        } else {
            let h = cache.legacy_signature_hash(0, &code, self.ecdsa_ty.to_u32()).unwrap();
            secp256k1::Message::from_digest(h.to_byte_array())
        };
        Some(bitcoin::ecdsa::Signature {
            signature: self.w.secp.sign_ecdsa(&msg, &sk),
            sighash_type: self.ecdsa_ty,
        })
    }

    fn lookup_tap_key_spend_sig(
        &self,
        pk: &DefiniteDescriptorKey,
    ) -> Option<bitcoin::taproot::Signature> {
        self.assets.provider_lookup_tap_key_spend_sig(pk)?;
        let sk = self.sk(pk)?;
        let tr = match self.desc {
            Descriptor::Tr(tr) => tr,
            _ => return None,
        };
        use bitcoin::key::TapTweak;
        let kp = secp256k1::Keypair::from_secret_key(&self.w.secp, &sk);
        let kp = kp.tap_tweak(&self.w.secp, tr.spend_info().merkle_root()).to_keypair();
        let mut cache = SighashCache::new(self.tx);
        let h = cache
            .taproot_key_spend_signature_hash(0, &Prevouts::All(self.prevouts), self.tap_ty)
            .unwrap();
        let msg = secp256k1::Message::from_digest(h.to_byte_array());
        Some(bitcoin::taproot::Signature {
            signature: self.w.secp.sign_schnorr_no_aux_rand(&msg, &kp),
            sighash_type: self.tap_ty,
        })
    }

    fn lookup_tap_leaf_script_sig(
        &self,
        pk: &DefiniteDescriptorKey,
        lh: &TapLeafHash,
    ) -> Option<bitcoin::taproot::Signature> {
        self.assets.provider_lookup_tap_leaf_script_sig(pk, lh)?;
        let sk = self.sk(pk)?;
        let kp = secp256k1::Keypair::from_secret_key(&self.w.secp, &sk);
        let mut cache = SighashCache::new(self.tx);
        let h = cache
            .taproot_script_spend_signature_hash(
                0,
                &Prevouts::All(self.prevouts),
                *lh,
                self.tap_ty,
            )
            .unwrap();
        let msg = secp256k1::Message::from_digest(h.to_byte_array());
        Some(bitcoin::taproot::Signature {
            signature: self.w.secp.sign_schnorr_no_aux_rand(&msg, &kp),
            sighash_type: self.tap_ty,
        })
    }

    fn lookup_sha256(&self, h: &sha256::Hash) -> Option<[u8; 32]> {
        if self.assets.provider_lookup_sha256(h) {
            self.w.sha256.get(h).copied()
        } else {
            None
        }
    }
    fn lookup_hash256(&self, h: &hash256::Hash) -> Option<[u8; 32]> {
        if self.assets.provider_lookup_hash256(h) {
            self.w.hash256.get(h).copied()
        } else {
            None
        }
    }
    fn lookup_ripemd160(&self, h: &ripemd160::Hash) -> Option<[u8; 32]> {
        if self.assets.provider_lookup_ripemd160(h) {
            self.w.ripemd160.get(h).copied()
        } else {
            None
        }
    }
    fn lookup_hash160(&self, h: &hash160::Hash) -> Option<[u8; 32]> {
        if self.assets.provider_lookup_hash160(h) {
            self.w.hash160.get(h).copied()
        } else {
            None
        }
    }
    fn check_older(&self, l: relative::LockTime) -> bool {
        AssetProvider::<DefiniteDescriptorKey>::check_older(self.assets, l)
    }
    fn check_after(&self, l: absolute::LockTime) -> bool {
        AssetProvider::<DefiniteDescriptorKey>::check_after(self.assets, l)
    }
}

pub fn prevouts_for(desc: &Descriptor<DefiniteDescriptorKey>) -> Vec<TxOut> {
    vec![TxOut { value: Amount::from_sat(100_000), script_pubkey: desc.script_pubkey() }]
}

pub fn make_tx(lock_time: u32, sequence: u32) -> Transaction {
    Transaction {
        version: transaction::Version::TWO,
        lock_time: absolute::LockTime::from_consensus(lock_time),
        input: vec![TxIn {
            previous_output: OutPoint { txid: bitcoin::Txid::all_zeros(), vout: 7 },
            script_sig: ScriptBuf::new(),
            sequence: Sequence(sequence),
            witness: Witness::new(),
        }],
        output: vec![TxOut {
            value: Amount::from_sat(90_000),
            script_pubkey: ScriptBuf::from_bytes(vec![0x51]),
        }],
    }
}

/// nLockTime / nSequence that a wallet derives from what the plan reports.
pub fn locks_of(plan: &Plan<DefiniteDescriptorKey>) -> (u32, u32) {
    let lt = plan.absolute_timelock.map(|l| l.to_consensus_u32()).unwrap_or(0);
    let seq = match plan.relative_timelock {
        Some(r) => r.to_sequence().0,
        // BIP65: CLTV needs a non-final input
        None if plan.absolute_timelock.is_some() => 0xffff_fffe,
        None => 0xffff_ffff,
    };
    (lt, seq)
}

/// Completes `plan` for a transaction with the given nLockTime/nSequence (signing for exactly
/// that transaction) and runs the reference interpreter on it.
pub fn complete_and_verify(
    w: &World,
    assets: &Assets,
    plan: &Plan<DefiniteDescriptorKey>,
    lock_time: u32,
    sequence: u32,
) -> Result<(Vec<Vec<u8>>, ScriptBuf), String> {
    let desc = &plan.descriptor;
    let prevouts = prevouts_for(desc);
    let mut tx = make_tx(lock_time, sequence);
    let (wit, ss) = {
        let signer = Signer {
            w,
            assets,
            desc,
            tx: &tx,
            prevouts: &prevouts,
            ecdsa_ty: w.ecdsa_ty.get(),
            tap_ty: w.tap_ty.get(),
        };
        plan.satisfy(&signer).map_err(|e| format!("Plan::satisfy: {}", e))?
    };
    tx.input[0].witness = Witness::from_slice(&wit);
    tx.input[0].script_sig = ss.clone();
    refinterp::Checker { tx: &tx, idx: 0, prevouts: &prevouts }.verify()?;
    Ok((wit, ss))
}

// ---------------------------------------------------------------------------------------------
// C17 finding 1: for wsh(..) and sh(wsh(..)) the plan announces a witness size / satisfaction
// weight that does not contain the witnessScript, although the witness that `Plan::satisfy`
// returns (and that BIP141 requires) has the witnessScript as its last element.
// ---------------------------------------------------------------------------------------------
use miniscript::DescriptorPublicKey;

fn check(d: &str, n_keys: u8) {
    let mut w = World::new();
    let mut assets = Assets::new();
    let mut d = d.to_string();
    for i in 0..n_keys {
        let sk = secp256k1::SecretKey::from_slice(&[0x50 + i; 32]).unwrap();
        let pk = w.add_sk(sk);
        d = d.replace(&format!("K{}", i), &pk.to_string());
        assets = assets.add(DescriptorPublicKey::from_str(&pk.to_string()).unwrap());
    }
    let desc = Descriptor::<DefiniteDescriptorKey>::from_str(&d).unwrap();
    for mall in [false, true] {
        let plan = if mall {
            desc.clone().into_plan_mall(&assets).unwrap()
        } else {
            desc.clone().into_plan(&assets).unwrap()
        };
        let (lt, seq) = locks_of(&plan);
        // Complete the plan with real signatures; the result is a consensus-valid spend
        // (checked with the independent interpreter above), so it is "the real witness".
        let (witness, script_sig) = complete_and_verify(&w, &assets, &plan, lt, seq)
            .unwrap_or_else(|e| panic!("{}: completed plan is not a valid spend: {}", d, e));
        // ... and it is the same thing the satisfier produces.
        {
            let prevouts = prevouts_for(&desc);
            let mut tx = make_tx(lt, seq);
            let signer = Signer {
                w: &w,
                assets: &assets,
                desc: &desc,
                tx: &tx,
                prevouts: &prevouts,
                ecdsa_ty: EcdsaSighashType::All,
                tap_ty: TapSighashType::Default,
            };
            let sat = if mall { desc.get_satisfaction_mall(&signer) } else { desc.get_satisfaction(&signer) };
            assert_eq!(sat.unwrap(), (witness.clone(), script_sig.clone()));
            // BIP141: removing the witnessScript makes the spend invalid, i.e. it is part of
            // the witness one has to pay for.
            if matches!(
                desc.desc_type(),
                miniscript::descriptor::DescriptorType::Wsh | miniscript::descriptor::DescriptorType::ShWsh
            ) {
                let mut short = witness.clone();
                short.pop();
                tx.input[0].witness = Witness::from_slice(&short);
                tx.input[0].script_sig = script_sig.clone();
                assert!(refinterp::Checker { tx: &tx, idx: 0, prevouts: &prevouts }.verify().is_err());
            }
        }
        // Serialized sizes as they appear in the transaction (BIP144).
        let real_witness = if witness.is_empty() {
            0
        } else {
            bitcoin::consensus::serialize(&Witness::from_slice(&witness)).len()
        };
        let real_script_sig = bitcoin::consensus::serialize(&script_sig).len();
        let real_weight = real_witness + 4 * real_script_sig;
        println!(
            "{:<14} mall={:<5} witness_size() = {:>3}, real = {:>3} | scriptsig_size() = {:>3}, real = {:>3} | satisfaction_weight() = {:>3}, real = {:>3}",
            &d[..d.find('0').unwrap_or(10).min(14)], mall,
            plan.witness_size(), real_witness, plan.scriptsig_size(), real_script_sig,
            plan.satisfaction_weight(), real_weight
        );
        assert!(
            plan.scriptsig_size() >= real_script_sig,
            "{}: announced scriptSig size {} is smaller than the real one {}",
            d, plan.scriptsig_size(), real_script_sig
        );
        assert!(
            plan.witness_size() >= real_witness,
            "C17 violated for {} (mall={}): Plan::witness_size() announces {} bytes, the witness \
             that completes the plan is {} bytes (the {}-byte witnessScript and its length prefix \
             are not counted)",
            d, mall, plan.witness_size(), real_witness, witness.last().unwrap().len()
        );
        assert!(
            plan.satisfaction_weight() >= real_weight,
            "C17 violated for {} (mall={}): Plan::satisfaction_weight() announces {} WU, real {} WU",
            d, mall, plan.satisfaction_weight(), real_weight
        );
    }
}

#[test]
fn wsh_single_key() { check("wsh(pk(K0))", 1); }

#[test]
fn wsh_multisig_2_of_3() { check("wsh(multi(2,K0,K1,K2))", 3); }

#[test]
fn sh_wsh_with_timelock() { check("sh(wsh(and_v(v:pk(K0),or_d(pk(K1),older(144)))))", 2); }

// Controls: every other descriptor type announces at least the real size (taproot plans do
// count the leaf script and the control block, legacy sh() plans do count the redeemScript).
#[test]
fn control_other_descriptor_types() {
    check("wpkh(K0)", 1);
    check("sh(wpkh(K0))", 1);
    check("pkh(K0)", 1);
    check("sh(multi(2,K0,K1,K2))", 3);
    check("tr(K0,multi_a(2,K1,K2))", 3);
}
