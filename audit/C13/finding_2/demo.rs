// C13 audit, finding 2.
//
// For P2WSH / P2SH-P2WSH / P2TR script spends the interpreter does not check the script bytes that
// are in the witness against the commitment in the scriptPubKey.  It decodes them to a Miniscript,
// RE-ENCODES the Miniscript and checks the commitment of the re-encoded script.  The lexer maps
// `OP_NUMEQUAL OP_VERIFY` and `OP_NUMEQUALVERIFY` to the same token sequence (the
// `NonMinimalVerify` guard covers EQUAL, CHECKSIG and CHECKMULTISIG, but not NUMEQUAL), so two
// different byte strings decode to the same `v:multi_a(..)` and re-encode to the canonical one.
//
// Consequence: take a valid tapscript spend of `tr(I,and_v(v:multi_a(1,A,B),pk(C)))` produced by
// the library and replace the script element of the witness by the same script with the single
// opcode NUMEQUALVERIFY (0x9d) spelled as NUMEQUAL VERIFY (0x9c 0x69).  Under BIP341 the tapleaf
// hash is computed over the script bytes THAT ARE IN THE WITNESS, so the merkle root / output key
// check fails and the spend is invalid.  The interpreter accepts it (and even verifies the
// signatures against the leaf hash of a script that is not in the transaction).

use std::str::FromStr;

use miniscript::bitcoin::hashes::Hash;
use miniscript::bitcoin::key::{Keypair, XOnlyPublicKey};
use miniscript::bitcoin::secp256k1::{self, Secp256k1};
use miniscript::bitcoin::sighash::{Prevouts, SighashCache};
use miniscript::bitcoin::taproot::{self, ControlBlock, LeafVersion, TapLeafHash};
use miniscript::bitcoin::{
    absolute, transaction, Amount, OutPoint, ScriptBuf, Sequence, TapSighashType, Transaction,
    TxIn, TxOut, Txid, Witness,
};
use miniscript::interpreter::{Interpreter, SatisfiedConstraint};
use miniscript::{Descriptor, Satisfier, ToPublicKey};

struct TapSat {
    leaf_sigs: Vec<(XOnlyPublicKey, TapLeafHash, taproot::Signature)>,
}

impl Satisfier<XOnlyPublicKey> for TapSat {
    fn lookup_tap_leaf_script_sig(
        &self,
        pk: &XOnlyPublicKey,
        lh: &TapLeafHash,
    ) -> Option<taproot::Signature> {
        self.leaf_sigs
            .iter()
            .find(|(k, h, _)| k.to_x_only_pubkey() == pk.to_x_only_pubkey() && h == lh)
            .map(|x| x.2)
    }
}

fn keypair(secp: &Secp256k1<secp256k1::All>, b: u8) -> Keypair {
    Keypair::from_seckey_slice(secp, &[b; 32]).unwrap()
}

fn interpret(
    secp: &Secp256k1<secp256k1::All>,
    tx: &Transaction,
    prevout: &TxOut,
) -> Result<Vec<SatisfiedConstraint>, miniscript::interpreter::Error> {
    let interp = Interpreter::from_txdata(
        &prevout.script_pubkey,
        &tx.input[0].script_sig,
        &tx.input[0].witness,
        tx.input[0].sequence,
        tx.lock_time,
    )?;
    let prevouts = [prevout.clone()];
    let prevouts = Prevouts::All(&prevouts);
    let res: Result<Vec<_>, _> = interp.iter(secp, tx, 0, &prevouts).collect();
    res
}

#[test]
fn tapscript_in_witness_must_be_the_committed_one() {
    let secp = Secp256k1::new();
    let (i, _) = keypair(&secp, 0x11).x_only_public_key();
    let ka = keypair(&secp, 0x22);
    let kb = keypair(&secp, 0x33);
    let kc = keypair(&secp, 0x44);
    let (a, _) = ka.x_only_public_key();
    let (b, _) = kb.x_only_public_key();
    let (c, _) = kc.x_only_public_key();

    let desc = Descriptor::<XOnlyPublicKey>::from_str(&format!(
        "tr({},and_v(v:multi_a(1,{},{}),pk({})))",
        i, a, b, c
    ))
    .unwrap(); // `Descriptor::from_str` validates every tr() leaf against `Tap::SANE`
    let prevout = TxOut { value: Amount::from_sat(100_000), script_pubkey: desc.script_pubkey() };

    let leaf_script = match &desc {
        Descriptor::Tr(tr) => tr.leaves().next().unwrap().miniscript().encode(),
        _ => unreachable!(),
    };
    let leaf_hash = TapLeafHash::from_script(&leaf_script, LeafVersion::TapScript);

    let mut tx = Transaction {
        version: transaction::Version::TWO,
        lock_time: absolute::LockTime::ZERO,
        input: vec![TxIn {
            previous_output: OutPoint { txid: Txid::all_zeros(), vout: 0 },
            script_sig: ScriptBuf::new(),
            sequence: Sequence::ENABLE_RBF_NO_LOCKTIME,
            witness: Witness::new(),
        }],
        output: vec![TxOut { value: Amount::from_sat(90_000), script_pubkey: ScriptBuf::new() }],
    };
    let sighash = SighashCache::new(&tx)
        .taproot_script_spend_signature_hash(
            0,
            &Prevouts::All(&[prevout.clone()]),
            leaf_hash,
            TapSighashType::Default,
        )
        .unwrap();
    let msg = secp256k1::Message::from_digest(sighash.to_byte_array());
    let mk = |kp: &Keypair| taproot::Signature {
        signature: secp.sign_schnorr_no_aux_rand(&msg, kp),
        sighash_type: TapSighashType::Default,
    };
    let sat = TapSat { leaf_sigs: vec![(a, leaf_hash, mk(&ka)), (c, leaf_hash, mk(&kc))] };
    desc.satisfy(&mut tx.input[0], &sat).unwrap();

    // Sanity of the set-up: the library's own satisfaction is accepted.
    let ok = interpret(&secp, &tx, &prevout).expect("library satisfaction must be accepted");
    assert_eq!(ok.len(), 2);

    // ---- single-element mutation: replace the script element -------------------------------
    let mut items: Vec<Vec<u8>> = tx.input[0].witness.iter().map(|x| x.to_vec()).collect();
    let n = items.len();
    assert_eq!(items[n - 2], leaf_script.as_bytes());
    let pos = items[n - 2]
        .iter()
        .position(|&op| op == 0x9d) // OP_NUMEQUALVERIFY; no key byte is consulted: see assert below
        .unwrap();
    let mut other = items[n - 2].clone();
    other.splice(pos..pos + 1, [0x9c, 0x69]); // OP_NUMEQUAL OP_VERIFY
    let other_script = ScriptBuf::from_bytes(other.clone());
    assert_eq!(
        other_script.to_asm_string(),
        leaf_script
            .to_asm_string()
            .replace("OP_NUMEQUALVERIFY", "OP_NUMEQUAL OP_VERIFY"),
        "the mutation only re-spells NUMEQUALVERIFY"
    );
    assert_ne!(other_script, leaf_script);
    items[n - 2] = other;
    tx.input[0].witness = Witness::from_slice(&items);

    // What BIP341 does with this witness (script path spending, "Let k0 = hash_TapLeaf(v ||
    // compact_size(size of s) || s)" with s = the second-to-last witness element, fold the control
    // block path, tweak the internal key, "If q != x(Q) ... fail"): the commitment check fails,
    // because the leaf hash of the provided bytes differs.  rust-bitcoin's implementation of that
    // rule (independent of miniscript):
    let ctrl = ControlBlock::decode(&items[n - 1]).unwrap();
    let output_key = XOnlyPublicKey::from_slice(&prevout.script_pubkey.as_bytes()[2..]).unwrap();
    assert!(ctrl.verify_taproot_commitment(&secp, output_key, &leaf_script));
    assert!(
        !ctrl.verify_taproot_commitment(&secp, output_key, &other_script),
        "the mutated script is not committed to by the output key: consensus rejects the spend"
    );

    let res = interpret(&secp, &tx, &prevout);
    assert!(
        res.is_err(),
        "interpreter accepted a script-path spend whose witness script is NOT the one committed \
         to by the scriptPubKey (BIP341 commitment check fails); reported constraints: {:?}",
        res
    );
}
