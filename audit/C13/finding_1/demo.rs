// C13 audit, finding 1.
//
// A taproot (BIP340) signature that is 65 bytes long and whose last byte (the sighash type) is
// 0x00 is INVALID under BIP341 ("If the signature is 65 bytes and hash_type == 0x00, fail";
// Bitcoin Core: SCRIPT_ERR_SCHNORR_SIG_HASHTYPE).  SIGHASH_DEFAULT may only be expressed by the
// 64-byte form.  The miniscript interpreter parses `sig64 || 0x00` as "sighash DEFAULT", checks
// it against the SIGHASH_DEFAULT message - for which sig64 is valid - and accepts the spend.
//
// Mutation class of the property: "replace one witness element by another signature / junk":
// the 64-byte signature the library put into the witness is replaced by the same 64 bytes
// followed by one zero byte.

use std::str::FromStr;

use miniscript::bitcoin::hashes::Hash;
use miniscript::bitcoin::key::{Keypair, TapTweak, XOnlyPublicKey};
use miniscript::bitcoin::secp256k1::{self, Secp256k1};
use miniscript::bitcoin::sighash::{Prevouts, SighashCache};
use miniscript::bitcoin::taproot::{self, LeafVersion, TapLeafHash};
use miniscript::bitcoin::{
    absolute, transaction, Amount, OutPoint, ScriptBuf, Sequence, TapSighashType, Transaction,
    TxIn, TxOut, Txid, Witness,
};
use miniscript::interpreter::{Interpreter, KeySigPair, SatisfiedConstraint};
use miniscript::{Descriptor, Satisfier, ToPublicKey};

struct TapSat {
    key_sig: Option<taproot::Signature>,
    leaf_sigs: Vec<(XOnlyPublicKey, TapLeafHash, taproot::Signature)>,
}

impl Satisfier<XOnlyPublicKey> for TapSat {
    fn lookup_tap_key_spend_sig(&self, _: &XOnlyPublicKey) -> Option<taproot::Signature> {
        self.key_sig
    }
    fn lookup_tap_leaf_script_sig(
        &self,
        pk: &XOnlyPublicKey,
        lh: &TapLeafHash,
    ) -> Option<taproot::Signature> {
        self.leaf_sigs
            .iter()
            .find(|(k, h, _)| k.to_x_only_pubkey() == pk.to_x_only_pubkey() && h == lh)
            .map(|x| x.2)
    }
}

fn keypair(secp: &Secp256k1<secp256k1::All>, b: u8) -> Keypair {
    Keypair::from_seckey_slice(secp, &[b; 32]).unwrap()
}

fn spending_tx() -> Transaction {
    Transaction {
        version: transaction::Version::TWO,
        lock_time: absolute::LockTime::ZERO,
        input: vec![TxIn {
            previous_output: OutPoint { txid: Txid::all_zeros(), vout: 0 },
            script_sig: ScriptBuf::new(),
            sequence: Sequence::ENABLE_RBF_NO_LOCKTIME,
            witness: Witness::new(),
        }],
        output: vec![TxOut { value: Amount::from_sat(90_000), script_pubkey: ScriptBuf::new() }],
    }
}

/// Runs the interpreter with REAL signature verification and returns the satisfied constraints,
/// or the error that made it reject the spend.
fn interpret(
    secp: &Secp256k1<secp256k1::All>,
    tx: &Transaction,
    prevout: &TxOut,
) -> Result<Vec<SatisfiedConstraint>, miniscript::interpreter::Error> {
    let interp = Interpreter::from_txdata(
        &prevout.script_pubkey,
        &tx.input[0].script_sig,
        &tx.input[0].witness,
        tx.input[0].sequence,
        tx.lock_time,
    )?;
    let prevouts = [prevout.clone()];
    let prevouts = Prevouts::All(&prevouts);
    let res: Result<Vec<_>, _> = interp.iter(secp, tx, 0, &prevouts).collect();
    res
}

/// Replaces witness element `idx` (a 64-byte BIP340 signature) by the same signature followed by
/// an explicit 0x00 sighash byte.
fn append_zero_sighash(tx: &mut Transaction, idx: usize) {
    let mut items: Vec<Vec<u8>> = tx.input[0].witness.iter().map(|x| x.to_vec()).collect();
    assert_eq!(items[idx].len(), 64, "the library emits SIGHASH_DEFAULT signatures as 64 bytes");
    items[idx].push(0x00);
    tx.input[0].witness = Witness::from_slice(&items);
}

#[test]
fn key_spend_with_explicit_default_sighash_byte_must_be_rejected() {
    let secp = Secp256k1::new();
    let internal = keypair(&secp, 0x11);
    let (ixo, _) = internal.x_only_public_key();
    let desc = Descriptor::<XOnlyPublicKey>::from_str(&format!("tr({})", ixo)).unwrap();
    // `Descriptor::from_str` validates every tr() leaf against `Tap::SANE`: the descriptor is sane.
    let prevout = TxOut { value: Amount::from_sat(100_000), script_pubkey: desc.script_pubkey() };

    let mut tx = spending_tx();
    let sighash = SighashCache::new(&tx)
        .taproot_key_spend_signature_hash(0, &Prevouts::All(&[prevout.clone()]), TapSighashType::Default)
        .unwrap();
    let msg = secp256k1::Message::from_digest(sighash.to_byte_array());
    let tweaked = internal.tap_tweak(&secp, None).to_keypair();
    let sig = secp.sign_schnorr_no_aux_rand(&msg, &tweaked);
    let sat = TapSat {
        key_sig: Some(taproot::Signature { signature: sig, sighash_type: TapSighashType::Default }),
        leaf_sigs: vec![],
    };
    desc.satisfy(&mut tx.input[0], &sat).unwrap();

    // The library's own satisfaction is accepted (sanity of the set-up).
    let ok = interpret(&secp, &tx, &prevout).expect("library satisfaction must be accepted");
    assert_eq!(ok.len(), 1);
    assert_eq!(tx.input[0].witness.len(), 1);

    append_zero_sighash(&mut tx, 0);
    assert_eq!(tx.input[0].witness.iter().next().unwrap().len(), 65);

    let res = interpret(&secp, &tx, &prevout);
    // BIP341, "Signature validation rules": "If the sig is 65 bytes long ... if hash_type is
    // 0x00, fail".  Real execution rejects this input, so C13 demands that the interpreter does not
    // accept it.
    assert!(
        res.is_err(),
        "interpreter accepted a key-path spend with a 65-byte signature ending in 0x00, \
         which BIP341 declares invalid; reported constraints: {:?}",
        res
    );
}

#[test]
fn script_spend_with_explicit_default_sighash_byte_must_be_rejected() {
    let secp = Secp256k1::new();
    let internal = keypair(&secp, 0x11);
    let leaf_key = keypair(&secp, 0x22);
    let (ixo, _) = internal.x_only_public_key();
    let (lxo, _) = leaf_key.x_only_public_key();
    let desc =
        Descriptor::<XOnlyPublicKey>::from_str(&format!("tr({},pk({}))", ixo, lxo)).unwrap();
    // `Descriptor::from_str` validates every tr() leaf against `Tap::SANE`: the descriptor is sane.
    let prevout = TxOut { value: Amount::from_sat(100_000), script_pubkey: desc.script_pubkey() };

    let leaf_script = match &desc {
        Descriptor::Tr(tr) => tr.leaves().next().unwrap().miniscript().encode(),
        _ => unreachable!(),
    };
    let leaf_hash = TapLeafHash::from_script(&leaf_script, LeafVersion::TapScript);

    let mut tx = spending_tx();
    let sighash = SighashCache::new(&tx)
        .taproot_script_spend_signature_hash(
            0,
            &Prevouts::All(&[prevout.clone()]),
            leaf_hash,
            TapSighashType::Default,
        )
        .unwrap();
    let msg = secp256k1::Message::from_digest(sighash.to_byte_array());
    let sig = secp.sign_schnorr_no_aux_rand(&msg, &leaf_key);
    let sat = TapSat {
        key_sig: None,
        leaf_sigs: vec![(
            lxo,
            leaf_hash,
            taproot::Signature { signature: sig, sighash_type: TapSighashType::Default },
        )],
    };
    desc.satisfy(&mut tx.input[0], &sat).unwrap();
    assert_eq!(tx.input[0].witness.len(), 3); // sig, script, control block

    let ok = interpret(&secp, &tx, &prevout).expect("library satisfaction must be accepted");
    assert!(matches!(
        ok[..],
        [SatisfiedConstraint::PublicKey { key_sig: KeySigPair::Schnorr(..) }]
    ));

    append_zero_sighash(&mut tx, 0);

    let res = interpret(&secp, &tx, &prevout);
    // BIP342 uses the BIP341 signature validation rules for OP_CHECKSIG: a 65-byte signature with
    // hash_type 0x00 makes the script fail (a non-empty invalid signature aborts tapscript
    // execution).
    assert!(
        res.is_err(),
        "interpreter accepted a tapscript spend with a 65-byte signature ending in 0x00, \
         which BIP341/342 declare invalid; reported constraints: {:?}",
        res
    );
}
