// C13 audit, finding 3.
//
// `older(n)` (`<n> OP_CHECKSEQUENCEVERIFY`) in a transaction whose nVersion is 1.
//
// BIP112: OP_CHECKSEQUENCEVERIFY fails the script when "the transaction version is less than 2"
// (Bitcoin Core, `GenericTransactionSignatureChecker::CheckSequence`:
// `if (static_cast<uint32_t>(txTo->nVersion) < 2) return false;`), because BIP68 does not give
// nSequence a relative-lock-time meaning for such transactions.  The interpreter gets the spending
// transaction (`Interpreter::iter(secp, tx, ..)` verifies the signatures against it), but never
// looks at `tx.version`: it accepts the spend and reports `RelativeTimelock { n }` as a satisfied
// condition, i.e. as something "the executed path checked", although real execution aborts at
// exactly that opcode.
//
// Everything else about the spend is what the library itself produces: the witness comes from
// `Descriptor::satisfy` with the (signature map, `Sequence`) satisfier, the ECDSA signature is a
// valid BIP143 signature of the version-1 transaction.

use std::collections::HashMap;
use std::str::FromStr;

use miniscript::bitcoin::hashes::Hash;
use miniscript::bitcoin::secp256k1::{self, Secp256k1};
use miniscript::bitcoin::sighash::{Prevouts, SighashCache};
use miniscript::bitcoin::{
    self, absolute, ecdsa, transaction, Amount, EcdsaSighashType, OutPoint, ScriptBuf, Sequence,
    Transaction, TxIn, TxOut, Txid, Witness,
};
use miniscript::interpreter::{Interpreter, SatisfiedConstraint};
use miniscript::{Descriptor, Miniscript, Segwitv0};

fn run(version: transaction::Version) -> Result<Vec<SatisfiedConstraint>, String> {
    let secp = Secp256k1::new();
    let sk = secp256k1::SecretKey::from_slice(&[0x42; 32]).unwrap();
    let pk = bitcoin::PublicKey::new(secp256k1::PublicKey::from_secret_key(&secp, &sk));

    // `Miniscript::from_str` validates against `Segwitv0::SANE`: the descriptor is sane.
    let ms = Miniscript::<bitcoin::PublicKey, Segwitv0>::from_str(&format!(
        "and_v(v:pk({}),older(10))",
        pk
    ))
    .unwrap();
    let desc = Descriptor::new_wsh(ms).unwrap();
    let prevout = TxOut { value: Amount::from_sat(100_000), script_pubkey: desc.script_pubkey() };

    let mut tx = Transaction {
        version,
        lock_time: absolute::LockTime::ZERO,
        input: vec![TxIn {
            previous_output: OutPoint { txid: Txid::all_zeros(), vout: 0 },
            script_sig: ScriptBuf::new(),
            sequence: Sequence::from_height(10), // exactly the script's relative lock
            witness: Witness::new(),
        }],
        output: vec![TxOut { value: Amount::from_sat(90_000), script_pubkey: ScriptBuf::new() }],
    };

    // BIP143 signature over this very transaction (nVersion is part of the digest).
    let witness_script = desc.explicit_script().unwrap();
    let sighash = SighashCache::new(&tx)
        .p2wsh_signature_hash(0, &witness_script, prevout.value, EcdsaSighashType::All)
        .unwrap();
    let msg = secp256k1::Message::from_digest(sighash.to_byte_array());
    let sig = ecdsa::Signature { signature: secp.sign_ecdsa(&msg, &sk), sighash_type: EcdsaSighashType::All };
    let mut sigs = HashMap::new();
    sigs.insert(pk, sig);

    // The library's own satisfier: signatures + "this is the input's nSequence".
    let seq = tx.input[0].sequence;
    desc.satisfy(&mut tx.input[0], (sigs, seq)).map_err(|e| format!("satisfy: {}", e))?;

    let interp = Interpreter::from_txdata(
        &prevout.script_pubkey,
        &tx.input[0].script_sig,
        &tx.input[0].witness,
        tx.input[0].sequence,
        tx.lock_time,
    )
    .map_err(|e| format!("from_txdata: {}", e))?;
    let prevouts = [prevout.clone()];
    let prevouts = Prevouts::All(&prevouts);
    // real signature verification against `tx`
    let res: Result<Vec<_>, _> = interp.iter(&secp, &tx, 0, &prevouts).collect();
    res.map_err(|e| format!("interpreter: {}", e))
}

#[test]
fn csv_in_a_version_2_transaction_is_accepted() {
    // Control: BIP68/112 apply, the lock is met, the spend is valid.
    let ok = run(transaction::Version::TWO).expect("valid spend must be accepted");
    assert_eq!(ok.len(), 2);
    assert!(ok.iter().any(|c| matches!(c, SatisfiedConstraint::RelativeTimelock { .. })));
}

#[test]
fn csv_in_a_version_1_transaction_must_be_rejected() {
    let res = run(transaction::Version::ONE);
    // BIP112: "the transaction version is less than 2" => OP_CHECKSEQUENCEVERIFY fails => the real
    // script rejects the spend.  C13: whatever the interpreter accepts, real execution accepts.
    assert!(
        res.is_err(),
        "interpreter accepted an `older(10)` spend in an nVersion=1 transaction and reported the \
         relative time lock as checked; BIP112 makes OP_CHECKSEQUENCEVERIFY fail there: {:?}",
        res
    );
}
