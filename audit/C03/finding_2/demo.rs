//! C03 audit, finding 2 -- standalone integration test (copy to tests/audit_2.rs).
//!
//! Layout of this file:
//!   1. `mod oracle`  -- an independent Script interpreter (Core's consensus rules + the standard
//!                       script verification flags + the witness standardness limits), real
//!                       ECDSA / Schnorr verification against real sighashes;
//!   2. `mod driver`  -- the honest owner (real signatures) and the exhaustive third-party search;
//!   3. the property check `assert_c03` and the tests of this finding (at the very end).
//!
//! The tests FAIL on the unchanged tree; every test first checks that the descriptor passes the
//! library's default sanity rules and returns (passes) if it does not.

// ---------------------------------------------------------------------------------------------
// Independent acceptance oracle: a small Bitcoin Script interpreter with Core's consensus rules
// plus the standardness flags (STANDARD_SCRIPT_VERIFY_FLAGS) and the witness standardness
// limits of policy.cpp, restricted to the opcodes Miniscript can emit.  Signatures are really
// verified with libsecp256k1 against sighashes computed by rust-bitcoin's `SighashCache`.
// Nothing from the `miniscript` crate is used to decide whether a witness is accepted.
// ---------------------------------------------------------------------------------------------
#[allow(dead_code)]
mod oracle {
    use std::cell::RefCell;
    use std::collections::HashMap;

    use miniscript::bitcoin;
    use bitcoin::hashes::{hash160, ripemd160, sha256, sha256d, Hash};
    use bitcoin::opcodes::all as op;
    use bitcoin::script::Instruction;
    use bitcoin::secp256k1::{self, Secp256k1};
    use bitcoin::sighash::{Prevouts, SighashCache};
    use bitcoin::taproot::{ControlBlock, LeafVersion, TapLeafHash};
    use bitcoin::{Script, ScriptBuf, Transaction, TxOut};

    #[derive(Debug, Clone, PartialEq, Eq)]
    pub enum Reject {
        /// The script tried to read below the bottom of the supplied stack: a longer witness
        /// with the same top elements might be accepted.
        NeedMore,
        /// Rejected by a consensus or standardness rule.
        Fail(String),
    }
    fn fail<T>(s: &str) -> Result<T, Reject> { Err(Reject::Fail(s.to_owned())) }

    #[derive(Copy, Clone, PartialEq, Eq, Debug)]
    pub enum SigVersion {
        Base,
        WitnessV0,
        Tapscript,
    }

    pub struct Ctx<'a> {
        pub tx: &'a Transaction,
        pub idx: usize,
        pub prevouts: &'a [TxOut],
        pub secp: Secp256k1<secp256k1::VerifyOnly>,
        cache: RefCell<HashMap<(Vec<u8>, Vec<u8>, Vec<u8>), bool>>,
    }

    impl<'a> Ctx<'a> {
        pub fn new(tx: &'a Transaction, idx: usize, prevouts: &'a [TxOut]) -> Self {
            Ctx {
                tx,
                idx,
                prevouts,
                secp: Secp256k1::verification_only(),
                cache: RefCell::new(HashMap::new()),
            }
        }
    }

    fn cast_to_bool(v: &[u8]) -> bool {
        for (i, b) in v.iter().enumerate() {
            if *b != 0 {
                return !(i == v.len() - 1 && *b == 0x80);
            }
        }
        false
    }

    // CScriptNum with fRequireMinimal = true
    fn script_num(v: &[u8], max: usize) -> Result<i64, Reject> {
        if v.len() > max {
            return fail("script number overflow");
        }
        if let Some(&last) = v.last() {
            if last & 0x7f == 0 && (v.len() <= 1 || v[v.len() - 2] & 0x80 == 0) {
                return fail("non-minimally encoded script number");
            }
        } else {
            return Ok(0);
        }
        let mut r: i64 = 0;
        for (i, b) in v.iter().enumerate() {
            r |= (*b as i64) << (8 * i);
        }
        if v[v.len() - 1] & 0x80 != 0 {
            r &= !(0x80i64 << (8 * (v.len() - 1)));
            r = -r;
        }
        Ok(r)
    }

    fn num_to_vec(n: i64) -> Vec<u8> {
        if n == 0 {
            return vec![];
        }
        let neg = n < 0;
        let mut a = n.unsigned_abs();
        let mut v = vec![];
        while a > 0 {
            v.push((a & 0xff) as u8);
            a >>= 8;
        }
        if v[v.len() - 1] & 0x80 != 0 {
            v.push(if neg { 0x80 } else { 0 });
        } else if neg {
            let l = v.len();
            v[l - 1] |= 0x80;
        }
        v
    }

    struct Stack(Vec<Vec<u8>>);
    impl Stack {
        fn pop(&mut self) -> Result<Vec<u8>, Reject> { self.0.pop().ok_or(Reject::NeedMore) }
        fn top(&self, back: usize) -> Result<&Vec<u8>, Reject> {
            if self.0.len() <= back {
                Err(Reject::NeedMore)
            } else {
                Ok(&self.0[self.0.len() - 1 - back])
            }
        }
        fn push(&mut self, v: Vec<u8>) { self.0.push(v) }
        fn push_bool(&mut self, b: bool) { self.0.push(if b { vec![1] } else { vec![] }) }
    }

    // IsValidSignatureEncoding (BIP66) + low S + defined hashtype
    fn check_ecdsa_sig_encoding(sig: &[u8]) -> Result<(), Reject> {
        let l = sig.len();
        if l < 9 || l > 73 || sig[0] != 0x30 || sig[1] as usize != l - 3 {
            return fail("non-DER signature");
        }
        let len_r = sig[3] as usize;
        if 5 + len_r >= l {
            return fail("non-DER signature");
        }
        let len_s = sig[5 + len_r] as usize;
        if len_r + len_s + 7 != l
            || sig[2] != 2
            || len_r == 0
            || sig[4] & 0x80 != 0
            || (len_r > 1 && sig[4] == 0 && sig[5] & 0x80 == 0)
            || sig[len_r + 4] != 2
            || len_s == 0
            || sig[len_r + 6] & 0x80 != 0
            || (len_s > 1 && sig[len_r + 6] == 0 && sig[len_r + 7] & 0x80 == 0)
        {
            return fail("non-DER signature");
        }
        let parsed = secp256k1::ecdsa::Signature::from_der(&sig[..l - 1])
            .map_err(|_| Reject::Fail("non-DER signature".into()))?;
        let mut norm = parsed;
        norm.normalize_s();
        if norm != parsed {
            return fail("high-S signature (SCRIPT_VERIFY_LOW_S)");
        }
        let ht = sig[l - 1] & !0x80;
        if !(1..=3).contains(&ht) {
            return fail("undefined sighash type (SCRIPT_VERIFY_STRICTENC)");
        }
        Ok(())
    }

    fn check_pubkey_encoding(pk: &[u8], ver: SigVersion) -> Result<(), Reject> {
        let compressed = pk.len() == 33 && (pk[0] == 2 || pk[0] == 3);
        let uncompressed = pk.len() == 65 && pk[0] == 4;
        if !compressed && !uncompressed {
            return fail("bad public key encoding (SCRIPT_VERIFY_STRICTENC)");
        }
        if ver == SigVersion::WitnessV0 && !compressed {
            return fail("uncompressed key in segwit (SCRIPT_VERIFY_WITNESS_PUBKEYTYPE)");
        }
        Ok(())
    }

    pub struct Exec<'c, 'a> {
        pub ctx: &'c Ctx<'a>,
        pub ver: SigVersion,
        /// scriptCode for Base / WitnessV0 signatures (the whole script, no OP_CODESEPARATOR)
        pub script_code: ScriptBuf,
        pub leaf_hash: Option<TapLeafHash>,
        pub sigops_budget: i64,
    }

    impl<'c, 'a> Exec<'c, 'a> {
        fn verify_ecdsa(&self, sig: &[u8], pk: &[u8]) -> bool {
            let key = (sig.to_vec(), pk.to_vec(), self.script_code.to_bytes());
            if let Some(r) = self.ctx.cache.borrow().get(&key) {
                return *r;
            }
            let r = (|| {
                let pk = secp256k1::PublicKey::from_slice(pk).ok()?;
                let s = secp256k1::ecdsa::Signature::from_der(&sig[..sig.len() - 1]).ok()?;
                let ht = sig[sig.len() - 1] as u32;
                let cache = SighashCache::new(self.ctx.tx);
                let digest: [u8; 32] = match self.ver {
                    SigVersion::Base => cache
                        .legacy_signature_hash(self.ctx.idx, &self.script_code, ht)
                        .ok()?
                        .to_byte_array(),
                    SigVersion::WitnessV0 => {
                        let mut cache = cache;
                        cache
                            .p2wsh_signature_hash(
                                self.ctx.idx,
                                &self.script_code,
                                self.ctx.prevouts[self.ctx.idx].value,
                                bitcoin::EcdsaSighashType::from_consensus(ht),
                            )
                            .ok()?
                            .to_byte_array()
                    }
                    SigVersion::Tapscript => return None,
                };
                let msg = secp256k1::Message::from_digest(digest);
                Some(self.ctx.secp.verify_ecdsa(&msg, &s, &pk).is_ok())
            })()
            .unwrap_or(false);
            self.ctx.cache.borrow_mut().insert(key, r);
            r
        }

        /// BIP342 signature validation; `Ok(false)` only for the empty signature.
        fn verify_schnorr_tapscript(&mut self, sig: &[u8], pk: &[u8]) -> Result<bool, Reject> {
            if pk.is_empty() {
                return fail("empty public key in tapscript");
            }
            if sig.is_empty() {
                return Ok(false);
            }
            self.sigops_budget -= 50;
            if self.sigops_budget < 0 {
                return fail("tapscript sigops budget exceeded");
            }
            if pk.len() != 32 {
                return fail("unknown public key type (DISCOURAGE_UPGRADABLE_PUBKEYTYPE)");
            }
            let lh = self.leaf_hash.unwrap();
            let ok = verify_schnorr(self.ctx, sig, pk, Some(lh));
            if !ok {
                return fail("invalid Schnorr signature in tapscript (consensus failure)");
            }
            Ok(true)
        }

        pub fn eval(&mut self, script: &Script, init: Vec<Vec<u8>>) -> Result<(), Reject> {
            let mut st = Stack(init);
            let mut alt: Vec<Vec<u8>> = vec![];
            let mut vf: Vec<bool> = vec![];
            let mut opcount = 0usize;
            if self.ver != SigVersion::Tapscript && script.len() > 10_000 {
                return fail("script too large");
            }
            for ins in script.instructions() {
                let ins = ins.map_err(|_| Reject::Fail("bad script encoding".into()))?;
                let exec = vf.iter().all(|b| *b);
                match ins {
                    Instruction::PushBytes(pb) => {
                        if pb.len() > 520 {
                            return fail("push size");
                        }
                        if exec {
                            st.push(pb.as_bytes().to_vec());
                        }
                    }
                    Instruction::Op(o) => {
                        let code = o.to_u8();
                        if code > 0x60 && self.ver != SigVersion::Tapscript {
                            opcount += 1;
                            if opcount > 201 {
                                return fail("op count");
                            }
                        }
                        let is_cond = o == op::OP_IF
                            || o == op::OP_NOTIF
                            || o == op::OP_ELSE
                            || o == op::OP_ENDIF;
                        if !exec && !is_cond {
                            continue;
                        }
                        if code == 0x4f {
                            st.push(num_to_vec(-1));
                        } else if (0x51..=0x60).contains(&code) {
                            st.push(num_to_vec((code - 0x50) as i64));
                        } else if o == op::OP_IF || o == op::OP_NOTIF {
                            let mut v = false;
                            if exec {
                                let top = st.pop()?;
                                // consensus in tapscript, SCRIPT_VERIFY_MINIMALIF in segwit v0
                                if self.ver != SigVersion::Base
                                    && !(top.is_empty() || top == [1u8])
                                {
                                    return fail("non-minimal IF argument (MINIMALIF)");
                                }
                                v = cast_to_bool(&top);
                                if o == op::OP_NOTIF {
                                    v = !v;
                                }
                            }
                            vf.push(v);
                        } else if o == op::OP_ELSE {
                            match vf.last_mut() {
                                Some(b) => *b = !*b,
                                None => return fail("unbalanced conditional"),
                            }
                        } else if o == op::OP_ENDIF {
                            if vf.pop().is_none() {
                                return fail("unbalanced conditional");
                            }
                        } else if o == op::OP_VERIFY {
                            if !cast_to_bool(&st.pop()?) {
                                return fail("OP_VERIFY failed");
                            }
                        } else if o == op::OP_TOALTSTACK {
                            let v = st.pop()?;
                            alt.push(v);
                        } else if o == op::OP_FROMALTSTACK {
                            match alt.pop() {
                                Some(v) => st.push(v),
                                None => return fail("altstack underflow"),
                            }
                        } else if o == op::OP_IFDUP {
                            let v = st.top(0)?.clone();
                            if cast_to_bool(&v) {
                                st.push(v);
                            }
                        } else if o == op::OP_DUP {
                            let v = st.top(0)?.clone();
                            st.push(v);
                        } else if o == op::OP_DROP {
                            st.pop()?;
                        } else if o == op::OP_SWAP {
                            let a = st.pop()?;
                            let b = match st.pop() {
                                Ok(b) => b,
                                Err(e) => return Err(e),
                            };
                            st.push(a);
                            st.push(b);
                        } else if o == op::OP_SIZE {
                            let n = st.top(0)?.len();
                            st.push(num_to_vec(n as i64));
                        } else if o == op::OP_EQUAL || o == op::OP_EQUALVERIFY {
                            let a = st.pop()?;
                            let b = st.pop()?;
                            let eq = a == b;
                            if o == op::OP_EQUALVERIFY {
                                if !eq {
                                    return fail("OP_EQUALVERIFY failed");
                                }
                            } else {
                                st.push_bool(eq);
                            }
                        } else if o == op::OP_0NOTEQUAL {
                            let a = script_num(&st.pop()?, 4)?;
                            st.push_bool(a != 0);
                        } else if o == op::OP_ADD
                            || o == op::OP_BOOLAND
                            || o == op::OP_BOOLOR
                            || o == op::OP_NUMEQUAL
                            || o == op::OP_NUMEQUALVERIFY
                        {
                            let b = st.pop()?;
                            let a = st.pop()?;
                            let b = script_num(&b, 4)?;
                            let a = script_num(&a, 4)?;
                            if o == op::OP_ADD {
                                st.push(num_to_vec(a + b));
                            } else if o == op::OP_BOOLAND {
                                st.push_bool(a != 0 && b != 0);
                            } else if o == op::OP_BOOLOR {
                                st.push_bool(a != 0 || b != 0);
                            } else if o == op::OP_NUMEQUAL {
                                st.push_bool(a == b);
                            } else if a != b {
                                return fail("OP_NUMEQUALVERIFY failed");
                            }
                        } else if o == op::OP_RIPEMD160 {
                            let v = st.pop()?;
                            st.push(ripemd160::Hash::hash(&v).to_byte_array().to_vec());
                        } else if o == op::OP_SHA256 {
                            let v = st.pop()?;
                            st.push(sha256::Hash::hash(&v).to_byte_array().to_vec());
                        } else if o == op::OP_HASH160 {
                            let v = st.pop()?;
                            st.push(hash160::Hash::hash(&v).to_byte_array().to_vec());
                        } else if o == op::OP_HASH256 {
                            let v = st.pop()?;
                            st.push(sha256d::Hash::hash(&v).to_byte_array().to_vec());
                        } else if o == op::OP_CLTV {
                            // BIP65
                            let n = script_num(st.top(0)?, 5)?;
                            if n < 0 {
                                return fail("negative locktime");
                            }
                            let txlt = self.ctx.tx.lock_time.to_consensus_u32() as i64;
                            if (n < 500_000_000) != (txlt < 500_000_000) {
                                return fail("CLTV: locktime type mismatch");
                            }
                            if n > txlt {
                                return fail("CLTV: locktime not reached");
                            }
                            if self.ctx.tx.input[self.ctx.idx].sequence.0 == 0xffff_ffff {
                                return fail("CLTV: input is final");
                            }
                        } else if o == op::OP_CSV {
                            // BIP112
                            let n = script_num(st.top(0)?, 5)?;
                            if n < 0 {
                                return fail("negative sequence");
                            }
                            if n & (1 << 31) == 0 {
                                let seq = self.ctx.tx.input[self.ctx.idx].sequence.0 as i64;
                                if self.ctx.tx.version.0 < 2 {
                                    return fail("CSV: tx version < 2");
                                }
                                if seq & (1 << 31) != 0 {
                                    return fail("CSV: sequence disable flag set");
                                }
                                let mask = (1i64 << 22) | 0xffff;
                                let (a, b) = (n & mask, seq & mask);
                                if (a < (1 << 22)) != (b < (1 << 22)) {
                                    return fail("CSV: sequence type mismatch");
                                }
                                if a > b {
                                    return fail("CSV: sequence not reached");
                                }
                            } else {
                                return fail("CSV with disable flag (DISCOURAGE_UPGRADABLE_NOPS)");
                            }
                        } else if o == op::OP_CHECKSIG || o == op::OP_CHECKSIGVERIFY {
                            let pk = st.pop()?;
                            let sig = st.pop()?;
                            let ok = if self.ver == SigVersion::Tapscript {
                                self.verify_schnorr_tapscript(&sig, &pk)?
                            } else {
                                if !sig.is_empty() {
                                    check_ecdsa_sig_encoding(&sig)?;
                                }
                                check_pubkey_encoding(&pk, self.ver)?;
                                let ok = !sig.is_empty() && self.verify_ecdsa(&sig, &pk);
                                if !ok && !sig.is_empty() {
                                    return fail("failed CHECKSIG with non-empty signature (NULLFAIL)");
                                }
                                ok
                            };
                            if o == op::OP_CHECKSIGVERIFY {
                                if !ok {
                                    return fail("OP_CHECKSIGVERIFY failed");
                                }
                            } else {
                                st.push_bool(ok);
                            }
                        } else if o == op::OP_CHECKSIGADD {
                            if self.ver != SigVersion::Tapscript {
                                return fail("OP_CHECKSIGADD outside tapscript");
                            }
                            let pk = st.pop()?;
                            let n = st.pop()?;
                            let sig = st.pop()?;
                            let n = script_num(&n, 4)?;
                            let ok = self.verify_schnorr_tapscript(&sig, &pk)?;
                            st.push(num_to_vec(n + ok as i64));
                        } else if o == op::OP_CHECKMULTISIG || o == op::OP_CHECKMULTISIGVERIFY {
                            if self.ver == SigVersion::Tapscript {
                                return fail("OP_CHECKMULTISIG in tapscript");
                            }
                            let nk = script_num(&st.pop()?, 4)?;
                            if !(0..=20).contains(&nk) {
                                return fail("pubkey count");
                            }
                            opcount += nk as usize;
                            if opcount > 201 {
                                return fail("op count");
                            }
                            let mut keys = vec![];
                            for _ in 0..nk {
                                keys.push(st.pop()?);
                            }
                            let ns = script_num(&st.pop()?, 4)?;
                            if ns < 0 || ns > nk {
                                return fail("sig count");
                            }
                            let mut sigs = vec![];
                            for _ in 0..ns {
                                sigs.push(st.pop()?);
                            }
                            let dummy = st.pop()?;
                            // keys / sigs are now in top-to-bottom order, like Core walks them
                            let (mut ik, mut is) = (0usize, 0usize);
                            let mut success = true;
                            while success && is < sigs.len() {
                                if keys.len() - ik < sigs.len() - is {
                                    success = false;
                                    break;
                                }
                                let sig = &sigs[is];
                                let pk = &keys[ik];
                                if !sig.is_empty() {
                                    check_ecdsa_sig_encoding(sig)?;
                                }
                                check_pubkey_encoding(pk, self.ver)?;
                                if !sig.is_empty() && self.verify_ecdsa(sig, pk) {
                                    is += 1;
                                }
                                ik += 1;
                                if keys.len() - ik < sigs.len() - is {
                                    success = false;
                                }
                            }
                            if !success && sigs.iter().any(|s| !s.is_empty()) {
                                return fail("failed CHECKMULTISIG with non-empty signature (NULLFAIL)");
                            }
                            if !dummy.is_empty() {
                                return fail("non-null CHECKMULTISIG dummy (NULLDUMMY)");
                            }
                            if o == op::OP_CHECKMULTISIGVERIFY {
                                if !success {
                                    return fail("OP_CHECKMULTISIGVERIFY failed");
                                }
                            } else {
                                st.push_bool(success);
                            }
                        } else {
                            return Err(Reject::Fail(format!("opcode {} not modelled", o)));
                        }
                    }
                }
                if st.0.len() + alt.len() > 1000 {
                    return fail("stack size");
                }
                if let Some(top) = st.0.last() {
                    if top.len() > 520 {
                        return fail("element size");
                    }
                }
            }
            if !vf.is_empty() {
                return fail("unbalanced conditional");
            }
            // CLEANSTACK (consensus for witness programs, standardness for P2SH/bare)
            if st.0.is_empty() {
                return Err(Reject::NeedMore);
            }
            if st.0.len() != 1 {
                return fail("stack not clean after execution (CLEANSTACK)");
            }
            if !cast_to_bool(&st.0[0]) {
                return fail("script evaluated to false");
            }
            Ok(())
        }
    }

    /// BIP341/342 Schnorr signature check (key path when `leaf` is `None`).
    pub fn verify_schnorr(ctx: &Ctx, sig: &[u8], pk: &[u8], leaf: Option<TapLeafHash>) -> bool {
        let key = (sig.to_vec(), pk.to_vec(), leaf.map(|l| l.to_byte_array().to_vec()).unwrap_or_default());
        if let Some(r) = ctx.cache.borrow().get(&key) {
            return *r;
        }
        let r = (|| {
            let (s, ht) = match sig.len() {
                64 => (sig, bitcoin::TapSighashType::Default),
                65 => {
                    if sig[64] == 0 {
                        return None;
                    }
                    (&sig[..64], bitcoin::TapSighashType::from_consensus_u8(sig[64]).ok()?)
                }
                _ => return None,
            };
            let s = secp256k1::schnorr::Signature::from_slice(s).ok()?;
            let pk = secp256k1::XOnlyPublicKey::from_slice(pk).ok()?;
            let mut cache = SighashCache::new(ctx.tx);
            let prevouts = Prevouts::All(ctx.prevouts);
            let digest = match leaf {
                Some(lh) => cache
                    .taproot_script_spend_signature_hash(ctx.idx, &prevouts, lh, ht)
                    .ok()?
                    .to_byte_array(),
                None => cache
                    .taproot_key_spend_signature_hash(ctx.idx, &prevouts, ht)
                    .ok()?
                    .to_byte_array(),
            };
            let msg = secp256k1::Message::from_digest(digest);
            Some(ctx.secp.verify_schnorr(&s, &msg, &pk).is_ok())
        })()
        .unwrap_or(false);
        ctx.cache.borrow_mut().insert(key, r);
        r
    }

    fn witness_program(spk: &Script) -> Option<(u8, Vec<u8>)> {
        let b = spk.as_bytes();
        if b.len() < 4 || b.len() > 42 {
            return None;
        }
        let v = match b[0] {
            0 => 0,
            0x51..=0x60 => b[0] - 0x50,
            _ => return None,
        };
        if b[1] as usize + 2 == b.len() && (2..=40).contains(&(b[1] as usize)) {
            Some((v, b[2..].to_vec()))
        } else {
            None
        }
    }

    /// scriptSig evaluation under SIGPUSHONLY + MINIMALDATA
    fn push_only_stack(script_sig: &Script) -> Result<Vec<Vec<u8>>, Reject> {
        let mut st = vec![];
        for ins in script_sig.instructions_minimal() {
            match ins.map_err(|_| Reject::Fail("non-minimal push in scriptSig (MINIMALDATA)".into()))? {
                Instruction::PushBytes(pb) => st.push(pb.as_bytes().to_vec()),
                Instruction::Op(o) => {
                    let c = o.to_u8();
                    if c == 0x4f {
                        st.push(num_to_vec(-1));
                    } else if (0x51..=0x60).contains(&c) {
                        st.push(num_to_vec((c - 0x50) as i64));
                    } else {
                        return fail("scriptSig is not push-only (SIGPUSHONLY)");
                    }
                }
            }
        }
        Ok(st)
    }

    fn verify_witness_program(
        ctx: &Ctx,
        ver: u8,
        prog: &[u8],
        witness: &[Vec<u8>],
    ) -> Result<(), Reject> {
        if ver == 0 && prog.len() == 32 {
            let (script, stack) = match witness.split_last() {
                Some(x) => x,
                None => return fail("empty witness"),
            };
            if sha256::Hash::hash(script).to_byte_array()[..] != prog[..] {
                return fail("witness program mismatch");
            }
            // policy.cpp IsWitnessStandard
            if script.len() > 3600 || stack.len() > 100 || stack.iter().any(|e| e.len() > 80) {
                return fail("non-standard P2WSH witness (size limits)");
            }
            let script = ScriptBuf::from_bytes(script.clone());
            let mut ex = Exec {
                ctx,
                ver: SigVersion::WitnessV0,
                script_code: script.clone(),
                leaf_hash: None,
                sigops_budget: 0,
            };
            ex.eval(&script, stack.to_vec())
        } else if ver == 0 && prog.len() == 20 {
            if witness.len() < 2 {
                return Err(Reject::NeedMore);
            }
            if witness.len() != 2 {
                return fail("P2WPKH witness must have two elements");
            }
            let script = ScriptBuf::builder()
                .push_opcode(op::OP_DUP)
                .push_opcode(op::OP_HASH160)
                .push_slice(<[u8; 20]>::try_from(prog).unwrap())
                .push_opcode(op::OP_EQUALVERIFY)
                .push_opcode(op::OP_CHECKSIG)
                .into_script();
            let mut ex = Exec {
                ctx,
                ver: SigVersion::WitnessV0,
                script_code: script.clone(),
                leaf_hash: None,
                sigops_budget: 0,
            };
            ex.eval(&script, witness.to_vec())
        } else if ver == 1 && prog.len() == 32 {
            let mut stack = witness.to_vec();
            if stack.is_empty() {
                return fail("empty witness");
            }
            if stack.len() >= 2 && stack.last().unwrap().first() == Some(&0x50) {
                return fail("taproot annex is non-standard");
            }
            if stack.len() == 1 {
                if verify_schnorr(ctx, &stack[0], prog, None) {
                    Ok(())
                } else {
                    fail("invalid key-path signature")
                }
            } else {
                let cb = stack.pop().unwrap();
                let script = stack.pop().unwrap();
                let cbp = ControlBlock::decode(&cb)
                    .map_err(|_| Reject::Fail("bad control block".into()))?;
                let out_key = secp256k1::XOnlyPublicKey::from_slice(prog)
                    .map_err(|_| Reject::Fail("bad output key".into()))?;
                let script = ScriptBuf::from_bytes(script);
                if !cbp.verify_taproot_commitment(&ctx.secp, out_key, &script) {
                    return fail("taproot commitment mismatch");
                }
                if cbp.leaf_version != LeafVersion::TapScript {
                    return fail("unknown leaf version (DISCOURAGE_UPGRADABLE_TAPROOT_VERSION)");
                }
                if stack.iter().any(|e| e.len() > 80) {
                    return fail("non-standard tapscript stack item size");
                }
                let wit_size: usize = {
                    // serialized witness size, BIP342 sigops budget
                    let mut w = bitcoin::Witness::new();
                    for e in witness {
                        w.push(e);
                    }
                    bitcoin::consensus::serialize(&w).len()
                };
                let lh = TapLeafHash::from_script(&script, LeafVersion::TapScript);
                let mut ex = Exec {
                    ctx,
                    ver: SigVersion::Tapscript,
                    script_code: ScriptBuf::new(),
                    leaf_hash: Some(lh),
                    sigops_budget: 50 + wit_size as i64,
                };
                ex.eval(&script, stack)
            }
        } else {
            fail("unknown witness program (DISCOURAGE_UPGRADABLE_WITNESS_PROGRAM)")
        }
    }

    pub fn parse_script_sig(script_sig: &Script) -> Result<Vec<Vec<u8>>, Reject> {
        push_only_stack(script_sig)
    }

    /// VerifyScript for input `ctx.idx`.  `sig_stack` is the stack left by the (push-only,
    /// minimally encoded) scriptSig, `witness` the witness stack.  Neither is committed to by
    /// any signature hash, so they are passed separately from `ctx.tx`.
    pub fn verify_spend(ctx: &Ctx, sig_stack: &[Vec<u8>], witness: &[Vec<u8>]) -> Result<(), Reject> {
        let spk = &ctx.prevouts[ctx.idx].script_pubkey;
        if let Some((v, prog)) = witness_program(spk) {
            if !sig_stack.is_empty() {
                return fail("scriptSig must be empty for native witness programs");
            }
            return verify_witness_program(ctx, v, &prog, witness);
        }
        let mut stack = sig_stack.to_vec();
        if spk.is_p2sh() {
            let redeem = match stack.pop() {
                Some(r) => r,
                None => return Err(Reject::NeedMore),
            };
            if hash160::Hash::hash(&redeem).to_byte_array()[..] != spk.as_bytes()[2..22] {
                return fail("redeemScript hash mismatch");
            }
            let redeem = ScriptBuf::from_bytes(redeem);
            if let Some((v, prog)) = witness_program(&redeem) {
                if !stack.is_empty() {
                    return fail("scriptSig malleated for P2SH-witness (WITNESS_MALLEATED_P2SH)");
                }
                return verify_witness_program(ctx, v, &prog, witness);
            }
            if !witness.is_empty() {
                return fail("unexpected witness");
            }
            if stack.iter().any(|e| e.len() > 520) {
                return fail("element size");
            }
            let mut ex = Exec {
                ctx,
                ver: SigVersion::Base,
                script_code: redeem.clone(),
                leaf_hash: None,
                sigops_budget: 0,
            };
            ex.eval(&redeem, stack)
        } else {
            if !witness.is_empty() {
                return fail("unexpected witness");
            }
            let mut ex = Exec {
                ctx,
                ver: SigVersion::Base,
                script_code: spk.clone(),
                leaf_hash: None,
                sigops_budget: 0,
            };
            ex.eval(spk, stack)
        }
    }
}
// ---------------------------------------------------------------------------------------------
// Third-party search driver shared by the demos: owner satisfier (real signatures over a real
// transaction), exhaustive depth-first search over the adversary's alphabet.
// ---------------------------------------------------------------------------------------------
#[allow(dead_code)]
mod driver {
    use std::collections::BTreeSet;

    use super::oracle::{self, Reject};
    use miniscript::bitcoin;
    use bitcoin::hashes::{hash160, ripemd160, sha256, Hash};
    use bitcoin::secp256k1::{self, Secp256k1};
    use bitcoin::sighash::{Prevouts, SighashCache};
    use bitcoin::taproot::TapLeafHash;
    use bitcoin::{
        absolute, relative, transaction, Amount, OutPoint, PublicKey, ScriptBuf, Sequence,
        TapSighashType, Transaction, TxIn, TxOut, Txid, Witness,
    };
    use miniscript::{hash256, Descriptor, MiniscriptKey, Satisfier, ToPublicKey};

    pub type Pk = PublicKey;

    /// Any concrete key type whose hash types are the plain rust-bitcoin ones.
    pub trait Key:
        MiniscriptKey<
            Sha256 = sha256::Hash,
            Hash256 = hash256::Hash,
            Ripemd160 = ripemd160::Hash,
            Hash160 = hash160::Hash,
        > + ToPublicKey
    {
    }
    impl<T> Key for T where
        T: MiniscriptKey<
                Sha256 = sha256::Hash,
                Hash256 = hash256::Hash,
                Ripemd160 = ripemd160::Hash,
                Hash160 = hash160::Hash,
            > + ToPublicKey
    {
    }

    pub struct World {
        pub secp: Secp256k1<secp256k1::All>,
        pub sks: Vec<secp256k1::SecretKey>,
        pub pks: Vec<Pk>,
        pub preimages: Vec<[u8; 32]>,
    }

    impl World {
        pub fn new(nkeys: usize, npre: usize) -> World {
            let secp = Secp256k1::new();
            let mut sks = vec![];
            let mut pks = vec![];
            for i in 0..nkeys {
                let mut b = [0x11u8; 32];
                b[31] = i as u8 + 1;
                b[0] = 0x40 + i as u8;
                let sk = secp256k1::SecretKey::from_slice(&b).unwrap();
                sks.push(sk);
                pks.push(PublicKey::new(secp256k1::PublicKey::from_secret_key(&secp, &sk)));
            }
            let preimages = (0..npre).map(|i| [0xa0 + i as u8; 32]).collect();
            World { secp, sks, pks, preimages }
        }
        pub fn sha256(&self, i: usize) -> sha256::Hash { sha256::Hash::hash(&self.preimages[i]) }
        pub fn hash256(&self, i: usize) -> hash256::Hash { hash256::Hash::hash(&self.preimages[i]) }
        pub fn ripemd160(&self, i: usize) -> ripemd160::Hash {
            ripemd160::Hash::hash(&self.preimages[i])
        }
        pub fn hash160(&self, i: usize) -> hash160::Hash { hash160::Hash::hash(&self.preimages[i]) }
        pub fn sk_for<K: Key>(&self, pk: &K) -> Option<(usize, secp256k1::SecretKey)> {
            let x = pk.to_x_only_pubkey();
            self.pks
                .iter()
                .position(|p| p.to_x_only_pubkey() == x)
                .map(|i| (i, self.sks[i]))
        }
    }

    pub fn spending_tx(version: i32, lock_time: u32, sequence: u32) -> Transaction {
        Transaction {
            version: transaction::Version(version),
            lock_time: absolute::LockTime::from_consensus(lock_time),
            input: vec![TxIn {
                previous_output: OutPoint { txid: Txid::all_zeros(), vout: 0 },
                script_sig: ScriptBuf::new(),
                sequence: Sequence(sequence),
                witness: Witness::new(),
            }],
            output: vec![TxOut {
                value: Amount::from_sat(90_000),
                script_pubkey: ScriptBuf::from_bytes(vec![0x6a]),
            }],
        }
    }

    /// The honest spender: signs (for real) with a subset of the keys, knows a subset of the
    /// preimages, answers the time-lock questions exactly as BIP65 / BIP112 would for `tx`.
    pub struct Owner<'a, K: Key = Pk> {
        pub world: &'a World,
        pub tx: &'a Transaction,
        pub prevouts: &'a [TxOut],
        pub desc: &'a Descriptor<K>,
        pub signers: BTreeSet<usize>,
        pub known: BTreeSet<usize>,
    }

    impl<'a, K: Key> Owner<'a, K> {
        fn preimage_for(&self, f: impl Fn(&[u8; 32]) -> bool) -> Option<[u8; 32]> {
            self.known
                .iter()
                .map(|i| self.world.preimages[*i])
                .find(|p| f(p))
        }
    }

    impl<'a, K: Key> Satisfier<K> for Owner<'a, K> {
        fn lookup_ecdsa_sig(&self, pk: &K) -> Option<bitcoin::ecdsa::Signature> {
            // the same secret key signs for the compressed and the uncompressed encoding
            let i = self.world.pks.iter().position(|p| p.inner == pk.to_public_key().inner)?;
            if !self.signers.contains(&i) {
                return None;
            }
            let code = self.desc.script_code().ok()?;
            let cache = SighashCache::new(self.tx);
            let digest: [u8; 32] = match self.desc {
                Descriptor::Wsh(_) | Descriptor::Wpkh(_) => {
                    let mut cache = cache;
                    cache
                        .p2wsh_signature_hash(
                            0,
                            &code,
                            self.prevouts[0].value,
                            bitcoin::EcdsaSighashType::All,
                        )
                        .unwrap()
                        .to_byte_array()
                }
                Descriptor::Sh(sh) => match sh.as_inner() {
                    miniscript::descriptor::ShInner::Ms(_) => cache
                        .legacy_signature_hash(0, &code, 1)
                        .unwrap()
                        .to_byte_array(),
                    _ => {
                        let mut cache = cache;
                        cache
                            .p2wsh_signature_hash(
                                0,
                                &code,
                                self.prevouts[0].value,
                                bitcoin::EcdsaSighashType::All,
                            )
                            .unwrap()
                            .to_byte_array()
                    }
                },
                _ => cache.legacy_signature_hash(0, &code, 1).unwrap().to_byte_array(),
            };
            let msg = secp256k1::Message::from_digest(digest);
            Some(bitcoin::ecdsa::Signature {
                signature: self.world.secp.sign_ecdsa(&msg, &self.world.sks[i]),
                sighash_type: bitcoin::EcdsaSighashType::All,
            })
        }

        fn lookup_tap_leaf_script_sig(
            &self,
            pk: &K,
            lh: &TapLeafHash,
        ) -> Option<bitcoin::taproot::Signature> {
            let (i, sk) = self.world.sk_for(pk)?;
            if !self.signers.contains(&i) {
                return None;
            }
            let mut cache = SighashCache::new(self.tx);
            let digest = cache
                .taproot_script_spend_signature_hash(
                    0,
                    &Prevouts::All(self.prevouts),
                    *lh,
                    TapSighashType::Default,
                )
                .unwrap()
                .to_byte_array();
            let kp = secp256k1::Keypair::from_secret_key(&self.world.secp, &sk);
            let msg = secp256k1::Message::from_digest(digest);
            Some(bitcoin::taproot::Signature {
                signature: self.world.secp.sign_schnorr_no_aux_rand(&msg, &kp),
                sighash_type: TapSighashType::Default,
            })
        }

        fn lookup_tap_key_spend_sig(&self, pk: &K) -> Option<bitcoin::taproot::Signature> {
            let (i, sk) = self.world.sk_for(pk)?;
            if !self.signers.contains(&i) {
                return None;
            }
            let tr = match self.desc {
                Descriptor::Tr(tr) => tr,
                _ => return None,
            };
            let mut cache = SighashCache::new(self.tx);
            let digest = cache
                .taproot_key_spend_signature_hash(
                    0,
                    &Prevouts::All(self.prevouts),
                    TapSighashType::Default,
                )
                .unwrap()
                .to_byte_array();
            use bitcoin::key::TapTweak;
            let kp = secp256k1::Keypair::from_secret_key(&self.world.secp, &sk);
            let kp = kp.tap_tweak(&self.world.secp, tr.spend_info().merkle_root());
            let msg = secp256k1::Message::from_digest(digest);
            Some(bitcoin::taproot::Signature {
                signature: self.world.secp.sign_schnorr_no_aux_rand(&msg, &kp.to_inner()),
                sighash_type: TapSighashType::Default,
            })
        }

        fn lookup_sha256(&self, h: &sha256::Hash) -> Option<[u8; 32]> {
            self.preimage_for(|p| sha256::Hash::hash(p) == *h)
        }
        fn lookup_hash256(&self, h: &hash256::Hash) -> Option<[u8; 32]> {
            self.preimage_for(|p| hash256::Hash::hash(p) == *h)
        }
        fn lookup_ripemd160(&self, h: &ripemd160::Hash) -> Option<[u8; 32]> {
            self.preimage_for(|p| ripemd160::Hash::hash(p) == *h)
        }
        fn lookup_hash160(&self, h: &hash160::Hash) -> Option<[u8; 32]> {
            self.preimage_for(|p| hash160::Hash::hash(p) == *h)
        }

        fn check_older(&self, n: relative::LockTime) -> bool {
            // BIP112
            let n = n.to_consensus_u32() as i64;
            let seq = self.tx.input[0].sequence.0 as i64;
            if self.tx.version.0 < 2 || seq & (1 << 31) != 0 {
                return false;
            }
            let mask = (1i64 << 22) | 0xffff;
            let (a, b) = (n & mask, seq & mask);
            (a < (1 << 22)) == (b < (1 << 22)) && a <= b
        }

        fn check_after(&self, n: absolute::LockTime) -> bool {
            // BIP65
            let n = n.to_consensus_u32() as i64;
            let lt = self.tx.lock_time.to_consensus_u32() as i64;
            (n < 500_000_000) == (lt < 500_000_000)
                && n <= lt
                && self.tx.input[0].sequence.0 != 0xffff_ffff
        }
    }

    /// A complete way of spending the input, as seen on the wire.
    #[derive(Clone, PartialEq, Eq, Debug)]
    pub struct Spend {
        pub sig_stack: Vec<Vec<u8>>,
        pub witness: Vec<Vec<u8>>,
    }

    pub fn show(s: &Spend) -> String {
        let f = |v: &Vec<Vec<u8>>| {
            v.iter()
                .map(|e| {
                    let hex = |b: &[u8]| b.iter().map(|b| format!("{:02x}", b)).collect::<String>();
                    if e.len() <= 8 {
                        format!("<{}>", hex(e))
                    } else {
                        format!("<{}B:{}..{}>", e.len(), hex(&e[..4]), hex(&e[e.len() - 4..]))
                    }
                })
                .collect::<Vec<_>>()
                .join(" ")
        };
        format!("scriptSig[{}] witness[{}]", f(&s.sig_stack), f(&s.witness))
    }

    /// Depth-first search for every stack over `alphabet` that the oracle accepts when followed
    /// by `suffix`.  The script reads its input from the top, and the oracle reports `NeedMore`
    /// exactly when it would read below the supplied stack; any other rejection cannot be cured
    /// by adding elements underneath, so the search is exhaustive for all lengths <= `max_len`.
    pub fn search(
        accept: &dyn Fn(&[Vec<u8>]) -> Result<(), Reject>,
        alphabet: &[Vec<u8>],
        max_len: usize,
    ) -> Vec<Vec<Vec<u8>>> {
        let mut found = vec![];
        let mut work: Vec<Vec<Vec<u8>>> = vec![vec![]];
        while let Some(st) = work.pop() {
            match accept(&st) {
                Ok(()) => found.push(st),
                Err(Reject::NeedMore) if st.len() < max_len => {
                    for a in alphabet {
                        let mut n = Vec::with_capacity(st.len() + 1);
                        n.push(a.clone());
                        n.extend(st.iter().cloned());
                        work.push(n);
                    }
                }
                Err(_) => {}
            }
        }
        found
    }

    /// Only for the positive control of the fuzz driver (never set by the demos).
    pub static USE_MALLEABLE_MODE: std::sync::atomic::AtomicBool =
        std::sync::atomic::AtomicBool::new(false);

    pub struct Outcome {
        /// what the library's non-malleable satisfier returned (None: it declined)
        pub original: Option<Spend>,
        /// every spend the oracle accepts over the adversary's alphabet
        pub accepted: Vec<Spend>,
        pub original_rejection: Option<String>,
    }

    /// Run the non-malleable satisfier for `owner`, then enumerate everything a third party can
    /// get accepted.
    pub fn third_party_search<K: Key>(
        world: &World,
        desc: &Descriptor<K>,
        tx: &Transaction,
        prevouts: &[TxOut],
        owner: &Owner<K>,
        extra_alphabet: &[Vec<u8>],
    ) -> Outcome {
        let ctx = oracle::Ctx::new(tx, 0, prevouts);
        let res = if USE_MALLEABLE_MODE.load(std::sync::atomic::Ordering::Relaxed) {
            desc.get_satisfaction_mall(owner)
        } else {
            desc.get_satisfaction(owner)
        };
        let original = match res {
            Ok((wit, script_sig)) => {
                let sig_stack = oracle::parse_script_sig(&script_sig)
                    .expect("library produced a non-standard scriptSig");
                Some(Spend { sig_stack, witness: wit })
            }
            Err(_) => None,
        };
        let original = match original {
            Some(o) => o,
            None => return Outcome { original: None, accepted: vec![], original_rejection: None },
        };
        if let Err(e) = oracle::verify_spend(&ctx, &original.sig_stack, &original.witness) {
            return Outcome {
                original: Some(original),
                accepted: vec![],
                original_rejection: Some(format!("{:?}", e)),
            };
        }

        // The adversary's alphabet
        let mut alphabet: Vec<Vec<u8>> = vec![vec![], vec![1], vec![0; 32], vec![2], vec![0x55; 32]];
        for p in &world.preimages {
            alphabet.push(p.to_vec());
        }
        let mut push = |e: Vec<u8>| {
            if !alphabet.contains(&e) {
                alphabet.push(e);
            }
        };
        for e in extra_alphabet {
            push(e.clone());
        }
        use miniscript::ForEachKey;
        let is_tr = matches!(desc, Descriptor::Tr(_));
        desc.for_each_key(|pk| {
            if is_tr {
                push(pk.to_x_only_pubkey().serialize().to_vec());
            } else {
                push(pk.to_public_key().to_bytes());
            }
            true
        });
        // fixed trailing elements (scripts, control blocks) are not "visible signatures"
        let fixed_tail: usize = match desc {
            Descriptor::Wsh(_) => 1,
            Descriptor::Sh(sh) => match sh.as_inner() {
                miniscript::descriptor::ShInner::Wsh(_) => 1,
                _ => 0,
            },
            Descriptor::Tr(_) if original.witness.len() > 1 => 2,
            _ => 0,
        };
        for e in &original.witness[..original.witness.len() - fixed_tail] {
            push(e.clone());
        }
        let p2sh_plain = matches!(desc, Descriptor::Sh(sh) if matches!(sh.as_inner(), miniscript::descriptor::ShInner::Ms(_)));
        if p2sh_plain || matches!(desc, Descriptor::Bare(_) | Descriptor::Pkh(_)) {
            let n = original.sig_stack.len() - usize::from(p2sh_plain);
            for e in &original.sig_stack[..n] {
                push(e.clone());
            }
        }
        let max_len = 2 + original.witness.len().max(original.sig_stack.len()) + 3;

        let mut accepted = vec![];
        match desc {
            Descriptor::Tr(tr) => {
                // key path
                for a in &alphabet {
                    if oracle::verify_spend(&ctx, &[], &[a.clone()]).is_ok() {
                        accepted.push(Spend { sig_stack: vec![], witness: vec![a.clone()] });
                    }
                }
                // every (leaf script, control block) pair that commits to the output key
                let info = tr.spend_info();
                let mut tails: Vec<(Vec<u8>, Vec<u8>)> = vec![];
                for leaf in info.leaves() {
                    let t = (leaf.script().to_bytes(), leaf.control_block().serialize());
                    if !tails.contains(&t) {
                        tails.push(t);
                    }
                }
                for (script, cb) in tails {
                    let acc = |st: &[Vec<u8>]| {
                        let mut w = st.to_vec();
                        w.push(script.clone());
                        w.push(cb.clone());
                        oracle::verify_spend(&ctx, &[], &w)
                    };
                    for st in search(&acc, &alphabet, max_len) {
                        let mut w = st;
                        w.push(script.clone());
                        w.push(cb.clone());
                        accepted.push(Spend { sig_stack: vec![], witness: w });
                    }
                }
            }
            Descriptor::Wsh(_) => {
                let script = original.witness.last().unwrap().clone();
                let acc = |st: &[Vec<u8>]| {
                    let mut w = st.to_vec();
                    w.push(script.clone());
                    oracle::verify_spend(&ctx, &[], &w)
                };
                for st in search(&acc, &alphabet, max_len) {
                    let mut w = st;
                    w.push(script.clone());
                    accepted.push(Spend { sig_stack: vec![], witness: w });
                }
            }
            Descriptor::Wpkh(_) => {
                let acc = |st: &[Vec<u8>]| oracle::verify_spend(&ctx, &[], st);
                for st in search(&acc, &alphabet, max_len) {
                    accepted.push(Spend { sig_stack: vec![], witness: st });
                }
            }
            Descriptor::Sh(sh) => match sh.as_inner() {
                miniscript::descriptor::ShInner::Wsh(_) => {
                    let script = original.witness.last().unwrap().clone();
                    let ss = original.sig_stack.clone();
                    let acc = |st: &[Vec<u8>]| {
                        let mut w = st.to_vec();
                        w.push(script.clone());
                        oracle::verify_spend(&ctx, &ss, &w)
                    };
                    for st in search(&acc, &alphabet, max_len) {
                        let mut w = st;
                        w.push(script.clone());
                        accepted.push(Spend { sig_stack: ss.clone(), witness: w });
                    }
                }
                miniscript::descriptor::ShInner::Wpkh(_) => {
                    let ss = original.sig_stack.clone();
                    let acc = |st: &[Vec<u8>]| oracle::verify_spend(&ctx, &ss, st);
                    for st in search(&acc, &alphabet, max_len) {
                        accepted.push(Spend { sig_stack: ss.clone(), witness: st });
                    }
                }
                _ => {
                    let redeem = original.sig_stack.last().unwrap().clone();
                    let acc = |st: &[Vec<u8>]| {
                        let mut s = st.to_vec();
                        s.push(redeem.clone());
                        oracle::verify_spend(&ctx, &s, &[])
                    };
                    for st in search(&acc, &alphabet, max_len) {
                        let mut s = st;
                        s.push(redeem.clone());
                        accepted.push(Spend { sig_stack: s, witness: vec![] });
                    }
                }
            },
            Descriptor::Bare(_) | Descriptor::Pkh(_) => {
                let acc = |st: &[Vec<u8>]| oracle::verify_spend(&ctx, st, &[]);
                for st in search(&acc, &alphabet, max_len) {
                    accepted.push(Spend { sig_stack: st, witness: vec![] });
                }
            }
        }
        Outcome { original: Some(original), accepted, original_rejection: None }
    }
}
// ---------------------------------------------------------------------------------------------
// The property check shared by the tests below.
// ---------------------------------------------------------------------------------------------
use std::str::FromStr;

use driver::*;
use miniscript::bitcoin;
use miniscript::Descriptor;

/// C03: for a descriptor that passes the default sanity rules, the witness produced in
/// non-malleable mode is the ONLY spend of that input a third party can get accepted under
/// consensus + standardness rules, using public keys, the signatures visible in the original
/// witness, every hash preimage, and arbitrary other byte strings.
///
/// Returns `false` when the satisfier declined (which never hurts the property).
fn assert_c03<K: Key>(world: &World, desc: &Descriptor<K>, signers: &[usize], known: &[usize]) -> bool {
    let prevouts = vec![bitcoin::TxOut {
        value: bitcoin::Amount::from_sat(100_000),
        script_pubkey: desc.script_pubkey(),
    }];
    // version 2, nLockTime 0, nSequence 0xfffffffd: no time lock of any kind is met
    let tx = spending_tx(2, 0, 0xffff_fffd);
    let owner = Owner {
        world,
        tx: &tx,
        prevouts: &prevouts,
        desc,
        signers: signers.iter().cloned().collect(),
        known: known.iter().cloned().collect(),
    };
    let out = third_party_search(world, desc, &tx, &prevouts, &owner, &[]);
    let orig = match out.original {
        Some(o) => o,
        None => return false,
    };
    assert!(
        out.original_rejection.is_none(),
        "the library's own witness is rejected: {:?}",
        out.original_rejection
    );
    assert!(out.accepted.contains(&orig), "harness: original witness not re-found by the search");
    let alts: Vec<String> = out.accepted.iter().filter(|a| **a != orig).map(show).collect();
    assert!(
        alts.is_empty(),
        "C03 violated for the sane descriptor\n  {}\nthe non-malleable satisfier returned\n  {}\nbut a third party that cannot sign gets these different spends of the same input accepted \
         (consensus + standardness rules, real signature checks):\n  {}",
        desc,
        show(&orig),
        alts.join("\n  ")
    );
    true
}
// ---------------------------------------------------------------------------------------------
// Finding 2: a taproot tree may contain the same leaf script twice (e.g. once at depth 1 and
// once at depth 2).  Every leaf is sane, the descriptor parses, yet a signature for that leaf
// (it commits to the leaf hash only, BIP341/342) is valid below *both* control blocks: anybody
// who knows the descriptor swaps the control block, changing wtxid, weight and "path".
// ---------------------------------------------------------------------------------------------
use miniscript::{ScriptContext, Tap};

fn tr_is_sane<K: Key>(desc: &Descriptor<K>) -> bool {
    match desc {
        Descriptor::Tr(tr) => tr.leaves().all(|l| l.miniscript().validate(&Tap::SANE).is_ok()),
        _ => unreachable!(),
    }
}

/// `{pk(A),{pk(A),pk(B)}}`: the library spends through the shallow copy (65-byte control
/// block); the same `<sig> <script>` followed by the 97-byte control block of the deep copy is
/// accepted as well.
#[test]
fn same_leaf_at_two_depths() {
    let world = World::new(4, 1);
    let ds = format!(
        "tr({},{{pk({a}),{{pk({a}),pk({b})}}}})",
        world.pks[0],
        a = world.pks[1],
        b = world.pks[2]
    );
    let desc = match Descriptor::<Pk>::from_str(&ds) {
        Ok(d) => d,
        Err(_) => return, // rejected: nothing to protect
    };
    if !tr_is_sane(&desc) {
        return;
    }
    // (a satisfier that declines is fine for C03)
    assert_c03(&world, &desc, &[1], &[]);
}

/// `{{pk(A),pk(B)},{pk(A),pk(C)}}`: same depth, different merkle paths: the weight stays, the
/// wtxid changes.
#[test]
fn same_leaf_below_two_branches() {
    let world = World::new(4, 1);
    let ds = format!(
        "tr({},{{{{pk({a}),pk({b})}},{{pk({a}),pk({c})}}}})",
        world.pks[0],
        a = world.pks[1],
        b = world.pks[2],
        c = world.pks[3]
    );
    let desc = match Descriptor::<Pk>::from_str(&ds) {
        Ok(d) => d,
        Err(_) => return,
    };
    if !tr_is_sane(&desc) {
        return;
    }
    // (a satisfier that declines is fine for C03)
    assert_c03(&world, &desc, &[1], &[]);
}

/// Control: the same key in two *different* leaf scripts is fine (the signature commits to the
/// leaf hash), and so is the degenerate `{X,X}` whose two control blocks are identical.
#[test]
fn control_same_key_different_leaves() {
    let world = World::new(4, 1);
    let ds = format!(
        "tr({},{{pk({a}),{{and_v(v:pk({a}),pk({b})),pk({c})}}}})",
        world.pks[0],
        a = world.pks[1],
        b = world.pks[2],
        c = world.pks[3]
    );
    let desc = Descriptor::<Pk>::from_str(&ds).unwrap();
    assert!(tr_is_sane(&desc));
    assert!(assert_c03(&world, &desc, &[1], &[]));
    assert!(assert_c03(&world, &desc, &[1, 2], &[]));

    let ds = format!("tr({},{{pk({a}),pk({a})}})", world.pks[0], a = world.pks[1]);
    let desc = Descriptor::<Pk>::from_str(&ds).unwrap();
    assert!(assert_c03(&world, &desc, &[1], &[]));
}
