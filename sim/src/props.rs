//! Per-property configuration of engine A checks.
use crate::monitors::MonCfg;
use crate::scenario::GenBias;

pub const ENGINE_A_PROPS: [&str; 9] = ["C01", "C02", "C03", "C07", "C09", "C11", "C13", "C14", "C17"];

pub const EXPECTED_PROBES: [&str; 14] = [
    "timelock_arm_taken",
    "hash_dissatisfaction_used",
    "sig_dissatisfaction_used",
    "tap_leaf_depth_ge3_spent",
    "plan_refused",
    "coord_crash",
    "signer_crash",
    "stale_reply_ignored",
    "stale_request_replayed",
    "persist_between_inputs",
    "chain_rejected_nonfinal",
    "hostile_advert",
    "reorg",
    "extracted",
];

pub fn mon_for(prop: &str) -> MonCfg {
    let mut m = MonCfg::only(prop);
    m.known = crate::runner::load_known_findings().into_iter().map(|k| (k.property, k.class_prefix, k.text_contains, k.what)).collect();
    m
}

pub fn bias_for(_prop: &str, cfg: &str) -> GenBias {
    let mut b = GenBias::default();
    match cfg {
        "fault_free" => b.fault_free = true,
        "corruption" => b.corruption = true,
        _ => {}
    }
    b
}

pub fn runs_for(prop: &str, tier: &str) -> u64 {
    let quick = match prop {
        "C03" => 12_000,
        "C17" => 10_000,
        "C14" => 32_000,
        "C02" => 20_000,
        _ => 16_000,
    };
    if tier == "thorough" {
        // thorough: 40 x the historical quick sizes (C17 6 000, others as above but C14/C02 16 000)
        match prop {
            "C17" => 240_000,
            "C14" | "C02" => 640_000,
            _ => quick * 40,
        }
    } else {
        quick
    }
}

pub fn rule_for(prop: &str) -> String {
    format!(
        "one evaluation = one oracle verdict on one library result inside a simulated run of property {}; runs are generated from mix(VERIF_SEED, fnv(property), run index): workload (descriptors via typed generator / policy compiler / curated shapes, all 9 output types) from the workload stream, knobs and the enabled fault subset (swarm) from the knob stream, every fault/schedule decision from hash(run seed, decision site). distinct = distinct (descriptor skeleton x asset world x entry point x produced witness); non-trivial = descriptor carries a miniscript (wsh, sh, sh-wsh or tr script path), i.e. at least one combinator whose path the asset world selects.",
        prop
    )
}
