//! Allocation accounting for the wire-mode worker (C11: "allocate without bound").
//! The binary installs `Tracking` as global allocator; the largest single request since the last
//! reset is kept in an atomic. No allocation is refused here: requests beyond the address-space
//! limit of the worker (`ulimit -v`) abort the process, which the parent reports as a crash.
use std::alloc::{GlobalAlloc, Layout, System};
use std::sync::atomic::{AtomicUsize, Ordering};

pub static MAX_SINGLE: AtomicUsize = AtomicUsize::new(0);
pub static INSTALLED: AtomicUsize = AtomicUsize::new(0);

pub struct Tracking;

unsafe impl GlobalAlloc for Tracking {
    unsafe fn alloc(&self, l: Layout) -> *mut u8 {
        MAX_SINGLE.fetch_max(l.size(), Ordering::Relaxed);
        INSTALLED.store(1, Ordering::Relaxed);
        System.alloc(l)
    }
    unsafe fn dealloc(&self, p: *mut u8, l: Layout) { System.dealloc(p, l) }
    unsafe fn alloc_zeroed(&self, l: Layout) -> *mut u8 {
        MAX_SINGLE.fetch_max(l.size(), Ordering::Relaxed);
        System.alloc_zeroed(l)
    }
    unsafe fn realloc(&self, p: *mut u8, l: Layout, new: usize) -> *mut u8 {
        MAX_SINGLE.fetch_max(new, Ordering::Relaxed);
        System.realloc(p, l, new)
    }
}

pub fn reset() { MAX_SINGLE.store(0, Ordering::Relaxed) }
pub fn max_single() -> usize { MAX_SINGLE.load(Ordering::Relaxed) }

/// What one call into the library may request in a single allocation for an input of `len` bytes.
pub fn allowance(len: usize) -> usize { (64 << 20) + 1024 * len }
