pub mod gen;
pub mod keys;
pub mod rng;
pub mod vm;
pub mod wallet;
