//! Harness-side wallet pieces: descriptor handling through the public API, the harness satisfier
//! (built from exactly the contents of a PSBT input plus the transaction's lock fields), reference
//! signature digests, and the Signer actor's signing routine.

use std::collections::{BTreeMap, BTreeSet};
use std::str::FromStr;

use bitcoin::hashes::{hash160, ripemd160, sha256, Hash};
use bitcoin::psbt::Psbt;
use bitcoin::secp256k1::{self, Message};
use bitcoin::sighash::{Prevouts, SighashCache};
use bitcoin::taproot::TapLeafHash;
use bitcoin::{absolute, relative, EcdsaSighashType, ScriptBuf, Sequence, TapSighashType, Transaction, TxOut};
use miniscript::descriptor::DescriptorType;
use miniscript::psbt::{PsbtExt, PsbtSighashMsg};
use miniscript::{hash256, DefiniteDescriptorKey, Descriptor, DescriptorPublicKey, ForEachKey, Satisfier};

use crate::gen::OutKind;
use crate::keys::{HashKind, KeyUniverse};
use crate::rng::Rng;

pub type DDesc = Descriptor<DefiniteDescriptorKey>;

pub fn parse_descriptor(text: &str) -> Result<Descriptor<DescriptorPublicKey>, String> {
    match Descriptor::<DescriptorPublicKey>::from_str(text) {
        Ok(d) => Ok(d),
        Err(e) => {
            // taproot descriptors whose leaves the string parser refuses for sanity reasons can still
            // be assembled through the API (from_str_insane leaves + TapTree::combine + Tr::new)
            if text.starts_with("tr(") && text.ends_with(')') {
                if let Some(d) = assemble_tr(&text[3..text.len() - 1]) {
                    return Ok(d);
                }
            }
            Err(e.to_string())
        }
    }
}

fn assemble_tr(body: &str) -> Option<Descriptor<DescriptorPublicKey>> {
    use miniscript::descriptor::TapTree;
    let comma = body.find(',')?;
    let ik = DescriptorPublicKey::from_str(&body[..comma]).ok()?;
    fn tree(s: &str) -> Option<TapTree<DescriptorPublicKey>> {
        if s.starts_with('{') && s.ends_with('}') {
            let inner = &s[1..s.len() - 1];
            let mut depth = 0i32;
            for (i, c) in inner.char_indices() {
                match c {
                    '{' | '(' => depth += 1,
                    '}' | ')' => depth -= 1,
                    ',' if depth == 0 => {
                        let l = tree(&inner[..i])?;
                        let r = tree(&inner[i + 1..])?;
                        return TapTree::combine(l, r).ok();
                    }
                    _ => {}
                }
            }
            None
        } else {
            // (leaves that are not even of type B are handed to the constructors too: it is for
            // them to refuse)
            let ms = miniscript::Miniscript::<DescriptorPublicKey, miniscript::Tap>::from_str_insane(s)
                .or_else(|_| miniscript::Miniscript::<DescriptorPublicKey, miniscript::Tap>::from_str_with_validation_params(s, &miniscript::ValidationParams::MAX))
                .ok()?;
            Some(TapTree::leaf(ms))
        }
    }
    let t = tree(&body[comma + 1..])?;
    miniscript::descriptor::Tr::new(ik, Some(t)).ok().map(Descriptor::Tr)
}

pub fn make_definite(d: &Descriptor<DescriptorPublicKey>, index: u32) -> Result<DDesc, String> {
    if d.has_wildcard() {
        d.derive_at_index(index).into_result().map_err(|e| e.to_string())
    } else {
        d.into_definite().map_err(|e| e.to_string())
    }
}

pub fn kind_of(d: &DDesc) -> OutKind {
    match d.desc_type() {
        DescriptorType::Bare => OutKind::Bare,
        DescriptorType::Pkh => OutKind::Pkh,
        DescriptorType::Wpkh => OutKind::Wpkh,
        DescriptorType::Sh => OutKind::ShMs,
        DescriptorType::ShWpkh => OutKind::ShWpkh,
        DescriptorType::ShWsh => OutKind::ShWsh,
        DescriptorType::Wsh => OutKind::Wsh,
        DescriptorType::Tr => {
            if d.tap_tree().is_some() {
                OutKind::TrScript
            } else {
                OutKind::TrKey
            }
        }
    }
}

/// "Passes the library's default sanity rules": every inner miniscript validates against its
/// context's `SANE` parameters (what `Miniscript::from_str` applies by default).
pub fn is_sane(d: &DDesc) -> bool {
    use miniscript::descriptor::ShInner;
    use miniscript::ScriptContext;
    match d {
        Descriptor::Bare(b) => b.as_inner().validate(&miniscript::BareCtx::SANE).is_ok(),
        Descriptor::Pkh(_) | Descriptor::Wpkh(_) => true,
        Descriptor::Wsh(w) => w.as_inner().validate(&miniscript::Segwitv0::SANE).is_ok(),
        Descriptor::Sh(s) => match s.as_inner() {
            ShInner::Wpkh(_) => true,
            ShInner::Wsh(w) => w.as_inner().validate(&miniscript::Segwitv0::SANE).is_ok(),
            ShInner::Ms(m) => m.validate(&miniscript::Legacy::SANE).is_ok(),
        },
        Descriptor::Tr(t) => t.leaves().all(|l| l.miniscript().validate(&miniscript::Tap::SANE).is_ok()),
    }
}

/// Well-typed: the top-level miniscript of every script-carrying part is a complete boolean (B)
/// expression. (`Descriptor::from_str` at this commit does not check this for sh/wsh.)
/// Legacy (sh / bare) scripts that fail the sanity rules only through the two IF-related switches
/// (`or_i`, `d:`): malleable before segwit because MINIMALIF is not a rule there, but perfectly
/// spendable.
pub fn legacy_sane_but_for_if(d: &DDesc) -> bool {
    use miniscript::descriptor::ShInner;
    use miniscript::ScriptContext;
    let relax = |mut p: miniscript::ValidationParams| {
        p.allow_or_i = true;
        p.allow_dup_if = true;
        p.allow_malleability = true;
        p
    };
    match d {
        Descriptor::Bare(b) => b.as_inner().validate(&miniscript::BareCtx::SANE).is_err() && b.as_inner().validate(&relax(miniscript::BareCtx::SANE)).is_ok(),
        Descriptor::Sh(s) => match s.as_inner() {
            ShInner::Ms(m) => m.validate(&miniscript::Legacy::SANE).is_err() && m.validate(&relax(miniscript::Legacy::SANE)).is_ok(),
            _ => false,
        },
        _ => false,
    }
}

pub fn is_well_typed(d: &DDesc) -> bool {
    use miniscript::descriptor::ShInner;
    let p = miniscript::ValidationParams::CONSENSUS; // permissive except allow_non_b = false
    match d {
        Descriptor::Bare(b) => b.as_inner().validate(&p).is_ok(),
        Descriptor::Pkh(_) | Descriptor::Wpkh(_) => true,
        Descriptor::Wsh(w) => w.as_inner().validate(&p).is_ok(),
        Descriptor::Sh(s) => match s.as_inner() {
            ShInner::Wpkh(_) => true,
            ShInner::Wsh(w) => w.as_inner().validate(&p).is_ok(),
            ShInner::Ms(m) => m.validate(&p).is_ok(),
        },
        Descriptor::Tr(t) => t.leaves().all(|l| l.miniscript().validate(&p).is_ok()),
    }
}

/// Map from the textual form of a definite key to the universe key id.
pub fn expr_index(uni: &KeyUniverse) -> BTreeMap<String, usize> {
    let mut m = BTreeMap::new();
    for k in &uni.keys {
        let def = k.expr.replace("/*", &format!("/{}", uni.index));
        m.insert(def, k.id);
    }
    m
}

pub fn keys_of(d: &DDesc, by_expr: &BTreeMap<String, usize>) -> Vec<usize> {
    let mut out = vec![];
    d.for_each_key(|k| {
        if let Some(id) = by_expr.get(&k.to_string()) {
            out.push(*id);
        }
        true
    });
    out.sort();
    out.dedup();
    out
}

// ---------------------------------------------------------------------------------------------
// lock field predicates (BIP65 / BIP112 semantics, written independently of the library)
// ---------------------------------------------------------------------------------------------

pub fn tx_satisfies_after(tx_lock: u32, seq: u32, n: u32) -> bool {
    if seq == 0xFFFF_FFFF {
        return false;
    }
    let thr = 500_000_000u32;
    if (tx_lock < thr) != (n < thr) {
        return false;
    }
    n <= tx_lock
}

pub fn tx_satisfies_older(version: i32, seq: u32, n: u32) -> bool {
    if (version as u32) < 2 {
        return false;
    }
    if seq & (1 << 31) != 0 {
        return false;
    }
    // script operand with disable flag set is a NOP for CSV, but miniscript forbids such values
    let mask = (1u32 << 22) | 0xffff;
    let a = seq & mask;
    let b = n & mask;
    if (a < (1 << 22)) != (b < (1 << 22)) {
        return false;
    }
    b <= a
}

// ---------------------------------------------------------------------------------------------
// harness satisfier
// ---------------------------------------------------------------------------------------------

#[derive(Clone)]
pub struct WorldSat<'a> {
    pub uni: &'a KeyUniverse,
    pub by_expr: &'a BTreeMap<String, usize>,
    pub ecdsa: BTreeMap<usize, bitcoin::ecdsa::Signature>,
    pub tap_key: BTreeMap<usize, bitcoin::taproot::Signature>,
    pub tap_script: BTreeMap<(usize, TapLeafHash), bitcoin::taproot::Signature>,
    pub preimages: BTreeSet<usize>,
    pub lock_time: u32,
    pub sequence: u32,
    pub version: i32,
    /// answer every time-lock question with yes (a node whose clock view is wrong)
    pub lie_locks: bool,
}

impl<'a> WorldSat<'a> {
    pub fn empty(uni: &'a KeyUniverse, by_expr: &'a BTreeMap<String, usize>, tx: &Transaction, idx: usize) -> Self {
        WorldSat {
            uni,
            by_expr,
            ecdsa: BTreeMap::new(),
            tap_key: BTreeMap::new(),
            tap_script: BTreeMap::new(),
            preimages: BTreeSet::new(),
            lock_time: tx.lock_time.to_consensus_u32(),
            sequence: tx.input[idx].sequence.0,
            version: tx.version.0,
            lie_locks: false,
        }
    }

    /// Build from exactly the contents of PSBT input `idx`.
    pub fn from_psbt(uni: &'a KeyUniverse, by_expr: &'a BTreeMap<String, usize>, psbt: &Psbt, idx: usize) -> Self {
        let mut s = Self::empty(uni, by_expr, &psbt.unsigned_tx, idx);
        let inp = &psbt.inputs[idx];
        let by_pk = uni.keys_by_pubkey();
        let none = vec![];
        for (pk, sig) in &inp.partial_sigs {
            for id in by_pk.get(&pk.to_bytes()).unwrap_or(&none) {
                s.ecdsa.insert(*id, *sig);
            }
        }
        match (inp.tap_internal_key, inp.tap_key_sig) {
            (Some(ik), Some(sig)) => {
                for id in by_pk.get(&ik.serialize().to_vec()).unwrap_or(&none) {
                    s.tap_key.insert(*id, sig);
                }
            }
            // no internal key recorded (it is optional): the key-path signature is there all the same;
            // only the descriptor's internal key is ever asked for it
            (None, Some(sig)) => {
                for k in &uni.keys {
                    s.tap_key.insert(k.id, sig);
                }
            }
            _ => {}
        }
        for ((xpk, lh), sig) in &inp.tap_script_sigs {
            for id in by_pk.get(&xpk.serialize().to_vec()).unwrap_or(&none) {
                s.tap_script.insert((*id, *lh), *sig);
            }
        }
        for h in &uni.hashes {
            let have = match h.kind {
                HashKind::Sha256 => inp.sha256_preimages.get(&sha256::Hash::from_slice(&h.digest).unwrap()).map(|p| &p[..] == &h.preimage[..]),
                HashKind::Hash256 => inp
                    .hash256_preimages
                    .get(&bitcoin::hashes::sha256d::Hash::from_slice(&h.digest).unwrap())
                    .map(|p| &p[..] == &h.preimage[..]),
                HashKind::Ripemd160 => {
                    inp.ripemd160_preimages.get(&ripemd160::Hash::from_slice(&h.digest).unwrap()).map(|p| &p[..] == &h.preimage[..])
                }
                HashKind::Hash160 => inp.hash160_preimages.get(&hash160::Hash::from_slice(&h.digest).unwrap()).map(|p| &p[..] == &h.preimage[..]),
            };
            if have == Some(true) && h.usable {
                s.preimages.insert(h.id);
            }
        }
        s
    }

    fn key_id(&self, pk: &DefiniteDescriptorKey) -> Option<usize> { self.by_expr.get(&pk.to_string()).copied() }

    fn preimage(&self, kind: HashKind, digest: &[u8]) -> Option<[u8; 32]> {
        for h in &self.uni.hashes {
            if h.kind == kind && h.digest == digest && self.preimages.contains(&h.id) {
                return Some(h.preimage);
            }
        }
        None
    }
}

impl<'a> Satisfier<DefiniteDescriptorKey> for WorldSat<'a> {
    fn lookup_ecdsa_sig(&self, pk: &DefiniteDescriptorKey) -> Option<bitcoin::ecdsa::Signature> {
        self.key_id(pk).and_then(|id| self.ecdsa.get(&id).copied())
    }
    fn lookup_tap_key_spend_sig(&self, pk: &DefiniteDescriptorKey) -> Option<bitcoin::taproot::Signature> {
        self.key_id(pk).and_then(|id| self.tap_key.get(&id).copied())
    }
    fn lookup_tap_leaf_script_sig(&self, pk: &DefiniteDescriptorKey, lh: &TapLeafHash) -> Option<bitcoin::taproot::Signature> {
        self.key_id(pk).and_then(|id| self.tap_script.get(&(id, *lh)).copied())
    }
    fn lookup_sha256(&self, h: &sha256::Hash) -> Option<[u8; 32]> { self.preimage(HashKind::Sha256, h.as_byte_array()) }
    fn lookup_hash256(&self, h: &hash256::Hash) -> Option<[u8; 32]> { self.preimage(HashKind::Hash256, h.as_byte_array()) }
    fn lookup_ripemd160(&self, h: &ripemd160::Hash) -> Option<[u8; 32]> { self.preimage(HashKind::Ripemd160, h.as_byte_array()) }
    fn lookup_hash160(&self, h: &hash160::Hash) -> Option<[u8; 32]> { self.preimage(HashKind::Hash160, h.as_byte_array()) }
    fn check_older(&self, n: relative::LockTime) -> bool { self.lie_locks || tx_satisfies_older(self.version, self.sequence, n.to_consensus_u32()) }
    fn check_after(&self, n: absolute::LockTime) -> bool { self.lie_locks || tx_satisfies_after(self.lock_time, self.sequence, n.to_consensus_u32()) }
}

// ---------------------------------------------------------------------------------------------
// reference digests (what a signature must commit to), independent of PsbtExt::sighash_msg
// ---------------------------------------------------------------------------------------------

#[derive(Clone, Debug)]
pub enum SpendCtx {
    Legacy { script_code: ScriptBuf },
    SegwitV0 { script_code: ScriptBuf },
    TapKey,
    TapLeaf { leaf_hash: TapLeafHash },
}

pub fn ref_digest(tx: &Transaction, prevouts: &[TxOut], idx: usize, ctx: &SpendCtx, hashtype: u32) -> Result<[u8; 32], String> {
    let mut cache = SighashCache::new(tx);
    match ctx {
        SpendCtx::Legacy { script_code } => cache.legacy_signature_hash(idx, script_code, hashtype).map(|h| h.to_byte_array()).map_err(|e| e.to_string()),
        SpendCtx::SegwitV0 { script_code } => {
            let ty = EcdsaSighashType::from_standard(hashtype).map_err(|e| e.to_string())?;
            cache.p2wsh_signature_hash(idx, script_code, prevouts[idx].value, ty).map(|h| h.to_byte_array()).map_err(|e| e.to_string())
        }
        SpendCtx::TapKey => {
            let ty = TapSighashType::from_consensus_u8(hashtype as u8).map_err(|e| e.to_string())?;
            cache.taproot_key_spend_signature_hash(idx, &Prevouts::All(prevouts), ty).map(|h| h.to_byte_array()).map_err(|e| e.to_string())
        }
        SpendCtx::TapLeaf { leaf_hash } => {
            let ty = TapSighashType::from_consensus_u8(hashtype as u8).map_err(|e| e.to_string())?;
            cache
                .taproot_script_spend_signature_hash(idx, &Prevouts::All(prevouts), *leaf_hash, ty)
                .map(|h| h.to_byte_array())
                .map_err(|e| e.to_string())
        }
    }
}

/// The ECDSA spend context of a (non-taproot) descriptor, derived from the harness's knowledge of the
/// descriptor *kind* and the scripts recorded in the scriptPubKey / PSBT, not from library helpers.
pub fn ecdsa_ctx_for(kind: OutKind, spk: &ScriptBuf, redeem: Option<&ScriptBuf>, witness_script: Option<&ScriptBuf>, pk_bytes: &[u8]) -> Option<SpendCtx> {
    let p2pkh_of = |pk: &[u8]| {
        let h = hash160::Hash::hash(pk);
        let mut v = vec![0x76, 0xa9, 0x14];
        v.extend_from_slice(h.as_byte_array());
        v.push(0x88);
        v.push(0xac);
        ScriptBuf::from_bytes(v)
    };
    Some(match kind {
        OutKind::Bare | OutKind::Pkh => SpendCtx::Legacy { script_code: spk.clone() },
        OutKind::ShMs => SpendCtx::Legacy { script_code: redeem?.clone() },
        OutKind::Wpkh | OutKind::ShWpkh => SpendCtx::SegwitV0 { script_code: p2pkh_of(pk_bytes) },
        OutKind::Wsh | OutKind::ShWsh => SpendCtx::SegwitV0 { script_code: witness_script?.clone() },
        OutKind::TrKey | OutKind::TrScript => return None,
    })
}

// ---------------------------------------------------------------------------------------------
// signer
// ---------------------------------------------------------------------------------------------

#[derive(Clone, Debug, Default)]
pub struct SignStats {
    pub ecdsa: usize,
    pub schnorr_key: usize,
    pub schnorr_leaf: usize,
    pub preimages: usize,
    pub digest_mismatch: Vec<String>,
    pub origin_mismatch: Vec<String>,
}

#[derive(Clone, Debug)]
pub struct SignerPolicy {
    pub sign_ecdsa: bool,
    pub sign_key_spend: bool,
    pub sign_leaves: bool,
    pub give_preimages: bool,
    /// use SIGHASH_ALL explicitly for schnorr (65-byte sigs) instead of DEFAULT
    pub schnorr_explicit_all: bool,
    /// hostile / sloppy co-signer: ECDSA signatures in high-S form (72 or 73 bytes with the sighash byte)
    pub ecdsa_high_s: bool,
    /// when Some: the only tap leaves this signer signs for
    pub leaf_allow: Option<Vec<TapLeafHash>>,
}

impl Default for SignerPolicy {
    fn default() -> Self { SignerPolicy { sign_ecdsa: true, sign_key_spend: true, sign_leaves: true, give_preimages: true, schnorr_explicit_all: false, ecdsa_high_s: false, leaf_allow: None } }
}

fn prevouts_of(psbt: &Psbt) -> Option<Vec<TxOut>> {
    let mut v = vec![];
    for (i, inp) in psbt.inputs.iter().enumerate() {
        if let Some(w) = &inp.witness_utxo {
            v.push(w.clone());
        } else if let Some(nw) = &inp.non_witness_utxo {
            let vout = psbt.unsigned_tx.input.get(i)?.previous_output.vout as usize;
            v.push(nw.output.get(vout)?.clone());
        } else {
            return None;
        }
    }
    Some(v)
}

/// Sign everything signer `who` can sign in `psbt`, per `policy`. `kinds[i]` is the harness's
/// knowledge of input i's output type (None: foreign input, skip).
pub fn signer_sign(
    uni: &KeyUniverse,
    who: usize,
    policy: &SignerPolicy,
    psbt: &mut Psbt,
    kinds: &[Option<OutKind>],
    aux: &mut Rng,
    stats: &mut SignStats,
) {
    let secp = &uni.secp;
    let prevouts = match prevouts_of(psbt) {
        Some(p) => p,
        None => return,
    };
    if prevouts.len() != psbt.unsigned_tx.input.len() || psbt.inputs.len() != psbt.unsigned_tx.input.len() {
        return;
    }
    let tx = psbt.unsigned_tx.clone();
    for idx in 0..psbt.inputs.len() {
        let kind = match kinds.get(idx).copied().flatten() {
            Some(k) => k,
            None => continue,
        };
        if psbt.inputs[idx].final_script_sig.is_some() || psbt.inputs[idx].final_script_witness.is_some() {
            continue;
        }
        let spk = prevouts[idx].script_pubkey.clone();
        // preimages
        if policy.give_preimages {
            for h in uni.hashes.iter().filter(|h| h.owner == who) {
                let inp = &mut psbt.inputs[idx];
                match h.kind {
                    HashKind::Sha256 => {
                        inp.sha256_preimages.insert(sha256::Hash::from_slice(&h.digest).unwrap(), h.psbt_value.clone());
                    }
                    HashKind::Hash256 => {
                        inp.hash256_preimages.insert(bitcoin::hashes::sha256d::Hash::from_slice(&h.digest).unwrap(), h.psbt_value.clone());
                    }
                    HashKind::Ripemd160 => {
                        inp.ripemd160_preimages.insert(ripemd160::Hash::from_slice(&h.digest).unwrap(), h.psbt_value.clone());
                    }
                    HashKind::Hash160 => {
                        inp.hash160_preimages.insert(hash160::Hash::from_slice(&h.digest).unwrap(), h.psbt_value.clone());
                    }
                }
                stats.preimages += 1;
            }
        }
        match kind {
            OutKind::TrKey | OutKind::TrScript => {
                let hash_ty = match psbt.inputs[idx].sighash_type {
                    Some(t) => match t.taproot_hash_ty() {
                        Ok(t) => t,
                        Err(_) => continue,
                    },
                    None => {
                        if policy.schnorr_explicit_all {
                            // a signer may only deviate from DEFAULT if the PSBT says so; keep DEFAULT
                            TapSighashType::Default
                        } else {
                            TapSighashType::Default
                        }
                    }
                };
                let origins: Vec<(secp256k1::XOnlyPublicKey, Vec<TapLeafHash>, (bitcoin::bip32::Fingerprint, bitcoin::bip32::DerivationPath))> =
                    psbt.inputs[idx].tap_key_origins.iter().map(|(k, (l, o))| (*k, l.clone(), o.clone())).collect();
                for (xpk, leaves, origin) in origins {
                    let key = match uni.keys.iter().find(|k| k.owner == who && k.xonly == xpk) {
                        Some(k) => k,
                        None => continue,
                    };
                    if !key.origin.1.is_empty() && key.origin != origin {
                        stats.origin_mismatch.push(format!("input {} key {} origin {:?} != expected {:?}", idx, key.id, origin, key.origin));
                    }
                    let keypair = secp256k1::Keypair::from_secret_key(secp, &key.secret);
                    // key spend
                    if policy.sign_key_spend && psbt.inputs[idx].tap_internal_key == Some(xpk) {
                        let cache_tx = tx.clone();
                        let mut cache = SighashCache::new(&cache_tx);
                        let lib = psbt.sighash_msg(idx, &mut cache, None);
                        let refd = ref_digest(&tx, &prevouts, idx, &SpendCtx::TapKey, hash_ty as u32);
                        if let (Ok(PsbtSighashMsg::TapSighash(m)), Ok(r)) = (&lib, &refd) {
                            if m.to_byte_array() != *r {
                                stats.digest_mismatch.push(format!("input {} tap key spend", idx));
                            }
                        } else if refd.is_ok() {
                            stats.digest_mismatch.push(format!("input {} tap key spend: sighash_msg returned {:?}", idx, lib));
                        }
                        if let Ok(r) = refd {
                            let tweaked = {
                                use bitcoin::key::TapTweak;
                                keypair.tap_tweak(secp, psbt.inputs[idx].tap_merkle_root).to_keypair()
                            };
                            let sig = secp.sign_schnorr_with_aux_rand(&Message::from_digest(r), &tweaked, &aux.bytes32());
                            psbt.inputs[idx].tap_key_sig = Some(bitcoin::taproot::Signature { signature: sig, sighash_type: hash_ty });
                            stats.schnorr_key += 1;
                        }
                    }
                    if policy.sign_leaves {
                        for lh in leaves {
                            if let Some(allow) = &policy.leaf_allow {
                                if !allow.contains(&lh) {
                                    continue;
                                }
                            }
                            let cache_tx = tx.clone();
                            let mut cache = SighashCache::new(&cache_tx);
                            let lib = psbt.sighash_msg(idx, &mut cache, Some(lh));
                            let refd = ref_digest(&tx, &prevouts, idx, &SpendCtx::TapLeaf { leaf_hash: lh }, hash_ty as u32);
                            if let (Ok(PsbtSighashMsg::TapSighash(m)), Ok(r)) = (&lib, &refd) {
                                if m.to_byte_array() != *r {
                                    stats.digest_mismatch.push(format!("input {} tap leaf", idx));
                                }
                            } else if refd.is_ok() {
                                stats.digest_mismatch.push(format!("input {} tap leaf: sighash_msg returned {:?}", idx, lib));
                            }
                            if let Ok(r) = refd {
                                let sig = secp.sign_schnorr_with_aux_rand(&Message::from_digest(r), &keypair, &aux.bytes32());
                                psbt.inputs[idx].tap_script_sigs.insert((xpk, lh), bitcoin::taproot::Signature { signature: sig, sighash_type: hash_ty });
                                stats.schnorr_leaf += 1;
                            }
                        }
                    }
                }
            }
            _ => {
                if !policy.sign_ecdsa {
                    continue;
                }
                let hash_ty = match psbt.inputs[idx].sighash_type {
                    Some(t) => match t.ecdsa_hash_ty() {
                        Ok(t) => t,
                        Err(_) => continue,
                    },
                    None => EcdsaSighashType::All,
                };
                let derivs: Vec<(secp256k1::PublicKey, (bitcoin::bip32::Fingerprint, bitcoin::bip32::DerivationPath))> =
                    psbt.inputs[idx].bip32_derivation.iter().map(|(k, o)| (*k, o.clone())).collect();
                for (pk, origin) in derivs {
                    let key = match uni.keys.iter().find(|k| k.owner == who && k.public.inner == pk) {
                        Some(k) => k,
                        None => continue,
                    };
                    if !key.origin.1.is_empty() && key.origin != origin {
                        stats.origin_mismatch.push(format!("input {} key {} origin {:?} != expected {:?}", idx, key.id, origin, key.origin));
                    }
                    let pk_bytes = key.public.to_bytes();
                    let ctx = match ecdsa_ctx_for(kind, &spk, psbt.inputs[idx].redeem_script.as_ref(), psbt.inputs[idx].witness_script.as_ref(), &pk_bytes) {
                        Some(c) => c,
                        None => continue,
                    };
                    let refd = ref_digest(&tx, &prevouts, idx, &ctx, hash_ty.to_u32());
                    let cache_tx = tx.clone();
                    let mut cache = SighashCache::new(&cache_tx);
                    let lib = psbt.sighash_msg(idx, &mut cache, None);
                    let lib_bytes: Option<[u8; 32]> = match &lib {
                        Ok(PsbtSighashMsg::LegacySighash(m)) => Some(m.to_byte_array()),
                        Ok(PsbtSighashMsg::SegwitV0Sighash(m)) => Some(m.to_byte_array()),
                        _ => None,
                    };
                    match (&refd, lib_bytes) {
                        (Ok(r), Some(l)) if *r != l => stats.digest_mismatch.push(format!("input {} ecdsa {:?}", idx, kind)),
                        (Ok(_), None) => stats.digest_mismatch.push(format!("input {} ecdsa {:?}: sighash_msg returned {:?}", idx, kind, lib)),
                        _ => {}
                    }
                    if let Ok(r) = refd {
                        let mut sig = secp.sign_ecdsa(&Message::from_digest(r), &key.secret);
                        if policy.ecdsa_high_s {
                            sig = high_s(&sig);
                        }
                        psbt.inputs[idx].partial_sigs.insert(key.public, bitcoin::ecdsa::Signature { signature: sig, sighash_type: hash_ty });
                        stats.ecdsa += 1;
                    }
                }
            }
        }
    }
}

pub fn seq_from_rel(n: Option<relative::LockTime>, rbf: bool) -> Sequence {
    match n {
        Some(l) => l.to_sequence(),
        None => {
            if rbf {
                Sequence::ENABLE_RBF_NO_LOCKTIME
            } else {
                Sequence::ENABLE_LOCKTIME_NO_RBF
            }
        }
    }
}

/// Keep only signatures that verify against the reference digests (used in the corruption
/// configuration, where a flipped bit may have damaged a signature in transit).
pub fn drop_invalid_sigs(env: &crate::sim::Env, tx: &Transaction, idx: usize, sat: &mut WorldSat) {
    let prevouts: Vec<TxOut> = env.inputs.iter().map(|i| i.utxo.clone()).collect();
    if tx.input.len() != prevouts.len() {
        sat.ecdsa.clear();
        sat.tap_key.clear();
        sat.tap_script.clear();
        return;
    }
    let ic = &env.inputs[idx];
    let script = ic.desc.explicit_script().ok();
    let secp = &env.secp;
    let uni = &env.uni;
    sat.ecdsa.retain(|k, sig| {
        let pkb = uni.keys[*k].public.to_bytes();
        let ctx = match ecdsa_ctx_for(ic.kind, &ic.spk, script.as_ref(), script.as_ref(), &pkb) {
            Some(c) => c,
            None => return false,
        };
        match ref_digest(tx, &prevouts, idx, &ctx, sig.sighash_type.to_u32()) {
            Ok(d) => secp.verify_ecdsa(&Message::from_digest(d), &sig.signature, &uni.keys[*k].public.inner).is_ok(),
            Err(_) => false,
        }
    });
    let spk = ic.spk.as_bytes().to_vec();
    sat.tap_key.retain(|_, sig| {
        if spk.len() != 34 {
            return false;
        }
        let q = match secp256k1::XOnlyPublicKey::from_slice(&spk[2..]) {
            Ok(q) => q,
            Err(_) => return false,
        };
        match ref_digest(tx, &prevouts, idx, &SpendCtx::TapKey, sig.sighash_type as u32) {
            Ok(d) => secp.verify_schnorr(&sig.signature, &Message::from_digest(d), &q).is_ok(),
            Err(_) => false,
        }
    });
    sat.tap_script.retain(|(k, lh), sig| match ref_digest(tx, &prevouts, idx, &SpendCtx::TapLeaf { leaf_hash: *lh }, sig.sighash_type as u32) {
        Ok(d) => secp.verify_schnorr(&sig.signature, &Message::from_digest(d), &uni.keys[*k].xonly).is_ok(),
        Err(_) => false,
    });
}

/// The other ECDSA encoding of the same signature: (r, n - s).
pub fn high_s(sig: &secp256k1::ecdsa::Signature) -> secp256k1::ecdsa::Signature {
    const N: [u8; 32] = [
        0xff, 0xff, 0xff, 0xff, 0xff, 0xff, 0xff, 0xff, 0xff, 0xff, 0xff, 0xff, 0xff, 0xff, 0xff, 0xfe, 0xba, 0xae, 0xdc, 0xe6, 0xaf, 0x48, 0xa0, 0x3b, 0xbf, 0xd2, 0x5e, 0x8c, 0xd0, 0x36, 0x41, 0x41,
    ];
    let c = sig.serialize_compact();
    let mut out = [0u8; 64];
    out[..32].copy_from_slice(&c[..32]);
    let mut borrow = 0i32;
    for i in (0..32).rev() {
        let mut d = N[i] as i32 - c[32 + i] as i32 - borrow;
        if d < 0 {
            d += 256;
            borrow = 1;
        } else {
            borrow = 0;
        }
        out[32 + i] = d as u8;
    }
    secp256k1::ecdsa::Signature::from_compact(&out).unwrap_or(*sig)
}

/// "God view" satisfier: real signatures by `keys` (subset of the descriptor's keys) over input `idx`
/// of `tx`, every preimage in `hashes`. Used where a monitor must re-sign a variant of the transaction.
pub fn god_sat<'a>(env: &'a crate::sim::Env, tx: &Transaction, idx: usize, keys: &[usize], hashes: &[usize], aux_seed: u64) -> WorldSat<'a> {
    god_sat_slots(env, tx, idx, keys, hashes, aux_seed, &|_, _| true)
}

/// Which signature a key is asked for.
#[derive(Clone, Copy, Debug, PartialEq, Eq)]
pub enum Slot {
    Ecdsa,
    TapKey,
    TapLeaf(TapLeafHash),
}

pub fn god_sat_slots<'a>(env: &'a crate::sim::Env, tx: &Transaction, idx: usize, keys: &[usize], hashes: &[usize], aux_seed: u64, allow: &dyn Fn(usize, Slot) -> bool) -> WorldSat<'a> {
    let prevouts: Vec<TxOut> = env.inputs.iter().map(|i| i.utxo.clone()).collect();
    god_sat_over(env, tx, idx, keys, hashes, aux_seed, allow, prevouts)
}

/// As `god_sat_slots`, but the signers believe `prevouts` (a signer that follows the PSBT's UTXO records).
#[allow(clippy::too_many_arguments)]
pub fn god_sat_over<'a>(env: &'a crate::sim::Env, tx: &Transaction, idx: usize, keys: &[usize], hashes: &[usize], aux_seed: u64, allow: &dyn Fn(usize, Slot) -> bool, prevouts: Vec<TxOut>) -> WorldSat<'a> {
    let mut sat = WorldSat::empty(&env.uni, &env.by_expr, tx, idx);
    if tx.input.len() != prevouts.len() {
        return sat;
    }
    for h in hashes {
        if env.uni.hashes[*h].usable {
            sat.preimages.insert(*h);
        }
    }
    let ic = &env.inputs[idx];
    let secp = &env.uni.secp;
    let mut aux = Rng::new(aux_seed);
    match &ic.desc {
        Descriptor::Tr(tr) => {
            let rt = crate::mon_ref::ref_taproot_of(env, tr);
            let ik = env.by_expr.get(&tr.internal_key().to_string()).copied();
            for k in keys {
                let key = &env.uni.keys[*k];
                let kp = secp256k1::Keypair::from_secret_key(secp, &key.secret);
                if ik == Some(*k) && allow(*k, Slot::TapKey) {
                    if let (Some((rt, _)), Ok(d)) = (&rt, ref_digest(tx, &prevouts, idx, &SpendCtx::TapKey, 0)) {
                        use bitcoin::key::TapTweak;
                        let root = rt.merkle_root.map(bitcoin::taproot::TapNodeHash::from_byte_array);
                        let tweaked = kp.tap_tweak(secp, root).to_keypair();
                        let sig = secp.sign_schnorr_with_aux_rand(&Message::from_digest(d), &tweaked, &aux.bytes32());
                        sat.tap_key.insert(*k, bitcoin::taproot::Signature { signature: sig, sighash_type: TapSighashType::Default });
                    }
                }
                for leaf in tr.leaves() {
                    let occurs = leaf.miniscript().iter_pk().any(|pk| env.by_expr.get(&pk.to_string()) == Some(k));
                    if occurs {
                        let lh = TapLeafHash::from_byte_array(crate::vm::tapleaf_hash(0xc0, leaf.miniscript().encode().as_bytes()));
                        if !allow(*k, Slot::TapLeaf(lh)) {
                            continue;
                        }
                        if let Ok(d) = ref_digest(tx, &prevouts, idx, &SpendCtx::TapLeaf { leaf_hash: lh }, 0) {
                            let sig = secp.sign_schnorr_with_aux_rand(&Message::from_digest(d), &kp, &aux.bytes32());
                            sat.tap_script.insert((*k, lh), bitcoin::taproot::Signature { signature: sig, sighash_type: TapSighashType::Default });
                        }
                    }
                }
            }
        }
        d => {
            let script = d.explicit_script().ok();
            for k in keys {
                if !allow(*k, Slot::Ecdsa) {
                    continue;
                }
                let key = &env.uni.keys[*k];
                let pkb = key.public.to_bytes();
                if let Some(ctx) = ecdsa_ctx_for(ic.kind, &ic.spk, script.as_ref(), script.as_ref(), &pkb) {
                    if let Ok(dg) = ref_digest(tx, &prevouts, idx, &ctx, 1) {
                        let sig = secp.sign_ecdsa(&Message::from_digest(dg), &key.secret);
                        sat.ecdsa.insert(*k, bitcoin::ecdsa::Signature { signature: sig, sighash_type: EcdsaSighashType::All });
                    }
                }
            }
        }
    }
    sat
}

/// The numeric arguments of every `after(..)` / `older(..)` in a descriptor text.
pub fn lock_values(text: &str) -> (Vec<u32>, Vec<u32>) {
    let grab = |name: &str| -> Vec<u32> {
        let mut out = vec![];
        let mut rest = text;
        while let Some(p) = rest.find(name) {
            let tail = &rest[p + name.len()..];
            let end = tail.find(')').unwrap_or(0);
            if let Ok(n) = tail[..end].parse::<u32>() {
                out.push(n);
            }
            rest = tail;
        }
        out.sort();
        out.dedup();
        out
    };
    (grab("after("), grab("older("))
}
