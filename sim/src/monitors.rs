//! Invariant monitors of engine A. Each property's monitors are switched on by `MonCfg` so that an
//! alarm names the property that is broken.

use std::collections::BTreeSet;
use std::panic::{catch_unwind, AssertUnwindSafe};

use bitcoin::hashes::{hash160, sha256, Hash};
use bitcoin::psbt::Psbt;
use bitcoin::{ScriptBuf, Transaction, TxOut, Witness};
use miniscript::plan::{Assets, Plan};
use miniscript::psbt::PsbtExt;
use miniscript::{DefiniteDescriptorKey, Descriptor};

use crate::gen::OutKind;
use crate::rng::{fnv, mix};
use crate::sim::World;
use crate::vm::{self, ExecTrace, Flags, VmError};
use crate::wallet::WorldSat;

#[derive(Clone, Debug, Default)]
pub struct MonCfg {
    pub props: BTreeSet<String>,
    /// corruption configuration: validity judged against the PSBT's own prevouts, no liveness
    pub corruption: bool,
    /// known findings (property, class prefix, detail substring, description): recorded, not raised
    pub known: Vec<(String, String, Option<String>, String)>,
}

impl MonCfg {
    pub fn on(&self, p: &str) -> bool { self.props.contains(p) }
    pub fn only(p: &str) -> Self {
        let mut s = BTreeSet::new();
        s.insert(p.to_string());
        MonCfg { props: s, corruption: false, known: vec![] }
    }
}

#[derive(Clone, Debug)]
pub struct Violation {
    pub prop: String,
    pub inv: String,
    pub detail: String,
    pub time: u64,
    pub seq: u64,
    pub actor: String,
    /// stable class used by minimisation and known-finding matching
    pub class: String,
}

pub fn raise(w: &mut World, prop: &str, inv: &str, detail: String, actor: &str) {
    raise_class(w, prop, inv, inv.to_string(), detail, actor)
}

pub fn raise_class(w: &mut World, prop: &str, inv: &str, class: String, detail: String, actor: &str) {
    if !w.mon.on(prop) {
        w.stats.probe(&format!("suppressed:{}:{}", prop, inv));
        return;
    }
    if let Some(k) = w.mon.known.iter().find(|k| k.0 == prop && class.starts_with(&k.1) && k.2.as_ref().map(|t| detail.contains(t)).unwrap_or(true)) {
        *w.stats.known_hits.entry(format!("property={} {}", k.0, k.3)).or_insert(0) += 1;
        return;
    }
    w.violations.push(Violation { prop: prop.to_string(), inv: inv.to_string(), detail, time: w.now, seq: w.seq, actor: actor.to_string(), class });
}

/// Run a library call, turning a panic into a C11 violation (global no-panic invariant).
pub fn guard<T>(w: &mut World, what: &str, actor: &str, f: impl FnOnce(&mut World) -> T) -> Option<T> {
    let r = catch_unwind(AssertUnwindSafe(|| f(w)));
    match r {
        Ok(v) => Some(v),
        Err(e) => {
            let msg = if let Some(s) = e.downcast_ref::<&str>() {
                s.to_string()
            } else if let Some(s) = e.downcast_ref::<String>() {
                s.clone()
            } else {
                "panic".to_string()
            };
            w.stats.probe("panic");
            raise_class(w, "C11", "panic", format!("panic:{}", what), format!("{} panicked: {}", what, msg), actor);
            None
        }
    }
}

pub fn prevouts_env(w: &World) -> Vec<TxOut> { w.env.inputs.iter().map(|i| i.utxo.clone()).collect() }

/// Execute (script_sig, witness) as input `idx` of `tx` on R1.
pub fn exec_spend(w: &World, tx: &Transaction, idx: usize, wit: &[Vec<u8>], ss: &ScriptBuf, flags: Flags) -> Result<ExecTrace, VmError> {
    let mut t = tx.clone();
    t.input[idx].script_sig = ss.clone();
    t.input[idx].witness = Witness::from_slice(wit);
    let prevouts = prevouts_env(w);
    let ctx = vm::TxCtx { tx: &t, index: idx, prevouts: &prevouts, secp: &w.env.secp };
    vm::verify_input(&ctx, flags)
}

fn wit_digest(wit: &[Vec<u8>], ss: &ScriptBuf) -> u64 {
    let mut h = fnv(ss.as_bytes());
    for i in wit {
        h = mix(&[h, fnv(i), i.len() as u64]);
    }
    h
}

/// Hash describing the asset world of an input: which keys have signatures, which preimages, and
/// which of the script's locks the tx fields satisfy.
pub fn world_class(sat: &WorldSat) -> u64 {
    let mut h = 0x776f726c64u64;
    for k in sat.ecdsa.keys() {
        h = mix(&[h, 1, *k as u64]);
    }
    for k in sat.tap_key.keys() {
        h = mix(&[h, 2, *k as u64]);
    }
    for (k, l) in sat.tap_script.keys() {
        h = mix(&[h, 3, *k as u64, fnv(l.as_byte_array())]);
    }
    for p in &sat.preimages {
        h = mix(&[h, 4, *p as u64]);
    }
    mix(&[h, sat.lock_time as u64, sat.sequence as u64, sat.version as u64])
}

pub struct Produced {
    pub label: &'static str,
    pub mall: bool,
    pub wit: Vec<Vec<u8>>,
    pub ss: ScriptBuf,
}

/// All satisfactions the library returns for input `i` in the state of `psbt`.
pub fn produce_all(w: &mut World, actor: &str, psbt: &Psbt, i: usize) -> (Vec<Produced>, [bool; 6]) {
    let desc = w.env.inputs[i].desc.clone();
    let mut out = vec![];
    let mut ok = [false; 6];
    let env = w.env.clone();
    let mut sat = WorldSat::from_psbt(&env.uni, &env.by_expr, psbt, i);
    if w.mon.corruption {
        crate::wallet::drop_invalid_sigs(&env, &psbt.unsigned_tx, i, &mut sat);
    }
    let r = guard(w, "get_satisfaction", actor, |_| desc.get_satisfaction(&sat));
    if let Some(Ok((wit, ss))) = r {
        ok[0] = true;
        out.push(Produced { label: "get_satisfaction", mall: false, wit, ss });
    }
    let r = guard(w, "get_satisfaction_mall", actor, |_| desc.get_satisfaction_mall(&sat));
    if let Some(Ok((wit, ss))) = r {
        ok[1] = true;
        out.push(Produced { label: "get_satisfaction_mall", mall: true, wit, ss });
    }
    let r = guard(w, "into_plan+satisfy", actor, |_| desc.clone().into_plan(&sat).ok().map(|p| p.satisfy(&sat)));
    if let Some(Some(Ok((wit, ss)))) = r {
        ok[2] = true;
        out.push(Produced { label: "plan.satisfy", mall: false, wit, ss });
    }
    let r = guard(w, "into_plan_mall+satisfy", actor, |_| desc.clone().into_plan_mall(&sat).ok().map(|p| p.satisfy(&sat)));
    if let Some(Some(Ok((wit, ss)))) = r {
        ok[3] = true;
        out.push(Produced { label: "plan_mall.satisfy", mall: true, wit, ss });
    }
    // the library's own PSBT-backed satisfier over the same PSBT input (same world, other lookup code)
    if !w.mon.corruption {
        let r = guard(w, "psbt-satisfier get_satisfaction", actor, |_| desc.get_satisfaction(miniscript::psbt::PsbtInputSatisfier::new(psbt, i)));
        if let Some(Ok((wit, ss))) = r {
            ok[4] = true;
            out.push(Produced { label: "psbt-satisfier get_satisfaction", mall: false, wit, ss });
        }
        let r = guard(w, "psbt-satisfier get_satisfaction_mall", actor, |_| desc.get_satisfaction_mall(miniscript::psbt::PsbtInputSatisfier::new(psbt, i)));
        if let Some(Ok((wit, ss))) = r {
            ok[5] = true;
            out.push(Produced { label: "psbt-satisfier get_satisfaction_mall", mall: true, wit, ss });
        }
    } else {
        ok[4] = ok[0];
        ok[5] = ok[1];
    }
    // Descriptor::satisfy writes into a TxIn
    let r = guard(w, "Descriptor::satisfy", actor, |_| {
        let mut txin = psbt.unsigned_tx.input[i].clone();
        desc.satisfy(&mut txin, &sat).ok().map(|_| txin)
    });
    if let Some(Some(txin)) = r {
        out.push(Produced { label: "Descriptor::satisfy", mall: false, wit: txin.witness.iter().map(|x| x.to_vec()).collect(), ss: txin.script_sig.clone() });
    }
    // leaf-level entry points
    match &desc {
        Descriptor::Wsh(wsh) => {
            let ms = wsh.as_inner().clone();
            let script = ms.encode().into_bytes();
            for mall in [false, true] {
                let r = guard(w, "Miniscript::satisfy", actor, |_| if mall { ms.satisfy_malleable(&sat) } else { ms.satisfy(&sat) });
                if let Some(Ok(mut wit)) = r {
                    wit.push(script.clone());
                    out.push(Produced { label: if mall { "Miniscript::satisfy_malleable" } else { "Miniscript::satisfy" }, mall, wit, ss: ScriptBuf::new() });
                }
            }
        }
        Descriptor::Tr(tr) => {
            let si = tr.spend_info();
            for leaf in si.leaves() {
                let ms = leaf.miniscript().clone();
                let script = leaf.script().to_bytes();
                let cb = leaf.control_block().serialize();
                for mall in [false, true] {
                    let r = guard(w, "tap Miniscript::satisfy", actor, |_| if mall { ms.satisfy_malleable(&sat) } else { ms.satisfy(&sat) });
                    if let Some(Ok(mut wit)) = r {
                        wit.push(script.clone());
                        wit.push(cb.clone());
                        out.push(Produced { label: if mall { "tapleaf satisfy_malleable" } else { "tapleaf satisfy" }, mall, wit, ss: ScriptBuf::new() });
                    }
                }
            }
        }
        _ => {}
    }
    (out, ok)
}

pub fn is_resource_error(e: &VmError) -> bool {
    matches!(
        e,
        VmError::OpCount
            | VmError::StackSize
            | VmError::PushSize
            | VmError::ScriptSize
            | VmError::StdScriptSigSize
            | VmError::StdWitnessScriptSize
            | VmError::StdWitnessStackItems
            | VmError::StdWitnessStackItemSize
            | VmError::StdTapscriptStackItemSize
            | VmError::StdP2shSigops
            | VmError::TapscriptValidationWeight
    )
}

pub fn skeleton_hash(text: &str) -> u64 {
    // descriptor skeleton: text with hex blobs, xpubs and numbers removed
    let mut s = String::new();
    let mut run = 0;
    for c in text.chars() {
        if c.is_ascii_alphanumeric() || c == '\'' || c == '/' || c == '[' || c == ']' || c == '*' {
            run += 1;
            if run <= 12 {
                s.push(c);
            }
        } else {
            // drop long alnum runs (keys/hashes), keep short ones (fragment names, small ints)
            if run > 12 {
                let keep = s.len() - 12;
                s.truncate(keep);
                s.push('K');
            }
            run = 0;
            s.push(c);
        }
    }
    fnv(s.as_bytes())
}

pub fn probe_attempt(w: &mut World, actor: &str, psbt: &Psbt) {
    w.stats.attempts += 1;
    let want = ["C01", "C02", "C03", "C07", "C09", "C11", "C13", "C17"].iter().any(|p| w.mon.on(p));
    if !want {
        return;
    }
    if psbt.inputs.len() != w.env.inputs.len() || psbt.unsigned_tx.input.len() != w.env.inputs.len() {
        return;
    }
    for i in 0..w.env.inputs.len() {
        if w.env.inputs[i].foreign {
            continue;
        }
        if psbt.inputs[i].final_script_sig.is_some() || psbt.inputs[i].final_script_witness.is_some() {
            continue;
        }
        // in the corruption configuration the PSBT may carry garbage; monitors that need exact
        // oracles only run when the PSBT's view of the prevout is the real one
        if w.mon.corruption {
            let ok = match (&psbt.inputs[i].witness_utxo, &psbt.inputs[i].non_witness_utxo) {
                (Some(u), _) => *u == w.env.inputs[i].utxo,
                (None, Some(t)) => t.compute_txid() == w.env.inputs[i].outpoint.txid,
                _ => false,
            };
            if !ok || psbt.unsigned_tx.input[i].previous_output != w.env.inputs[i].outpoint {
                continue;
            }
        }
        probe_input(w, actor, psbt, i);
        if !w.violations.is_empty() {
            return;
        }
        what_if(w, actor, psbt, i);
        if !w.violations.is_empty() {
            return;
        }
    }
}

/// A second spender of the same coin: an alternative transaction whose nLockTime / nSequence claim
/// some of the descriptor's own lock values (units of the two fields chosen independently), signed
/// by a chosen subset of the keys (god view). Every satisfier monitor then runs in that world too,
/// so lock combinations do not depend on what the coordinator's planner happened to ask for.
fn what_if(w: &mut World, actor: &str, psbt: &Psbt, i: usize) {
    if w.mon.corruption {
        return;
    }
    let (afters, olders) = crate::wallet::lock_values(&w.env.inputs[i].spec.text);
    if afters.is_empty() && olders.is_empty() {
        return;
    }
    let key = format!("whatif:{}:{}", w.stats.attempts, i);
    if w.dec.choose(&key, 3) != 1 {
        return;
    }
    let env = w.env.clone();
    let pick = |w: &mut World, tag: &str, vals: &[u32], time: &dyn Fn(u32) -> bool| -> Option<u32> {
        // largest value of the chosen unit (claims every smaller one too), or none
        let unit_time = w.dec.choose(&format!("{}:unit{}", key, tag), 2) == 1;
        let v: Vec<u32> = vals.iter().copied().filter(|v| time(*v) == unit_time).collect();
        match w.dec.choose(&format!("{}:claim{}", key, tag), 4) {
            0 => None,
            1 => v.first().copied(),
            _ => v.last().copied(),
        }
    };
    let lt = pick(w, "abs", &afters, &|v| v >= 500_000_000);
    let sq = pick(w, "rel", &olders, &|v| v & (1 << 22) != 0);
    let mut p2 = psbt.clone();
    p2.unsigned_tx.lock_time = bitcoin::absolute::LockTime::from_consensus(lt.unwrap_or(0));
    p2.unsigned_tx.input[i].sequence = bitcoin::Sequence(match sq {
        Some(v) => v,
        None => 0xFFFF_FFFE,
    });
    p2.unsigned_tx.version = bitcoin::transaction::Version(2);
    // who signs: everybody, or a subset
    let all_keys = env.inputs[i].key_ids.clone();
    let mask = match w.dec.choose(&format!("{}:keys", key), 3) {
        0 => u64::MAX,
        _ => mix(&[env.run_seed, fnv(key.as_bytes()), 0x6b]),
    };
    let keys: Vec<usize> = all_keys.iter().copied().enumerate().filter(|(n, _)| mask >> (n % 64) & 1 == 1).map(|(_, k)| k).collect();
    let hmask = match w.dec.choose(&format!("{}:hashes", key), 3) {
        0 | 1 => u64::MAX,
        _ => mix(&[env.run_seed, fnv(key.as_bytes()), 0x68]),
    };
    let hashes: Vec<usize> = env.uni.hashes.iter().filter(|h| env.inputs[i].spec.text.contains(&h.hex)).map(|h| h.id).enumerate().filter(|(n, _)| hmask >> (n % 64) & 1 == 1).map(|(_, h)| h).collect();
    let sat = crate::wallet::god_sat(&env, &p2.unsigned_tx, i, &keys, &hashes, mix(&[env.run_seed, fnv(key.as_bytes()), 0x61]));
    // write that world into the PSBT input, replacing what the real signers had put there
    let inp = &mut p2.inputs[i];
    inp.partial_sigs.clear();
    inp.tap_key_sig = None;
    inp.tap_script_sigs.clear();
    inp.sha256_preimages.clear();
    inp.hash256_preimages.clear();
    inp.ripemd160_preimages.clear();
    inp.hash160_preimages.clear();
    inp.sighash_type = None;
    for (k, sig) in &sat.ecdsa {
        inp.partial_sigs.insert(env.uni.keys[*k].public, *sig);
    }
    for (k, sig) in &sat.tap_key {
        inp.tap_internal_key = Some(env.uni.keys[*k].xonly);
        inp.tap_key_sig = Some(*sig);
    }
    for ((k, lh), sig) in &sat.tap_script {
        inp.tap_script_sigs.insert((env.uni.keys[*k].xonly, *lh), *sig);
    }
    for h in &sat.preimages {
        let hi = &env.uni.hashes[*h];
        let pre = hi.psbt_value.clone();
        match hi.kind {
            crate::keys::HashKind::Sha256 => {
                inp.sha256_preimages.insert(sha256::Hash::from_slice(&hi.digest).unwrap(), pre);
            }
            crate::keys::HashKind::Hash256 => {
                inp.hash256_preimages.insert(bitcoin::hashes::sha256d::Hash::from_slice(&hi.digest).unwrap(), pre);
            }
            crate::keys::HashKind::Ripemd160 => {
                inp.ripemd160_preimages.insert(bitcoin::hashes::ripemd160::Hash::from_slice(&hi.digest).unwrap(), pre);
            }
            crate::keys::HashKind::Hash160 => {
                inp.hash160_preimages.insert(hash160::Hash::from_slice(&hi.digest).unwrap(), pre);
            }
        }
    }
    w.stats.probe("what_if_world");
    if lt.is_some() && sq.is_some() {
        w.stats.probe("what_if_world_both_locks");
    }
    probe_input(w, actor, &p2, i);
}

fn probe_input(w: &mut World, actor: &str, psbt: &Psbt, i: usize) {
    let tx = psbt.unsigned_tx.clone();
    let (produced, ok) = produce_all(w, actor, psbt, i);
    let sane = w.env.inputs[i].sane;
    let kind = w.env.inputs[i].kind;
    let skel = skeleton_hash(&w.env.inputs[i].spec.text);
    let wc = {
        let env = w.env.clone();
        let sat = WorldSat::from_psbt(&env.uni, &env.by_expr, psbt, i);
        world_class(&sat)
    };
    for p in &produced {
        w.stats.oracle_calls += 1;
        let case = mix(&[skel, wc, fnv(p.label.as_bytes())]);
        w.stats.cases.insert(case);
        let has_combinator = w.env.inputs[i].spec.text.contains("(") && matches!(kind, OutKind::Wsh | OutKind::ShWsh | OutKind::ShMs | OutKind::TrScript);
        if has_combinator {
            w.stats.nontrivial_cases.insert(mix(&[case, wit_digest(&p.wit, &p.ss)]));
        }
        let res = exec_spend(w, &tx, i, &p.wit, &p.ss, Flags::STANDARD);
        match &res {
            Ok(trace) => {
                w.stats.probe(&format!("sat_ok:{:?}", trace.kind));
                if !trace.cltv.is_empty() || !trace.csv.is_empty() {
                    w.stats.probe("timelock_arm_taken");
                }
                if let (Some(a), Some(r)) = (trace.cltv.first(), trace.csv.first()) {
                    w.stats.probe("abs_and_rel_lock_on_one_path");
                    if (*a >= 500_000_000) != (*r & (1 << 22) != 0) {
                        w.stats.probe("abs_and_rel_lock_units_differ");
                    }
                }
                if trace.hash_checks.iter().any(|h| h.preimage.len() == 32 && h.preimage.iter().all(|b| *b == 0)) {
                    w.stats.probe("hash_dissatisfaction_used");
                }
                if trace.sig_checks.iter().any(|s| s.sig.is_empty()) {
                    w.stats.probe("sig_dissatisfaction_used");
                }
                if trace.kind == vm::SpendKind::TapScript && p.wit.last().map(|c| c.len()).unwrap_or(0) >= 33 + 32 * 3 {
                    w.stats.probe("tap_leaf_depth_ge3_spent");
                }
            }
            Err(e) if !sane && is_resource_error(e) => {
                // doc/resource_limitations.md: for scripts outside the sanity rules "the satisfier
                // logic does not guarantee to find the satisfactions" once a path exceeds a resource
                // limit; only descriptors the library itself declares within limits are held to them
                w.stats.probe("insane_descriptor_exceeds_resource_limit");
            }
            Err(e) => {
                if w.mon.on("C01") {
                    let cls = format!("S1:{:?}:{:?}:{}", e, kind, p.label);
                    raise_class(
                        w,
                        "C01",
                        "S1",
                        cls,
                        format!(
                            "{} returned a satisfaction that R1 rejects ({:?}) desc={} input={} scriptSig={:x} witness={:?}",
                            p.label,
                            e,
                            w.env.inputs[i].spec.text,
                            i,
                            p.ss,
                            p.wit.iter().map(|x| crate::keys::hex_of(x)).collect::<Vec<_>>()
                        ),
                        actor,
                    );
                }
                if w.mon.on("C09") && sane && is_resource_error(e) {
                    let cls = format!("Z7:{:?}:{:?}", kind, e);
                    raise_class(w, "C09", "Z7", cls, format!("sane descriptor hits resource limit {:?}: {}", e, w.env.inputs[i].spec.text), actor);
                }
            }
        }
        if w.mon.on("C09") {
            crate::mon_size::check_sizes(w, actor, i, p, res.as_ref().ok());
        }
        if w.mon.on("C13") && res.is_ok() {
            crate::mon_interp::check_interpreter_accepts(w, actor, &tx, i, p, res.as_ref().ok().unwrap());
        }
        if w.mon.on("C13") && p.label == "get_satisfaction_mall" && w.violations.is_empty() {
            crate::mon_interp::tamper(w, actor, &tx, i, &p.wit, &p.ss);
        }
        if !w.violations.is_empty() {
            return;
        }
    }
    // mode consistency facts usable without R3: non-malleable success implies malleable success
    if w.mon.on("C02") {
        if ok[0] && !ok[1] {
            raise(w, "C02", "L2-mall-weaker", format!("get_satisfaction succeeded but get_satisfaction_mall failed: {}", w.env.inputs[i].spec.text), actor);
        }
        if ok[2] && !ok[3] {
            raise(w, "C02", "L2-mall-weaker", format!("into_plan succeeded but into_plan_mall failed: {}", w.env.inputs[i].spec.text), actor);
        }
    }
    if w.mon.on("C02") || w.mon.on("C07") || w.mon.on("C03") {
        crate::mon_ref::check_reference(w, actor, psbt, i, &produced, ok);
    }
    if w.mon.on("C13") && w.violations.is_empty() {
        crate::mon_interp::reference_candidates(w, actor, &tx, i);
    }
    if w.mon.on("C17") || w.mon.on("C09") {
        crate::mon_plan::check_plan_vs_satisfier(w, actor, psbt, i, &produced, ok);
    }
}

// ---------------------------------------------------------------------------------------------
// C14: updater, finalizer, extractor
// ---------------------------------------------------------------------------------------------

fn final_fields(p: &Psbt) -> Vec<(Option<ScriptBuf>, Option<Witness>)> { p.inputs.iter().map(|i| (i.final_script_sig.clone(), i.final_script_witness.clone())).collect() }

fn is_final(inp: &bitcoin::psbt::Input) -> bool { inp.final_script_sig.is_some() || inp.final_script_witness.is_some() }

/// I1: input `i`, final in `p`, must validate on R1 in the actual unsigned transaction.
fn check_final_valid(w: &mut World, actor: &str, p: &Psbt, i: usize, how: &str) {
    if w.env.inputs[i].foreign {
        return;
    }
    let ss = p.inputs[i].final_script_sig.clone().unwrap_or_default();
    let wit: Vec<Vec<u8>> = p.inputs[i].final_script_witness.as_ref().map(|x| x.iter().map(|e| e.to_vec()).collect()).unwrap_or_default();
    if w.mon.corruption {
        // validity is judged against the prevouts recorded in that PSBT copy
        let mut prevouts = vec![];
        for (k, inp) in p.inputs.iter().enumerate() {
            let u = if let Some(u) = &inp.witness_utxo {
                u.clone()
            } else if let Some(t) = &inp.non_witness_utxo {
                match t.output.get(p.unsigned_tx.input[k].previous_output.vout as usize) {
                    Some(o) => o.clone(),
                    None => return,
                }
            } else {
                return;
            };
            prevouts.push(u);
        }
        let mut t = p.unsigned_tx.clone();
        t.input[i].script_sig = ss.clone();
        t.input[i].witness = Witness::from_slice(&wit);
        let ctx = vm::TxCtx { tx: &t, index: i, prevouts: &prevouts, secp: &w.env.secp };
        if let Err(e) = vm::verify_input(&ctx, Flags::STANDARD) {
            let cls = format!("I1:{:?}:{:?}:corrupt:{}", e, w.env.inputs[i].kind, how);
            raise_class(w, "C14", "I1", cls, format!("{} finalised input {} with an invalid spend ({:?}) [corruption cfg] desc={}", how, i, e, w.env.inputs[i].spec.text), actor);
        }
        return;
    }
    w.stats.oracle_calls += 1;
    {
        let skel = skeleton_hash(&w.env.inputs[i].spec.text);
        let mut d = fnv(ss.as_bytes());
        for x in &wit {
            d = mix(&[d, fnv(x)]);
        }
        w.stats.cases.insert(mix(&[skel, fnv(how.as_bytes())]));
        if matches!(w.env.inputs[i].kind, OutKind::Wsh | OutKind::ShWsh | OutKind::ShMs | OutKind::TrScript) {
            w.stats.nontrivial_cases.insert(mix(&[skel, fnv(how.as_bytes()), d]));
        }
    }
    match exec_spend(w, &p.unsigned_tx, i, &wit, &ss, Flags::STANDARD) {
        Ok(_) => w.stats.probe("final_valid"),
        Err(e) => {
            let cls = format!("I1:{:?}:{:?}:{}", e, w.env.inputs[i].kind, how);
            raise_class(
                w,
                "C14",
                "I1",
                cls,
                format!("{} finalised input {} with an invalid spend ({:?}) desc={} scriptSig={:x} witness={:?}", how, i, e, w.env.inputs[i].spec.text, ss, wit.iter().map(|x| crate::keys::hex_of(x)).collect::<Vec<_>>()),
                actor,
            );
        }
    }
}

/// I2 bookkeeping: once final (for a given unsigned tx at a given actor), bytes never change.
fn check_final_stable(w: &mut World, actor: &str, p: &Psbt) {
    let txid = p.unsigned_tx.compute_txid().to_string();
    for (i, inp) in p.inputs.iter().enumerate() {
        let key = (format!("{}:{}", actor, txid), i);
        if is_final(inp) {
            let cur = (inp.final_script_sig.clone(), inp.final_script_witness.clone());
            match w.final_memory.get(&key) {
                Some(prev) if *prev != cur => {
                    raise(w, "C14", "I2", format!("final input {} changed its final fields at {}", i, actor), actor);
                }
                Some(_) => {}
                None => {
                    w.final_memory.insert(key, cur);
                }
            }
        } else if w.final_memory.contains_key(&key) {
            raise(w, "C14", "I2", format!("final input {} lost its final fields at {}", i, actor), actor);
        }
    }
}

const VARIANTS: [&str; 6] = ["finalize_mut", "finalize_mall_mut", "finalize_inp_mut*", "finalize(by value)", "finalize_inp_mall_mut*", "finalize_inp(by value)*"];

fn err_index(e: &miniscript::psbt::Error) -> Option<usize> {
    match e {
        miniscript::psbt::Error::InputError(_, i) => Some(*i),
        _ => None,
    }
}

/// Run finalisation variant `v` on `psbt` with all C14 monitors. Returns whether all inputs are final.
pub fn finalize_with_monitors(w: &mut World, actor: &str, psbt: &mut Psbt, v: u64) -> bool {
    let on = w.mon.on("C14");
    let n = psbt.inputs.len();
    if n != w.env.inputs.len() {
        return false;
    }
    check_final_stable(w, actor, psbt);
    let before = psbt.clone();
    let was_final: Vec<bool> = before.inputs.iter().map(is_final).collect();
    let how = VARIANTS[(v as usize) % VARIANTS.len()];
    let secp = w.env.secp.clone();
    let mut failed: BTreeSet<usize> = BTreeSet::new();
    let mut any_err = false;
    match v % 6 {
        0 | 1 | 3 => {
            let mut work = psbt.clone();
            let r = guard(w, how, actor, |_| match v % 6 {
                0 => work.finalize_mut(&secp),
                1 => work.finalize_mall_mut(&secp),
                _ => match work.clone().finalize(&secp) {
                    Ok(p) => {
                        work = p;
                        Ok(())
                    }
                    Err((p, e)) => {
                        work = p;
                        Err(e)
                    }
                },
            });
            match r {
                None => return false,
                Some(Ok(())) => {}
                Some(Err(list)) => {
                    any_err = true;
                    if std::env::var("VERIF_DEBUG").is_ok() {
                        eprintln!("debug: {} at {} -> {:?}", how, actor, list);
                    }
                    for e in &list {
                        match err_index(e) {
                            Some(i) => {
                                failed.insert(i);
                            }
                            None => {
                                // whole-PSBT error: nothing may have changed
                                for i in 0..n {
                                    failed.insert(i);
                                }
                            }
                        }
                    }
                }
            }
            *psbt = work;
        }
        _ => {
            // one input at a time, in a decided order; persist (serialize) between inputs
            let mut order: Vec<usize> = (0..n).collect();
            let rot = w.dec.choose(&format!("forder:{}:{}", actor, w.stats.attempts), n as u64) as usize;
            order.rotate_left(rot);
            for i in order {
                let snapshot = psbt.clone();
                let mut work = psbt.clone();
                let r = guard(w, how, actor, |_| match v % 6 {
                    2 => work.finalize_inp_mut(&secp, i),
                    4 => work.finalize_inp_mall_mut(&secp, i),
                    _ => match work.clone().finalize_inp(&secp, i) {
                        Ok(p) => {
                            work = p;
                            Ok(())
                        }
                        Err((p, e)) => {
                            work = p;
                            Err(e)
                        }
                    },
                });
                match r {
                    None => return false,
                    Some(Ok(())) => *psbt = work,
                    Some(Err(_)) => {
                        any_err = true;
                        failed.insert(i);
                        if on && work != snapshot {
                            raise(w, "C14", "I3", format!("{} failed on input {} but changed the PSBT", how, i), actor);
                        }
                        *psbt = work;
                    }
                }
                w.stats.probe("persist_between_inputs");
                // crash point between two inputs: what has been finalised so far is what is persisted
                if actor == "coord" && w.dec.fault(crate::scenario::Fault::CoordCrash, &format!("between-inputs:{}:{}", w.stats.attempts, i), 6, 100, 1) != 0 {
                    w.stats.probe("crash_between_inputs");
                    w.coord.crash_requested = true;
                    break;
                }
            }
            // I5-order: which inputs can be finalised must not depend on the order of the
            // finalize-single-input calls: the same PSBT, the inputs taken in the opposite order
            if on && n > 1 && !w.mon.corruption && !w.coord.crash_requested && w.violations.is_empty() {
                let mut other = before.clone();
                let mut rev: Vec<usize> = (0..n).collect();
                rev.rotate_left(rot);
                rev.reverse();
                let mut ok_rev: BTreeSet<usize> = BTreeSet::new();
                for i in rev {
                    let r = guard(w, "finalize_inp(opposite order)", actor, |_| if v % 6 == 4 { other.finalize_inp_mall_mut(&secp, i) } else { other.finalize_inp_mut(&secp, i) });
                    if let Some(Ok(())) = r {
                        ok_rev.insert(i);
                    }
                }
                let ok_fwd: BTreeSet<usize> = (0..n).filter(|i| !failed.contains(i)).collect();
                w.stats.probe("i5_order_checked");
                if ok_fwd != ok_rev {
                    raise_class(
                        w,
                        "C14",
                        "I5-order",
                        if crate::mon_psbt::cross_input_key_origins(&before) { "I5-order:cross-input-key-origins".to_string() } else { "I5-order".to_string() },
                        format!("finalising the inputs one by one succeeds for {:?} in one order and for {:?} in the opposite order ({})", ok_fwd, ok_rev, how),
                        actor,
                    );
                }
            }
        }
    }
    if any_err {
        w.stats.finalize_err += 1;
    } else {
        w.stats.finalize_ok += 1;
    }
    // C02 through the finalizer: the malleable finalizers use the malleable satisfier over exactly the
    // PSBT's contents; if a standard spend exists from those contents they must not report the input
    // as unsatisfiable. Only for PSBTs the library's own descriptor updater filled in, all UTXOs
    // present, honest messages.
    if w.mon.on("C02") && !w.mon.corruption && matches!(v % 6, 1 | 4) && !w.coord.crash_requested {
        for i in 0..n {
            if w.env.inputs[i].foreign || was_final[i] || is_final(&psbt.inputs[i]) || !failed.contains(&i) {
                continue;
            }
            // descriptors outside the sanity rules: the reference is the library's own malleable
            // satisfier over the same PSBT input (what the finalizer is documented to run)
            if !w.env.inputs[i].sane {
                // (only where the sanity verdict comes from the IF-related legacy switches: other
                // insane scripts - resource limits, signature-less paths - the finalizer refuses by
                // design)
                if !crate::wallet::legacy_sane_but_for_if(&w.env.inputs[i].desc) {
                    continue;
                }
                let complete = before.inputs.iter().all(|inp| inp.witness_utxo.is_some() || inp.non_witness_utxo.is_some());
                let text = w.env.inputs[i].spec.text.clone();
                let recorded = before.inputs[i].bip32_derivation.len().max(before.inputs[i].tap_key_origins.len());
                if !complete || ((text.contains("pkh(") || text.contains("pk_h(")) && recorded < w.env.inputs[i].key_ids.len()) {
                    continue;
                }
                let desc = w.env.inputs[i].desc.clone();
                let r = guard(w, "psbt-satisfier get_satisfaction_mall", actor, |_| desc.get_satisfaction_mall(miniscript::psbt::PsbtInputSatisfier::new(&before, i)));
                if let Some(Ok((wit, ss))) = r {
                    w.stats.probe("l2_finalize_insane_checked");
                    if exec_spend(w, &before.unsigned_tx, i, &wit, &ss, Flags::STANDARD).is_ok() {
                        let cls = format!("L2-finalize:{:?}:satisfier-succeeds:{}", w.env.inputs[i].kind, how.trim_end_matches('*'));
                        raise_class(
                            w,
                            "C02",
                            "L2-finalize",
                            cls,
                            format!("{} reports input {} as not finalisable although get_satisfaction_mall over the same PSBT input returns a standard spend: {}", how, i, text),
                            actor,
                        );
                        return false;
                    }
                }
                continue;
            }
            let complete = before.inputs.iter().all(|inp| inp.witness_utxo.is_some() || inp.non_witness_utxo.is_some());
            if !complete {
                continue;
            }
            // a key that is only known by its hash has to come from the key-origin fields
            let text = &w.env.inputs[i].spec.text;
            // (`Plan::update_psbt_input` records only what its own plan needs: an input updated that
            // way lacks the keys of the other paths by design)
            let recorded = before.inputs[i].bip32_derivation.len().max(before.inputs[i].tap_key_origins.len());
            if (text.contains("pkh(") || text.contains("pk_h(")) && recorded < w.env.inputs[i].key_ids.len() {
                continue;
            }
            w.stats.probe("l2_finalize_checked");
            if crate::mon_ref::ref_exists_std(w, &before, i) == Some(true) {
                let cls = format!("L2-finalize:{:?}:{}", w.env.inputs[i].kind, how.trim_end_matches('*'));
                raise_class(
                    w,
                    "C02",
                    "L2-finalize",
                    cls,
                    format!("{} reports input {} as not finalisable although a standard spend exists from the signatures, preimages and locks in the PSBT (R3, accepted by R1): {}", how, i, w.env.inputs[i].spec.text),
                    actor,
                );
                return false;
            }
        }
    }
    // The free-function front ends (`psbt::finalize_mall`, and the deprecated `psbt::finalize`) run
    // BIP174's sanity rules first (every ECDSA signature carries the announced sighash type). When
    // the PSBT obeys those rules (judged here, not by the library) and the method variant has just
    // finalised every input, the free function has the same material and must do the same.
    if (w.mon.on("C02") || w.mon.on("C14")) && !w.mon.corruption && matches!(v % 6, 0 | 1) && !any_err && !w.coord.crash_requested && !was_final.iter().all(|b| *b) && w.violations.is_empty() {
        if crate::mon_psbt::sigs_follow_announced_sighash(w, &before) {
            let mall = v % 6 == 1;
            let mut free = before.clone();
            #[allow(deprecated)]
            let r = guard(w, "psbt::finalize (free function)", actor, |_| if mall { miniscript::psbt::finalize_mall(&mut free, &secp) } else { miniscript::psbt::finalize(&mut free, &secp) });
            w.stats.probe("free_function_finalize_checked");
            let name = if mall { "psbt::finalize_mall" } else { "psbt::finalize" };
            match r {
                Some(Err(e)) => {
                    let i = err_index(&e).unwrap_or(0).min(n - 1);
                    let prop = if w.mon.on("C02") { "C02" } else { "C14" };
                    let cls = format!("L2-finalize:{:?}:free-function", w.env.inputs[i].kind);
                    raise_class(
                        w,
                        prop,
                        "L2-finalize",
                        cls,
                        format!("{} refuses a PSBT ({}) that {} finalises completely and whose signatures all carry the announced sighash type; input {}: {} (sighash field {:?})", name, e, how, i, w.env.inputs[i].spec.text, before.inputs[i].sighash_type.map(|t| t.to_u32())),
                        actor,
                    );
                    return false;
                }
                Some(Ok(())) => {
                    if free != *psbt {
                        raise(w, "C14", "I4b", format!("{} (free function) and {} give different PSBTs", name, how), actor);
                    }
                }
                None => {}
            }
        }
    }
    // ... and an input that was filled in from a plan must finalise once that plan can be completed
    // from the PSBT's contents (the plan's own path; other paths need fields the plan did not record)
    if w.mon.on("C02") && !w.mon.corruption && actor == "coord" && matches!(v % 6, 1 | 4) && !w.coord.crash_requested && w.violations.is_empty() {
        for i in 0..n {
            if w.env.inputs[i].foreign || was_final[i] || is_final(&psbt.inputs[i]) || !failed.contains(&i) || !w.env.inputs[i].sane {
                continue;
            }
            let plan = match w.coord.plans.get(i).and_then(|p| p.as_ref()) {
                Some(pi) if pi.used_for_update => pi.plan.clone(),
                _ => continue,
            };
            if !before.inputs.iter().all(|inp| inp.witness_utxo.is_some() || inp.non_witness_utxo.is_some()) {
                continue;
            }
            let env = w.env.clone();
            let sat = WorldSat::from_psbt(&env.uni, &env.by_expr, &before, i);
            w.stats.probe("l2_finalize_planned_checked");
            if let Some(Ok((wit, ss))) = guard(w, "Plan::satisfy", actor, |_| plan.satisfy(&sat)) {
                if exec_spend(w, &before.unsigned_tx, i, &wit, &ss, Flags::STANDARD).is_ok() {
                    let cls = format!("L2-finalize:{:?}:planned:{}", w.env.inputs[i].kind, how.trim_end_matches('*'));
                    raise_class(
                        w,
                        "C02",
                        "L2-finalize",
                        cls,
                        format!("{} reports input {} as not finalisable although it was filled in with Plan::update_psbt_input and that plan completes to a standard spend from the PSBT's contents: {}", how, i, w.env.inputs[i].spec.text),
                        actor,
                    );
                    return false;
                }
            }
        }
    }
    if on {
        for i in 0..n {
            let now_final = is_final(&psbt.inputs[i]);
            if failed.contains(&i) {
                // I3: failed inputs are untouched
                if psbt.inputs[i] != before.inputs[i] {
                    raise(w, "C14", "I3", format!("{} reported failure for input {} but modified it", how, i), actor);
                }
            } else if was_final[i] {
                // I2: already-final inputs are never altered
                if psbt.inputs[i] != before.inputs[i] {
                    raise(w, "C14", "I2", format!("{} altered already-final input {}", how, i), actor);
                }
            } else if now_final {
                check_final_valid(w, actor, psbt, i, how);
                // finalisation clears everything but the utxo and final fields (BIP174)
                let inp = &psbt.inputs[i];
                if !inp.partial_sigs.is_empty() || inp.redeem_script.is_some() || inp.witness_script.is_some() || !inp.bip32_derivation.is_empty() || inp.tap_key_sig.is_some() || !inp.tap_script_sigs.is_empty() || inp.sighash_type.is_some() {
                    raise(w, "C14", "I1-clear", format!("{} left non-final fields on finalised input {}", how, i), actor);
                }
                if inp.witness_utxo != before.inputs[i].witness_utxo || inp.non_witness_utxo != before.inputs[i].non_witness_utxo {
                    raise(w, "C14", "I3-utxo", format!("{} dropped or changed a UTXO field of input {}", how, i), actor);
                }
            } else if matches!(v % 6, 0 | 1 | 3) && !w.coord.crash_requested {
                // whole-PSBT variants: an input that is neither final nor named in the error list.
                // The property asks that a failed input is left untouched and that success means
                // final; it does not ask that the error list names the input (finalising input 0
                // reports InputError(MissingUtxo, 1) when it is input 1's UTXO that is missing).
                if !any_err {
                    raise(w, "C14", "I3", format!("{} returned Ok but input {} is not final", how, i), actor);
                } else if psbt.inputs[i] != before.inputs[i] {
                    raise(w, "C14", "I3", format!("{} did not finalise input {} but modified it", how, i), actor);
                } else {
                    w.stats.probe("failed_input_not_named_in_error_list");
                }
            }
            if !w.violations.is_empty() {
                return false;
            }
        }
        if psbt.unsigned_tx != before.unsigned_tx || psbt.outputs != before.outputs || psbt.xpub != before.xpub {
            raise(w, "C14", "I3", format!("{} changed global PSBT data", how), actor);
        }
        // I4: idempotence — a second identical call changes nothing and gives the same verdict
        let mut again = psbt.clone();
        let r2 = guard(w, "finalize (second call)", actor, |_| match v % 6 {
            1 | 4 => again.finalize_mall_mut(&secp).is_ok(),
            _ => again.finalize_mut(&secp).is_ok(),
        });
        if let Some(ok2) = r2 {
            let all_final_now = psbt.inputs.iter().all(is_final);
            if again != *psbt && matches!(v % 6, 0 | 1 | 3) {
                raise(w, "C14", "I4", format!("second {} call changed the PSBT", how), actor);
            }
            if matches!(v % 6, 0 | 1 | 3) && ok2 != !any_err {
                raise(w, "C14", "I4", format!("second {} call gave a different verdict (first ok={}, second ok={})", how, !any_err, ok2), actor);
            }
            if all_final_now && !ok2 {
                raise(w, "C14", "I4", "finalize on an all-final PSBT failed".to_string(), actor);
            }
        }
        // I4b / I5: by-value == _mut; one-by-one in another order == all at once; permuted rebuild
        if matches!(v % 6, 0 | 1) && w.violations.is_empty() {
            crate::mon_psbt::check_order_free(w, actor, &before, psbt, v % 6 == 1);
        }
    }
    check_final_stable(w, actor, psbt);
    psbt.inputs.iter().all(is_final)
}

/// I6: extraction.
pub fn extract_with_monitors(w: &mut World, actor: &str, psbt: &Psbt) -> Option<Transaction> {
    let secp = w.env.secp.clone();
    let has_foreign = w.env.inputs.iter().any(|i| i.foreign);
    let r = guard(w, "extract", actor, |_| psbt.extract(&secp))?;
    let all_final = psbt.inputs.iter().all(is_final);
    match r {
        Ok(tx) => {
            if w.mon.on("C14") {
                if !all_final {
                    raise(w, "C14", "I6", "extract succeeded although not every input is final".into(), actor);
                }
                let mut expect = psbt.unsigned_tx.clone();
                for (i, inp) in psbt.inputs.iter().enumerate() {
                    expect.input[i].script_sig = inp.final_script_sig.clone().unwrap_or_default();
                    expect.input[i].witness = inp.final_script_witness.clone().unwrap_or_default();
                }
                if tx != expect {
                    raise(w, "C14", "I6", "extracted transaction differs from unsigned tx + final fields".into(), actor);
                }
                if !w.mon.corruption {
                    let prevouts = prevouts_env(w);
                    for i in 0..tx.input.len() {
                        let ctx = vm::TxCtx { tx: &tx, index: i, prevouts: &prevouts, secp: &w.env.secp };
                        if let Err(e) = vm::verify_input(&ctx, Flags::STANDARD) {
                            let cls = format!("I6:{:?}:{:?}", e, w.env.inputs[i].kind);
                            raise_class(w, "C14", "I6", cls, format!("extracted transaction input {} is invalid: {:?} desc={}", i, e, w.env.inputs[i].spec.text), actor);
                        }
                    }
                }
            }
            w.stats.probe("extracted");
            Some(tx)
        }
        Err(e) => {
            if all_final && !has_foreign && w.mon.on("C14") && !w.mon.corruption {
                raise(w, "C14", "I6", format!("every input is final but extract failed: {}", e), actor);
            }
            if all_final && has_foreign {
                // interpreter check cannot understand the foreign input; fall back to rust-bitcoin
                return Some(psbt.clone().extract_tx_unchecked_fee_rate());
            }
            None
        }
    }
}

/// I7: updater role.
pub fn update_with_monitors(w: &mut World, psbt: &mut Psbt, i: usize, plan: Option<&Plan<DefiniteDescriptorKey>>) {
    let desc = w.env.inputs[i].desc.clone();
    let before = psbt.inputs[i].clone();
    match plan {
        None => {
            let r = guard(w, "update_input_with_descriptor", "coord", |_| psbt.update_input_with_descriptor(i, &desc));
            match r {
                Some(Ok(())) => {}
                Some(Err(e)) => {
                    // the descriptor matches the UTXO by construction, so the updater must accept unless
                    // the UTXO form is illegal for this descriptor type (witness_utxo only on a legacy type)
                    if w.mon.on("C14") && !w.mon.corruption {
                        raise(w, "C14", "I7", format!("update_input_with_descriptor refused a matching descriptor: {:?} desc={}", e, w.env.inputs[i].spec.text), "coord");
                    }
                    return;
                }
                None => return,
            }
        }
        Some(pl) => {
            guard(w, "Plan::update_psbt_input", "coord", |_| pl.update_psbt_input(&mut psbt.inputs[i]));
            w.stats.probe("plan_update_psbt_input");
            // the same update again must change nothing
            if w.mon.on("C14") {
                let mut again = psbt.inputs[i].clone();
                guard(w, "Plan::update_psbt_input(again)", "coord", |_| pl.update_psbt_input(&mut again));
                if again != psbt.inputs[i] {
                    raise(w, "C14", "I7-idempotent", format!("Plan::update_psbt_input applied twice gives a different input than applied once: {}", w.env.inputs[i].spec.text), "coord");
                }
                // ... and a plan applied to an input that the descriptor updater has already filled in
                // (a wallet that records everything first and the chosen path afterwards) may add, never
                // take away: every key origin, leaf hash and script recorded before is still there, and
                // the result is consistent with the descriptor
                if !w.mon.corruption && w.violations.is_empty() {
                    let mut layered = psbt.clone();
                    layered.inputs[i] = before.clone();
                    if let Some(Ok(())) = guard(w, "update_input_with_descriptor(before plan)", "coord", |_| layered.update_input_with_descriptor(i, &desc)) {
                        let full = layered.inputs[i].clone();
                        guard(w, "Plan::update_psbt_input(layered)", "coord", |_| pl.update_psbt_input(&mut layered.inputs[i]));
                        w.stats.probe("plan_update_on_descriptor_updated_input");
                        let now = &layered.inputs[i];
                        let lost_origin = full.tap_key_origins.iter().any(|(k, (leaves, src))| match now.tap_key_origins.get(k) {
                            Some((l2, s2)) => s2 != src || leaves.iter().any(|l| !l2.contains(l)),
                            None => true,
                        });
                        // (bip32_derivation is keyed by the curve point: one key under two names - compressed
                        // and uncompressed - has one slot, and either writer may put its own name's origin there)
                        let lost_other = full.bip32_derivation.keys().any(|k| !now.bip32_derivation.contains_key(k)) || full.tap_scripts.iter().any(|(k, v)| now.tap_scripts.get(k) != Some(v));
                        if lost_origin || lost_other {
                            raise(w, "C14", "I7-layered", format!("Plan::update_psbt_input on an input already filled in by update_input_with_descriptor loses recorded {}: {}", if lost_origin { "taproot key origins / leaf hashes" } else { "key origins or leaf scripts" }, w.env.inputs[i].spec.text), "coord");
                        } else {
                            crate::mon_psbt::check_updater(w, &layered, i, &before, true);
                        }
                    }
                }
            }
        }
    }
    if w.mon.on("C14") {
        crate::mon_psbt::check_updater(w, psbt, i, &before, plan.is_some());
    }
}

/// Output updater: `update_output_with_descriptor` on output `o` with the descriptor of input `di`.
pub fn update_output_with_monitors(w: &mut World, psbt: &mut Psbt, o: usize, di: usize) {
    let desc = w.env.inputs[di].desc.clone();
    let r = guard(w, "update_output_with_descriptor", "coord", |_| psbt.update_output_with_descriptor(o, &desc));
    match r {
        Some(Ok(())) => {
            if w.mon.on("C14") {
                crate::mon_psbt::check_output_updater(w, psbt, o, di);
            }
        }
        Some(Err(e)) => {
            if w.mon.on("C14") && !w.mon.corruption {
                raise(w, "C14", "I7-output", format!("update_output_with_descriptor refused a matching descriptor: {:?} desc={}", e, w.env.inputs[di].spec.text), "coord");
            }
        }
        None => {}
    }
    // a descriptor that does not match the output must be refused and leave it unchanged
    if w.mon.on("C14") && w.env.inputs.len() > 1 {
        let other = (di + 1) % w.env.inputs.len();
        if w.env.inputs[other].spk != w.env.inputs[di].spk {
            let od = w.env.inputs[other].desc.clone();
            let mut copy = psbt.clone();
            match guard(w, "update_output_with_descriptor(mismatch)", "coord", |_| copy.update_output_with_descriptor(o, &od)) {
                Some(Ok(())) => raise(w, "C14", "I7-output", "output updater accepted a descriptor that does not match the output".to_string(), "coord"),
                Some(Err(_)) => {
                    if copy.outputs[o] != psbt.outputs[o] {
                        raise(w, "C14", "I7-output", "output updater refused a mismatching descriptor but changed the output".to_string(), "coord");
                    }
                }
                None => {}
            }
        }
    }
}

/// A counterparty's PSBT whose witness_utxo contradicts the non_witness_utxo for the referenced
/// outpoint (the classic amount lie), signed by signers that follow witness_utxo as rust-bitcoin's
/// `Psbt::sign` does. The unsigned transaction commits to the txid, so the real output is known
/// from the PSBT itself: a finalizer that reports success has produced a spend that is invalid
/// for the output the transaction references.
pub fn utxo_lie_probe(w: &mut World, actor: &str, psbt: &Psbt) {
    if !w.mon.on("C14") || !w.mon.corruption || psbt.inputs.len() != w.env.inputs.len() {
        return;
    }
    let env = w.env.clone();
    for i in 0..env.inputs.len() {
        let ic = &env.inputs[i];
        if ic.foreign || !matches!(ic.kind, OutKind::Wpkh | OutKind::Wsh | OutKind::ShWpkh | OutKind::ShWsh) || is_final(&psbt.inputs[i]) {
            continue;
        }
        if psbt.unsigned_tx.input[i].previous_output != ic.outpoint || w.dec.choose(&format!("utxo-lie:{}:{}", w.stats.attempts, i), 4) != 1 {
            continue;
        }
        let mut p2 = psbt.clone();
        let mut lie = ic.utxo.clone();
        lie.value = bitcoin::Amount::from_sat(lie.value.to_sat().saturating_sub(777));
        p2.inputs[i].non_witness_utxo = Some(ic.fund_tx.clone());
        p2.inputs[i].witness_utxo = Some(lie.clone());
        let mut believed: Vec<TxOut> = env.inputs.iter().map(|x| x.utxo.clone()).collect();
        believed[i] = lie;
        let hashes: Vec<usize> = env.uni.hashes.iter().filter(|h| ic.spec.text.contains(&h.hex)).map(|h| h.id).collect();
        let sat = crate::wallet::god_sat_over(&env, &p2.unsigned_tx, i, &ic.key_ids, &hashes, mix(&[env.run_seed, 0x6c6965, i as u64]), &|_, _| true, believed);
        p2.inputs[i].partial_sigs.clear();
        p2.inputs[i].sighash_type = None;
        for (k, sig) in &sat.ecdsa {
            p2.inputs[i].partial_sigs.insert(env.uni.keys[*k].public, *sig);
        }
        for h in &sat.preimages {
            let hi = &env.uni.hashes[*h];
            match hi.kind {
                crate::keys::HashKind::Sha256 => {
                    p2.inputs[i].sha256_preimages.insert(sha256::Hash::from_slice(&hi.digest).unwrap(), hi.psbt_value.clone());
                }
                crate::keys::HashKind::Hash256 => {
                    p2.inputs[i].hash256_preimages.insert(bitcoin::hashes::sha256d::Hash::from_slice(&hi.digest).unwrap(), hi.psbt_value.clone());
                }
                crate::keys::HashKind::Ripemd160 => {
                    p2.inputs[i].ripemd160_preimages.insert(bitcoin::hashes::ripemd160::Hash::from_slice(&hi.digest).unwrap(), hi.psbt_value.clone());
                }
                crate::keys::HashKind::Hash160 => {
                    p2.inputs[i].hash160_preimages.insert(hash160::Hash::from_slice(&hi.digest).unwrap(), hi.psbt_value.clone());
                }
            }
        }
        w.stats.probe("utxo_lie_probe");
        let secp = w.env.secp.clone();
        let r = guard(w, "finalize_inp_mut(utxo lie)", actor, |_| p2.finalize_inp_mall_mut(&secp, i));
        if let Some(Ok(())) = r {
            if is_final(&p2.inputs[i]) {
                let ss = p2.inputs[i].final_script_sig.clone().unwrap_or_default();
                let wit: Vec<Vec<u8>> = p2.inputs[i].final_script_witness.as_ref().map(|x| x.iter().map(|e| e.to_vec()).collect()).unwrap_or_default();
                if let Err(e) = exec_spend(w, &p2.unsigned_tx, i, &wit, &ss, Flags::CONSENSUS) {
                    let cls = format!("I1:utxo-lie:{:?}", w.env.inputs[i].kind);
                    raise_class(
                        w,
                        "C14",
                        "I1",
                        cls,
                        format!("finalize_inp_mall_mut finalised input {} although its witness_utxo (amount lowered by 777 sat) contradicts the non_witness_utxo of the referenced outpoint; the spend is invalid for the real output ({:?}): {}", i, e, w.env.inputs[i].spec.text),
                        actor,
                    );
                    return;
                }
            }
        }
    }
}

pub fn probe_plan(w: &mut World, i: usize, assets: &Assets) {
    if w.mon.on("C17") || w.mon.on("C11") || w.mon.on("C01") {
        crate::mon_plan::check_plan_from_assets(w, i, assets);
    }
}

pub fn on_broadcast(w: &mut World, tx: &Transaction, tampered: u64) {
    if w.mon.on("C13") {
        crate::mon_interp::watcher(w, tx, tampered);
    }
    if w.mon.on("C03") && tampered != 0 {
        crate::mon_ref::relay_attack(w, tx, tampered);
    }
}

pub fn end_of_run(w: &mut World) {
    if w.mon.on("C02") || w.mon.on("C14") {
        crate::mon_ref::liveness(w);
    }
}

pub fn sha256_of(b: &[u8]) -> [u8; 32] { sha256::Hash::hash(b).to_byte_array() }
pub fn hash160_of(b: &[u8]) -> [u8; 20] { hash160::Hash::hash(b).to_byte_array() }
