//! Explore / replay / minimise driver for engine A, evidence writer, known-findings filter.

use std::collections::{BTreeMap, BTreeSet};
use std::sync::atomic::{AtomicU64, Ordering};
use std::sync::{Arc, Mutex};
use std::time::Instant;

use serde_json::{json, Value};

use crate::monitors::{MonCfg, Violation};
use crate::scenario::{Fault, GenBias, Scenario};
use crate::sim::{RunResult, World};

/// Root of the verification tree: $VERIF_ROOT when set by bin/check (so that a snapshot run writes
/// into its own tree), /verif otherwise.
pub fn verif_dir() -> String { std::env::var("VERIF_ROOT").unwrap_or_else(|_| "/verif".to_string()) }

pub struct RunOutcome {
    pub run: u64,
    pub scenario: Scenario,
    pub result: RunResult,
}

pub fn run_one(seed: u64, prop: &str, run: u64, bias: &GenBias, mon: &MonCfg, keep_log: bool) -> RunOutcome {
    let (sc, uni) = Scenario::generate(seed, prop, run, bias);
    let result = exec_scenario(&sc, Some(uni), prop, mon, keep_log);
    RunOutcome { run, scenario: sc, result }
}

pub fn exec_scenario(sc: &Scenario, uni: Option<crate::keys::KeyUniverse>, prop: &str, mon: &MonCfg, keep_log: bool) -> RunResult {
    let uni = uni.unwrap_or_else(|| sc.rebuild_universe());
    match World::new(sc, uni, mon, prop) {
        Ok(mut w) => {
            w.keep_log = keep_log;
            w.run()
        }
        Err(e) => RunResult {
            stats: Default::default(),
            violations: vec![],
            decisions: BTreeMap::new(),
            fired: BTreeMap::new(),
            log_digest: 0,
            log: vec![],
            harness_errors: vec![format!("world setup failed: {}", e)],
            artifacts: vec![],
        },
    }
}

#[derive(Clone, Debug)]
pub struct KnownFinding {
    pub property: String,
    pub class_prefix: String,
    pub text_contains: Option<String>,
    pub what: String,
}

pub fn load_known_findings() -> Vec<KnownFinding> {
    let path = format!("{}/KNOWN_FINDINGS.json", verif_dir());
    let s = match std::fs::read_to_string(&path) {
        Ok(s) => s,
        Err(_) => return vec![],
    };
    let v: Value = match serde_json::from_str(&s) {
        Ok(v) => v,
        Err(_) => return vec![],
    };
    let mut out = vec![];
    if let Some(arr) = v["known"].as_array() {
        for k in arr {
            out.push(KnownFinding {
                property: k["property"].as_str().unwrap_or("").to_string(),
                class_prefix: k["class_prefix"].as_str().unwrap_or("\u{0}").to_string(),
                text_contains: k["detail_contains"].as_str().map(|s| s.to_string()),
                what: k["what"].as_str().unwrap_or("").to_string(),
            });
        }
    }
    out
}

pub fn match_known<'a>(kf: &'a [KnownFinding], v: &Violation) -> Option<&'a KnownFinding> {
    kf.iter().find(|k| k.property == v.prop && v.class.starts_with(&k.class_prefix) && k.text_contains.as_ref().map(|t| v.detail.contains(t)).unwrap_or(true))
}

#[derive(Default)]
pub struct Agg {
    pub runs: u64,
    pub events: u64,
    pub blocks: u64,
    pub sim_seconds: u64,
    pub attempts: u64,
    pub confirmed: u64,
    pub oracle_calls: u64,
    pub fired: BTreeMap<String, u64>,
    pub probes: BTreeMap<String, u64>,
    pub shapes: BTreeSet<u64>,
    pub cases: BTreeSet<u64>,
    pub nontrivial: BTreeSet<u64>,
    pub samples: Vec<Value>,
    pub harness_errors: Vec<String>,
    pub digest: u64,
    pub by_kind: BTreeMap<String, u64>,
    pub by_source: BTreeMap<String, u64>,
    pub sane_inputs: u64,
    pub insane_inputs: u64,
}

impl Agg {
    pub fn add(&mut self, o: &RunOutcome) {
        let s = &o.result.stats;
        self.runs += 1;
        self.events += s.events;
        self.blocks += s.blocks;
        self.sim_seconds += s.sim_seconds;
        self.attempts += s.attempts;
        self.oracle_calls += s.oracle_calls;
        if s.confirmed {
            self.confirmed += 1;
        }
        for (f, n) in &o.result.fired {
            *self.fired.entry(f.name().to_string()).or_insert(0) += n;
        }
        for (p, n) in &s.probes {
            *self.probes.entry(p.clone()).or_insert(0) += n;
        }
        self.shapes.insert(s.shape);
        self.cases.extend(s.cases.iter().copied());
        self.nontrivial.extend(s.nontrivial_cases.iter().copied());
        self.digest = crate::rng::mix(&[self.digest, o.run, o.result.log_digest]);
        for i in &o.scenario.inputs {
            *self.by_kind.entry(crate::scenario::kind_name(i.kind).to_string()).or_insert(0) += 1;
            *self.by_source.entry(i.source.clone()).or_insert(0) += 1;
        }
        if self.samples.len() < 3 {
            self.samples.push(json!({
                "run": o.run,
                "inputs": o.scenario.inputs.iter().map(|i| i.text.clone()).collect::<Vec<_>>(),
                "signers": o.scenario.knobs.n_signers,
                "replicas": o.scenario.knobs.n_replicas,
                "enabled_faults": o.scenario.knobs.enabled_faults.iter().map(|f| f.name()).collect::<Vec<_>>(),
                "faults_fired": o.result.fired.iter().map(|(f, n)| format!("{}x{}", f.name(), n)).collect::<Vec<_>>(),
                "events": s.events, "blocks": s.blocks, "attempts": s.attempts, "confirmed": s.confirmed,
            }));
        }
        for e in &o.result.harness_errors {
            if self.harness_errors.len() < 10 {
                self.harness_errors.push(format!("run {}: {}", o.run, e));
            }
        }
    }
}

pub struct ExploreCfg {
    pub seed: u64,
    pub prop: String,
    pub runs: u64,
    pub workers: usize,
    pub bias: GenBias,
    pub mon: MonCfg,
    pub first_run: u64,
    pub keep_going: bool,
}

pub struct Found {
    pub outcome: RunOutcome,
    pub violation: Violation,
}

/// Run `cfg.runs` runs in parallel; results are merged in run-index order so the output is the same
/// at any worker count. Returns aggregate, unknown violations (first per class), known hits.
pub fn explore(cfg: &ExploreCfg, known: &[KnownFinding]) -> (Agg, Vec<Found>, BTreeMap<String, u64>) {
    let mut agg = Agg::default();
    let mut found: Vec<Found> = vec![];
    let mut seen_classes: BTreeSet<String> = BTreeSet::new();
    let mut known_hits: BTreeMap<String, u64> = BTreeMap::new();
    let batch = 1024u64;
    let mut start = 0u64;
    while start < cfg.runs {
        let end = (start + batch).min(cfg.runs);
        let next = Arc::new(AtomicU64::new(start));
        let results: Arc<Mutex<BTreeMap<u64, RunOutcome>>> = Arc::new(Mutex::new(BTreeMap::new()));
        std::thread::scope(|sc| {
            for _ in 0..cfg.workers.max(1) {
                let next = next.clone();
                let results = results.clone();
                sc.spawn(move || loop {
                    let k = next.fetch_add(1, Ordering::SeqCst);
                    if k >= end {
                        break;
                    }
                    let run = cfg.first_run + k;
                    let o = run_one(cfg.seed, &cfg.prop, run, &cfg.bias, &cfg.mon, false);
                    results.lock().unwrap().insert(run, o);
                });
            }
        });
        let results = Arc::try_unwrap(results).ok().unwrap().into_inner().unwrap();
        for (_, o) in results {
            agg.add(&o);
            for (k, n) in &o.result.stats.known_hits {
                *known_hits.entry(k.clone()).or_insert(0) += n;
            }
            if let Some(v) = o.result.violations.first().cloned() {
                if let Some(k) = match_known(known, &v) {
                    *known_hits.entry(format!("property={} {}", k.property, k.what)).or_insert(0) += 1;
                } else if seen_classes.insert(format!("{}|{}", v.prop, v.class)) && found.len() < 5 {
                    found.push(Found { outcome: o, violation: v });
                }
            }
        }
        start = end;
        if !found.is_empty() && !cfg.keep_going {
            break;
        }
    }
    (agg, found, known_hits)
}

/// Shrink a failing scenario while the same violation class persists.
pub fn minimise(sc: &Scenario, prop: &str, mon: &MonCfg, class: &str, taken: &BTreeMap<String, u64>) -> (Scenario, Option<Violation>) {
    let same = |s: &Scenario| -> Option<(Violation, BTreeMap<String, u64>, u64)> {
        let r = exec_scenario(s, None, prop, mon, false);
        r.violations.first().filter(|v| v.class == class).cloned().map(|v| (v, r.decisions, r.stats.events))
    };
    // step 0: switch to explicit (replay) mode with exactly the decisions that were taken
    let mut cur = sc.clone();
    cur.decisions = Some(taken.clone());
    let mut best_v = match same(&cur) {
        Some((v, _, ev)) => {
            cur.knobs.max_events = (ev as u32 + 1).min(cur.knobs.max_events);
            Some(v)
        }
        None => return (sc.clone(), None), // does not reproduce in replay mode: report unminimised
    };
    // step 1: drop decisions, chunks first
    let mut keys: Vec<String> = cur.decisions.as_ref().unwrap().keys().cloned().collect();
    let mut chunk = (keys.len() / 2).max(1);
    let mut budget = 400;
    while chunk >= 1 && budget > 0 {
        let mut i = 0;
        let mut progress = false;
        while i < keys.len() && budget > 0 {
            let hi = (i + chunk).min(keys.len());
            let mut trial = cur.clone();
            for k in &keys[i..hi] {
                trial.decisions.as_mut().unwrap().remove(k);
            }
            budget -= 1;
            if let Some((v, _, ev)) = same(&trial) {
                cur = trial;
                cur.knobs.max_events = (ev as u32 + 1).min(cur.knobs.max_events);
                best_v = Some(v);
                keys.drain(i..hi);
                progress = true;
            } else {
                i = hi;
            }
        }
        if chunk == 1 && !progress {
            break;
        }
        chunk = if chunk > 1 { chunk / 2 } else { 1 };
    }
    // step 2: simplify knobs
    for step in 0..6 {
        let mut trial = cur.clone();
        match step {
            0 => trial.knobs.n_replicas = 0,
            1 => trial.knobs.serde_roundtrip = false,
            2 => trial.knobs.stripped_replies = false,
            3 => trial.knobs.psbt_sighash_all = false,
            4 => trial.knobs.foreign_final_input = false,
            _ => trial.knobs.enabled_faults.clear(),
        }
        if let Some((v, _, _)) = same(&trial) {
            cur = trial;
            best_v = Some(v);
        }
    }
    // step 2b: structural shrinking of descriptors: hoist a sub-expression to the top
    for idx in 0..cur.inputs.len() {
        let mut improved = true;
        let mut rounds = 0;
        while improved && rounds < 6 {
            improved = false;
            rounds += 1;
            for cand in hoist_candidates(&cur.inputs[idx].text) {
                if cand.len() >= cur.inputs[idx].text.len() {
                    continue;
                }
                let mut trial = cur.clone();
                trial.inputs[idx].text = cand;
                if let Some((v, _, _)) = same(&trial) {
                    cur = trial;
                    best_v = Some(v);
                    improved = true;
                    break;
                }
            }
        }
    }
    // step 3: drop inputs
    let mut idx = 0;
    while cur.inputs.len() > 1 && idx < cur.inputs.len() {
        let mut trial = cur.clone();
        trial.inputs.remove(idx);
        if let Some((v, _, _)) = same(&trial) {
            cur = trial;
            best_v = Some(v);
        } else {
            idx += 1;
        }
    }
    (cur, best_v)
}

pub fn write_replay(prop: &str, sc: &Scenario, v: &Violation, minimised: bool) -> String {
    let dir = format!("{}/replays", verif_dir());
    let _ = std::fs::create_dir_all(&dir);
    let path = format!("{}/{}-{}-{}.json", dir, prop, sc.seed, sc.run);
    let j = json!({
        "property": prop,
        "engine": "spendsim",
        "invariant": v.inv,
        "class": v.class,
        "violation": { "actor": v.actor, "sim_time": v.time, "seq": v.seq, "detail": v.detail },
        "minimised": minimised,
        "scenario": sc.to_json(),
    });
    let _ = std::fs::write(&path, serde_json::to_string_pretty(&j).unwrap());
    path
}

pub fn replay_file(path: &str, mon_override: Option<MonCfg>) -> Result<(String, Option<Violation>, String), String> {
    let s = std::fs::read_to_string(path).map_err(|e| e.to_string())?;
    let v: Value = serde_json::from_str(&s).map_err(|e| e.to_string())?;
    let prop = v["property"].as_str().ok_or("no property")?.to_string();
    let class = v["class"].as_str().unwrap_or("").to_string();
    let sc = Scenario::from_json(&v["scenario"]).ok_or("bad scenario")?;
    let mon = mon_override.unwrap_or_else(|| crate::props::mon_for(&prop));
    let r = exec_scenario(&sc, None, &prop, &mon, true);
    Ok((prop, r.violations.first().cloned(), class))
}

pub fn write_evidence(prop: &str, tier: &str, seed: u64, agg: &Agg, wall_s: f64, violations: u64, extra: Value, rule: &str, assumptions: &[&str]) {
    let dir = format!("{}/evidence", verif_dir());
    let _ = std::fs::create_dir_all(&dir);
    let runs_per_hour = if wall_s > 0.0 { (agg.runs as f64 / wall_s * 3600.0) as u64 } else { 0 };
    let probes_zero: Vec<&str> = crate::props::EXPECTED_PROBES.iter().copied().filter(|p| !agg.probes.contains_key(*p)).collect();
    let mut cov = json!({
        "evaluations": agg.oracle_calls.max(agg.runs),
        "distinct_nontrivial": agg.nontrivial.len(),
        "rule": rule,
        "samples": agg.samples,
        "simulated_runs": agg.runs,
        "runs_per_hour": runs_per_hour,
        "seeds": format!("VERIF_SEED={} runs 0..{}", seed, agg.runs),
        "simulated_seconds": agg.sim_seconds,
        "simulated_blocks": agg.blocks,
        "events": agg.events,
        "attempt_events": agg.attempts,
        "runs_reaching_chain_confirmation": agg.confirmed,
        "faults_fired": agg.fired,
        "distinct_run_shapes": agg.shapes.len(),
        "distinct_cases_decided": agg.cases.len(),
        "reach_probes": agg.probes,
        "reach_probes_never_hit": probes_zero,
        "inputs_by_output_type": agg.by_kind,
        "inputs_by_workload_source": agg.by_source,
        "event_log_digest": format!("{:016x}", agg.digest),
        "components": {
            "real_code": ["miniscript Descriptor/Plan/PsbtExt/Interpreter calls inside Coordinator, Replica, Signer(sighash_msg), Watcher", "rust-bitcoin Psbt combine/serialize/deserialize", "secp256k1 signing and verification"],
            "stubs": ["transport, chain clock, crash/restart, relay (simulator)", "R1 Script VM, R2 finality, R3 reference satisfier, R4 BIP341, R5 policy evaluator (oracles written in the harness)"],
        },
        "harness_errors": agg.harness_errors,
    });
    if let (Some(a), Some(b)) = (cov.as_object_mut(), extra.as_object()) {
        for (k, v) in b {
            a.insert(k.clone(), v.clone());
        }
    }
    let j = json!({
        "property_id": prop,
        "tier": tier,
        "seed": seed,
        "level": "exploration",
        "coverage": cov,
        "assumptions": assumptions,
        "wall_s": wall_s,
        "violations": violations,
    });
    let _ = std::fs::write(format!("{}/{}.json", dir, prop), serde_json::to_string_pretty(&j).unwrap());
}

pub fn fault_names() -> Vec<&'static str> { crate::scenario::ALL_FAULTS.iter().map(|f: &Fault| f.name()).collect() }

pub fn now() -> Instant { Instant::now() }

/// Simpler descriptors of the same output type built from sub-expressions of `text`.
pub fn hoist_candidates(text: &str) -> Vec<String> {
    use miniscript::descriptor::ShInner;
    use miniscript::{Descriptor, DescriptorPublicKey, Miniscript, ScriptContext};
    use std::str::FromStr;
    fn subs<Ctx: ScriptContext>(ms: &Miniscript<DescriptorPublicKey, Ctx>) -> Vec<String> {
        let p = miniscript::ValidationParams::CONSENSUS;
        let mut v: Vec<String> = ms.iter().skip(1).filter(|m| m.validate(&p).is_ok()).map(|m| m.to_string()).collect();
        v.sort_by_key(|s| s.len());
        v.dedup();
        v
    }
    let d = match crate::wallet::parse_descriptor(text) {
        Ok(d) => d,
        Err(_) => return vec![],
    };
    let mut out = vec![];
    match &d {
        Descriptor::Wsh(w) => out.extend(subs(w.as_inner()).into_iter().map(|s| format!("wsh({})", s))),
        Descriptor::Sh(sh) => match sh.as_inner() {
            ShInner::Wsh(w) => out.extend(subs(w.as_inner()).into_iter().map(|s| format!("sh(wsh({}))", s))),
            ShInner::Ms(m) => out.extend(subs(m).into_iter().map(|s| format!("sh({})", s))),
            _ => {}
        },
        Descriptor::Tr(tr) => {
            let ik = tr.internal_key().to_string();
            let leaves: Vec<String> = tr.leaves().map(|l| l.miniscript().to_string()).collect();
            if leaves.len() > 1 {
                for l in &leaves {
                    out.push(format!("tr({},{})", ik, l));
                }
            }
            if leaves.len() == 1 {
                for l in tr.leaves() {
                    out.extend(subs(&**l.miniscript()).into_iter().map(|s| format!("tr({},{})", ik, s)));
                }
            }
        }
        _ => {}
    }
    out.retain(|c| crate::wallet::parse_descriptor(c).is_ok());
    out
}
