//! Self-test vectors for R1, one group per flag and per limit, written from the BIPs and the
//! documented behaviour of Bitcoin Core. Run in setup and at the start of every check.

use bitcoin::hashes::{hash160, sha256, Hash};
use bitcoin::key::TapTweak;
use bitcoin::secp256k1::{self, Keypair, Message, Secp256k1, SecretKey};
use bitcoin::taproot::TapLeafHash;
use bitcoin::{absolute, transaction, Amount, OutPoint, ScriptBuf, Sequence, Transaction, TxIn, TxOut, Witness};

use crate::vm::{self, push_data, Flags, VmError};
use crate::wallet::{ref_digest, SpendCtx};

fn spend_tx(spk: &[u8], lock: u32, seq: u32, version: i32) -> (Transaction, Vec<TxOut>) {
    let prev = TxOut { value: Amount::from_sat(100_000), script_pubkey: ScriptBuf::from_bytes(spk.to_vec()) };
    let tx = Transaction {
        version: transaction::Version(version),
        lock_time: absolute::LockTime::from_consensus(lock),
        input: vec![TxIn { previous_output: OutPoint { txid: bitcoin::Txid::all_zeros(), vout: 0 }, script_sig: ScriptBuf::new(), sequence: Sequence(seq), witness: Witness::new() }],
        output: vec![TxOut { value: Amount::from_sat(90_000), script_pubkey: ScriptBuf::from_bytes(vec![0x51]) }],
    };
    (tx, vec![prev])
}

fn run(tx: &Transaction, prev: &[TxOut], ss: Vec<u8>, wit: Vec<Vec<u8>>, flags: Flags) -> Result<vm::ExecTrace, VmError> {
    let secp = Secp256k1::verification_only();
    let mut t = tx.clone();
    t.input[0].script_sig = ScriptBuf::from_bytes(ss);
    t.input[0].witness = Witness::from_slice(&wit);
    let ctx = vm::TxCtx { tx: &t, index: 0, prevouts: prev, secp: &secp };
    vm::verify_input(&ctx, flags)
}

fn pushes(items: &[&[u8]]) -> Vec<u8> {
    let mut v = vec![];
    for i in items {
        push_data(&mut v, i);
    }
    v
}

fn p2wsh(script: &[u8]) -> Vec<u8> {
    let mut v = vec![0x00, 0x20];
    v.extend_from_slice(sha256::Hash::hash(script).as_byte_array());
    v
}
fn p2sh(script: &[u8]) -> Vec<u8> {
    let mut v = vec![0xa9, 0x14];
    v.extend_from_slice(hash160::Hash::hash(script).as_byte_array());
    v.push(0x87);
    v
}

struct T {
    fails: Vec<String>,
    n: usize,
}
impl T {
    fn expect(&mut self, name: &str, got: Result<vm::ExecTrace, VmError>, want: Result<(), VmError>) {
        self.n += 1;
        let ok = match (&got, &want) {
            (Ok(_), Ok(())) => true,
            (Err(a), Err(b)) => a == b,
            _ => false,
        };
        if !ok {
            self.fails.push(format!("{}: got {:?}, want {:?}", name, got.map(|_| ()), want));
        }
    }
}

pub fn run_selftests() -> Result<usize, Vec<String>> {
    let secp = Secp256k1::new();
    let sk = SecretKey::from_slice(&[7u8; 32]).unwrap();
    let pk = secp256k1::PublicKey::from_secret_key(&secp, &sk);
    let pkc = pk.serialize().to_vec();
    let pku = pk.serialize_uncompressed().to_vec();
    let kp = Keypair::from_secret_key(&secp, &sk);
    let (xonly, _) = kp.x_only_public_key();
    let mut t = T { fails: vec![], n: 0 };
    let std = Flags::STANDARD;
    let con = Flags::CONSENSUS;
    let sign_ecdsa = |tx: &Transaction, prev: &[TxOut], ctx: &SpendCtx, ht: u32| -> Vec<u8> {
        let d = ref_digest(tx, prev, 0, ctx, ht).unwrap();
        let s = secp.sign_ecdsa(&Message::from_digest(d), &sk);
        let mut v = s.serialize_der().to_vec();
        v.push(ht as u8);
        v
    };
    let high_s = |sig: &[u8]| -> Vec<u8> {
        // negate s: n - s
        let ht = sig[sig.len() - 1];
        let s = secp256k1::ecdsa::Signature::from_der(&sig[..sig.len() - 1]).unwrap();
        let c = s.serialize_compact();
        let n: [u8; 32] = [0xFF, 0xFF, 0xFF, 0xFF, 0xFF, 0xFF, 0xFF, 0xFF, 0xFF, 0xFF, 0xFF, 0xFF, 0xFF, 0xFF, 0xFF, 0xFE, 0xBA, 0xAE, 0xDC, 0xE6, 0xAF, 0x48, 0xA0, 0x3B, 0xBF, 0xD2, 0x5E, 0x8C, 0xD0, 0x36, 0x41, 0x41];
        let mut out = [0u8; 32];
        let mut borrow = 0i32;
        for i in (0..32).rev() {
            let d = n[i] as i32 - c[32 + i] as i32 - borrow;
            if d < 0 {
                out[i] = (d + 256) as u8;
                borrow = 1;
            } else {
                out[i] = d as u8;
                borrow = 0;
            }
        }
        // hand-build DER with the high s
        let mut r = c[..32].to_vec();
        while r.len() > 1 && r[0] == 0 && r[1] & 0x80 == 0 {
            r.remove(0);
        }
        if r[0] & 0x80 != 0 {
            r.insert(0, 0);
        }
        let mut sv = out.to_vec();
        while sv.len() > 1 && sv[0] == 0 && sv[1] & 0x80 == 0 {
            sv.remove(0);
        }
        if sv[0] & 0x80 != 0 {
            sv.insert(0, 0);
        }
        let mut der = vec![0x30, (4 + r.len() + sv.len()) as u8, 0x02, r.len() as u8];
        der.extend_from_slice(&r);
        der.push(0x02);
        der.push(sv.len() as u8);
        der.extend_from_slice(&sv);
        der.push(ht);
        der
    };

    // ---- P2PK ------------------------------------------------------------------------------
    let mut spk = vec![];
    push_data(&mut spk, &pkc);
    spk.push(0xac);
    let (tx, prev) = spend_tx(&spk, 0, 0xffff_ffff, 2);
    let ctx = SpendCtx::Legacy { script_code: ScriptBuf::from_bytes(spk.clone()) };
    let sig = sign_ecdsa(&tx, &prev, &ctx, 1);
    t.expect("p2pk ok", run(&tx, &prev, pushes(&[&sig]), vec![], std), Ok(()));
    let mut bad = sig.clone();
    let l = bad.len();
    bad[l - 2] ^= 1;
    t.expect("p2pk bad sig consensus", run(&tx, &prev, pushes(&[&bad]), vec![], con), Err(VmError::EvalFalse));
    t.expect("p2pk bad sig NULLFAIL", run(&tx, &prev, pushes(&[&bad]), vec![], std), Err(VmError::NullFail));
    t.expect("p2pk empty sig", run(&tx, &prev, pushes(&[&[]]), vec![], std), Err(VmError::EvalFalse));
    let hs = high_s(&sig);
    t.expect("LOW_S standard", run(&tx, &prev, pushes(&[&hs]), vec![], std), Err(VmError::SigHighS));
    t.expect("high S consensus ok", run(&tx, &prev, pushes(&[&hs]), vec![], con), Ok(()));
    // non-minimal push of the signature
    let mut nm = vec![0x4c, sig.len() as u8];
    nm.extend_from_slice(&sig);
    t.expect("MINIMALDATA push", run(&tx, &prev, nm.clone(), vec![], std), Err(VmError::MinimalData));
    t.expect("non-minimal push consensus ok", run(&tx, &prev, nm, vec![], con), Ok(()));
    // scriptSig with a non-push opcode
    let mut np = pushes(&[&sig]);
    np.push(0x61);
    t.expect("SIGPUSHONLY", run(&tx, &prev, np.clone(), vec![], std), Err(VmError::SigPushOnly));
    t.expect("sig not push only consensus ok", run(&tx, &prev, np, vec![], con), Ok(()));
    // extra element: CLEANSTACK
    t.expect("CLEANSTACK", run(&tx, &prev, pushes(&[&[1], &sig]), vec![], std), Err(VmError::CleanStack));
    t.expect("extra element consensus ok", run(&tx, &prev, pushes(&[&[1], &sig]), vec![], con), Ok(()));
    // undefined hashtype
    let sig0 = {
        let d = ref_digest(&tx, &prev, 0, &ctx, 0x04).unwrap();
        let s = secp.sign_ecdsa(&Message::from_digest(d), &sk);
        let mut v = s.serialize_der().to_vec();
        v.push(0x04);
        v
    };
    t.expect("STRICTENC hashtype", run(&tx, &prev, pushes(&[&sig0]), vec![], std), Err(VmError::SigHashType));
    t.expect("odd hashtype consensus ok", run(&tx, &prev, pushes(&[&sig0]), vec![], con), Ok(()));
    // unexpected witness
    t.expect("unexpected witness", run(&tx, &prev, pushes(&[&sig]), vec![vec![1]], con), Err(VmError::WitnessUnexpected));
    // non-DER signature
    let mut nd = sig.clone();
    nd[1] = nd[1].wrapping_add(1);
    t.expect("DERSIG consensus", run(&tx, &prev, pushes(&[&nd]), vec![], con), Err(VmError::SigDer));

    // ---- P2PKH with uncompressed key -----------------------------------------------------------
    let mut spk = vec![0x76, 0xa9, 0x14];
    spk.extend_from_slice(hash160::Hash::hash(&pku).as_byte_array());
    spk.extend_from_slice(&[0x88, 0xac]);
    let (tx, prev) = spend_tx(&spk, 0, 0xffff_ffff, 2);
    let sig = sign_ecdsa(&tx, &prev, &SpendCtx::Legacy { script_code: ScriptBuf::from_bytes(spk.clone()) }, 1);
    t.expect("p2pkh uncompressed ok", run(&tx, &prev, pushes(&[&sig, &pku]), vec![], std), Ok(()));
    t.expect("p2pkh wrong key", run(&tx, &prev, pushes(&[&sig, &pkc]), vec![], std), Err(VmError::EqualVerify));

    // ---- P2WPKH ------------------------------------------------------------------------------
    let mut spk = vec![0x00, 0x14];
    spk.extend_from_slice(hash160::Hash::hash(&pkc).as_byte_array());
    let mut code = vec![0x76, 0xa9, 0x14];
    code.extend_from_slice(hash160::Hash::hash(&pkc).as_byte_array());
    code.extend_from_slice(&[0x88, 0xac]);
    let (tx, prev) = spend_tx(&spk, 0, 0xffff_ffff, 2);
    let sig = sign_ecdsa(&tx, &prev, &SpendCtx::SegwitV0 { script_code: ScriptBuf::from_bytes(code) }, 1);
    t.expect("p2wpkh ok", run(&tx, &prev, vec![], vec![sig.clone(), pkc.clone()], std), Ok(()));
    t.expect("p2wpkh malleated scriptSig", run(&tx, &prev, vec![0x00], vec![sig.clone(), pkc.clone()], con), Err(VmError::WitnessMalleated));
    t.expect("p2wpkh 3 items", run(&tx, &prev, vec![], vec![vec![], sig.clone(), pkc.clone()], con), Err(VmError::WitnessProgramMismatch));
    // uncompressed key in p2wpkh
    let mut spk_u = vec![0x00, 0x14];
    spk_u.extend_from_slice(hash160::Hash::hash(&pku).as_byte_array());
    let mut code_u = vec![0x76, 0xa9, 0x14];
    code_u.extend_from_slice(hash160::Hash::hash(&pku).as_byte_array());
    code_u.extend_from_slice(&[0x88, 0xac]);
    let (txu, prevu) = spend_tx(&spk_u, 0, 0xffff_ffff, 2);
    let sigu = sign_ecdsa(&txu, &prevu, &SpendCtx::SegwitV0 { script_code: ScriptBuf::from_bytes(code_u) }, 1);
    t.expect("WITNESS_PUBKEYTYPE", run(&txu, &prevu, vec![], vec![sigu.clone(), pku.clone()], std), Err(VmError::WitnessPubkeyType));
    t.expect("uncompressed in witness consensus ok", run(&txu, &prevu, vec![], vec![sigu, pku.clone()], con), Ok(()));

    // ---- P2WSH: MINIMALIF, NULLFAIL, limits ---------------------------------------------------
    let ws = vec![0x63, 0x51, 0x67, 0x51, 0x68]; // IF 1 ELSE 1 ENDIF
    let (tx, prev) = spend_tx(&p2wsh(&ws), 0, 0xffff_ffff, 2);
    t.expect("wsh IF [1] ok", run(&tx, &prev, vec![], vec![vec![1], ws.clone()], std), Ok(()));
    t.expect("wsh IF [] ok", run(&tx, &prev, vec![], vec![vec![], ws.clone()], std), Ok(()));
    t.expect("wsh MINIMALIF [2]", run(&tx, &prev, vec![], vec![vec![2], ws.clone()], std), Err(VmError::MinimalIf));
    t.expect("wsh MINIMALIF [1,0]", run(&tx, &prev, vec![], vec![vec![1, 0], ws.clone()], std), Err(VmError::MinimalIf));
    t.expect("wsh [2] consensus ok", run(&tx, &prev, vec![], vec![vec![2], ws.clone()], con), Ok(()));
    t.expect("wsh wrong script", run(&tx, &prev, vec![], vec![vec![1], vec![0x51]], con), Err(VmError::WitnessProgramMismatch));
    t.expect("wsh extra item cleanstack (consensus)", run(&tx, &prev, vec![], vec![vec![1], vec![1], ws.clone()], con), Err(VmError::CleanStack));
    // legacy P2SH: MINIMALIF not enforced
    let (txs, prevs) = spend_tx(&p2sh(&ws), 0, 0xffff_ffff, 2);
    t.expect("p2sh IF [2] standard ok", run(&txs, &prevs, pushes(&[&[2], &ws]), vec![], std), Ok(()));
    // P2SH-P2WSH
    let redeem = p2wsh(&ws);
    let (txn, prevn) = spend_tx(&p2sh(&redeem), 0, 0xffff_ffff, 2);
    t.expect("sh-wsh ok", run(&txn, &prevn, pushes(&[&redeem]), vec![vec![1], ws.clone()], std), Ok(()));
    let mut two = pushes(&[&[1]]);
    two.extend_from_slice(&pushes(&[&redeem]));
    t.expect("sh-wsh malleated scriptSig", run(&txn, &prevn, two, vec![vec![1], ws.clone()], con), Err(VmError::WitnessMalleatedP2sh));
    // NULLFAIL: <pk> CHECKSIG NOT
    let mut ws2 = vec![];
    push_data(&mut ws2, &pkc);
    ws2.extend_from_slice(&[0xac, 0x91]);
    let (tx2, prev2) = spend_tx(&p2wsh(&ws2), 0, 0xffff_ffff, 2);
    let good = sign_ecdsa(&tx2, &prev2, &SpendCtx::SegwitV0 { script_code: ScriptBuf::from_bytes(ws2.clone()) }, 1);
    let mut wrong = good.clone();
    let l = wrong.len();
    wrong[l - 2] ^= 1;
    t.expect("NULLFAIL checksig", run(&tx2, &prev2, vec![], vec![wrong.clone(), ws2.clone()], std), Err(VmError::NullFail));
    t.expect("failed sig consensus ok", run(&tx2, &prev2, vec![], vec![wrong, ws2.clone()], con), Ok(()));
    t.expect("empty sig NOT ok", run(&tx2, &prev2, vec![], vec![vec![], ws2.clone()], std), Ok(()));
    t.expect("good sig NOT false", run(&tx2, &prev2, vec![], vec![good, ws2.clone()], std), Err(VmError::EvalFalse));
    // CHECKMULTISIG 1-of-2 with NULLDUMMY / NULLFAIL
    let sk2 = SecretKey::from_slice(&[9u8; 32]).unwrap();
    let pk2 = secp256k1::PublicKey::from_secret_key(&secp, &sk2).serialize().to_vec();
    let mut ms = vec![0x51];
    push_data(&mut ms, &pkc);
    push_data(&mut ms, &pk2);
    ms.extend_from_slice(&[0x52, 0xae]);
    let (tx3, prev3) = spend_tx(&p2wsh(&ms), 0, 0xffff_ffff, 2);
    let s3 = sign_ecdsa(&tx3, &prev3, &SpendCtx::SegwitV0 { script_code: ScriptBuf::from_bytes(ms.clone()) }, 1);
    t.expect("multisig ok", run(&tx3, &prev3, vec![], vec![vec![], s3.clone(), ms.clone()], std), Ok(()));
    t.expect("NULLDUMMY consensus", run(&tx3, &prev3, vec![], vec![vec![1], s3.clone(), ms.clone()], con), Err(VmError::NullDummy));
    let mut s3w = s3.clone();
    let l = s3w.len();
    s3w[l - 2] ^= 1;
    t.expect("multisig NULLFAIL", run(&tx3, &prev3, vec![], vec![vec![], s3w.clone(), ms.clone()], std), Err(VmError::NullFail));
    t.expect("multisig bad sig consensus false", run(&tx3, &prev3, vec![], vec![vec![], s3w, ms.clone()], con), Err(VmError::EvalFalse));
    // standardness limits
    let wbig = {
        let mut v = vec![0x75; 1]; // DROP
        v.push(0x51);
        v
    };
    let (tx4, prev4) = spend_tx(&p2wsh(&wbig), 0, 0xffff_ffff, 2);
    t.expect("wsh 80-byte item ok", run(&tx4, &prev4, vec![], vec![vec![1; 80], wbig.clone()], std), Ok(()));
    t.expect("wsh 81-byte item nonstandard", run(&tx4, &prev4, vec![], vec![vec![1; 81], wbig.clone()], std), Err(VmError::StdWitnessStackItemSize));
    t.expect("wsh 81-byte item consensus ok", run(&tx4, &prev4, vec![], vec![vec![1; 81], wbig.clone()], con), Ok(()));
    t.expect("wsh 521-byte item", run(&tx4, &prev4, vec![], vec![vec![1; 521], wbig.clone()], con), Err(VmError::PushSize));
    // many items: script of 100 DROPs then 1
    let mut drops = vec![0x75; 100];
    drops.push(0x51);
    let (tx5, prev5) = spend_tx(&p2wsh(&drops), 0, 0xffff_ffff, 2);
    let mut w100: Vec<Vec<u8>> = (0..100).map(|_| vec![1]).collect();
    w100.push(drops.clone());
    t.expect("wsh 100 items ok", run(&tx5, &prev5, vec![], w100, std), Ok(()));
    let mut drops1 = vec![0x75; 101];
    drops1.push(0x51);
    let (tx6, prev6) = spend_tx(&p2wsh(&drops1), 0, 0xffff_ffff, 2);
    let mut w101: Vec<Vec<u8>> = (0..101).map(|_| vec![1]).collect();
    w101.push(drops1.clone());
    t.expect("wsh 101 items nonstandard", run(&tx6, &prev6, vec![], w101.clone(), std), Err(VmError::StdWitnessStackItems));
    t.expect("wsh 101 items consensus ok", run(&tx6, &prev6, vec![], w101, con), Ok(()));
    // op count: 201 NOPs + 1 ok; 202 NOPs fail
    let mut nops = vec![0x61; 201];
    nops.insert(0, 0x51);
    let (tx7, prev7) = spend_tx(&p2wsh(&nops), 0, 0xffff_ffff, 2);
    t.expect("201 ops ok", run(&tx7, &prev7, vec![], vec![nops.clone()], con), Ok(()));
    let mut nops2 = vec![0x61; 202];
    nops2.insert(0, 0x51);
    let (tx8, prev8) = spend_tx(&p2wsh(&nops2), 0, 0xffff_ffff, 2);
    t.expect("202 ops fail", run(&tx8, &prev8, vec![], vec![nops2.clone()], con), Err(VmError::OpCount));
    // unexecuted ops still count
    let mut un = vec![0x00, 0x63];
    un.extend_from_slice(&vec![0x61; 200]);
    un.extend_from_slice(&[0x68, 0x51]);
    let (tx9, prev9) = spend_tx(&p2wsh(&un), 0, 0xffff_ffff, 2);
    t.expect("unexecuted ops count", run(&tx9, &prev9, vec![], vec![un.clone()], con), Err(VmError::OpCount));
    // script size 3601 nonstandard
    let mut bigs = vec![0x51];
    for _ in 0..1800 {
        bigs.extend_from_slice(&[0x51, 0x75]);
    }
    let (tx10, prev10) = spend_tx(&p2wsh(&bigs), 0, 0xffff_ffff, 2);
    t.expect("wsh script 3601 nonstandard", run(&tx10, &prev10, vec![], vec![bigs.clone()], std), Err(VmError::StdWitnessScriptSize));
    // stack size: 1001 pushes
    let mut many = vec![];
    for _ in 0..1001 {
        many.push(0x51);
    }
    let (tx11, prev11) = spend_tx(&p2wsh(&many), 0, 0xffff_ffff, 2);
    t.expect("stack 1001", run(&tx11, &prev11, vec![], vec![many.clone()], con), Err(VmError::StackSize));
    // disabled opcode even if unexecuted
    let dis = vec![0x00, 0x63, 0x7e, 0x68, 0x51];
    let (tx12, prev12) = spend_tx(&p2wsh(&dis), 0, 0xffff_ffff, 2);
    t.expect("disabled opcode", run(&tx12, &prev12, vec![], vec![dis.clone()], con), Err(VmError::DisabledOpcode(0x7e)));

    // ---- CLTV / CSV -----------------------------------------------------------------------------
    let mut cl = vec![];
    push_data(&mut cl, &vm::num_to_vec(1000));
    cl.extend_from_slice(&[0xb1, 0x75, 0x51]);
    let spk = p2wsh(&cl);
    let (tx, prev) = spend_tx(&spk, 1000, 0xffff_fffe, 2);
    t.expect("cltv ok", run(&tx, &prev, vec![], vec![cl.clone()], std), Ok(()));
    let (tx, prev) = spend_tx(&spk, 999, 0xffff_fffe, 2);
    t.expect("cltv too early", run(&tx, &prev, vec![], vec![cl.clone()], std), Err(VmError::UnsatisfiedLocktime));
    let (tx, prev) = spend_tx(&spk, 1000, 0xffff_ffff, 2);
    t.expect("cltv final sequence", run(&tx, &prev, vec![], vec![cl.clone()], con), Err(VmError::UnsatisfiedLocktime));
    let (tx, prev) = spend_tx(&spk, 1_600_000_000, 0xffff_fffe, 2);
    t.expect("cltv unit mismatch", run(&tx, &prev, vec![], vec![cl.clone()], con), Err(VmError::UnsatisfiedLocktime));
    let mut cs = vec![];
    push_data(&mut cs, &vm::num_to_vec(10));
    cs.extend_from_slice(&[0xb2, 0x75, 0x51]);
    let spk = p2wsh(&cs);
    let (tx, prev) = spend_tx(&spk, 0, 10, 2);
    t.expect("csv ok", run(&tx, &prev, vec![], vec![cs.clone()], std), Ok(()));
    let (tx, prev) = spend_tx(&spk, 0, 9, 2);
    t.expect("csv too early", run(&tx, &prev, vec![], vec![cs.clone()], con), Err(VmError::UnsatisfiedLocktime));
    let (tx, prev) = spend_tx(&spk, 0, 10, 1);
    t.expect("csv version 1", run(&tx, &prev, vec![], vec![cs.clone()], con), Err(VmError::UnsatisfiedLocktime));
    let (tx, prev) = spend_tx(&spk, 0, (1 << 22) | 10, 2);
    t.expect("csv unit mismatch", run(&tx, &prev, vec![], vec![cs.clone()], con), Err(VmError::UnsatisfiedLocktime));
    let (tx, prev) = spend_tx(&spk, 0, (1u32 << 31) | 10, 2);
    t.expect("csv disabled sequence", run(&tx, &prev, vec![], vec![cs.clone()], con), Err(VmError::UnsatisfiedLocktime));

    // ---- taproot ---------------------------------------------------------------------------------
    let tweaked = kp.tap_tweak(&secp, None);
    let (outk, _) = tweaked.to_keypair().x_only_public_key();
    let mut spk = vec![0x51, 0x20];
    spk.extend_from_slice(&outk.serialize());
    let (tx, prev) = spend_tx(&spk, 0, 0xffff_ffff, 2);
    let d = ref_digest(&tx, &prev, 0, &SpendCtx::TapKey, 0).unwrap();
    let s = secp.sign_schnorr_with_aux_rand(&Message::from_digest(d), &tweaked.to_keypair(), &[1; 32]);
    t.expect("tap key ok", run(&tx, &prev, vec![], vec![s.as_ref().to_vec()], std), Ok(()));
    let mut sb = s.as_ref().to_vec();
    sb[5] ^= 1;
    t.expect("tap key bad sig", run(&tx, &prev, vec![], vec![sb], con), Err(VmError::SchnorrSig));
    let mut s65 = s.as_ref().to_vec();
    s65.push(0);
    t.expect("tap key 65 bytes with 0 hashtype", run(&tx, &prev, vec![], vec![s65], con), Err(VmError::SchnorrSigHashType));
    // script path: single leaf <xonly> CHECKSIG
    let mut leaf = vec![];
    push_data(&mut leaf, &xonly.serialize());
    leaf.push(0xac);
    let lh = vm::tapleaf_hash(0xc0, &leaf);
    let tw = vm::taptweak_hash(&xonly.serialize(), Some(&lh));
    let (q, parity) = xonly.add_tweak(&secp, &secp256k1::Scalar::from_be_bytes(tw).unwrap()).unwrap();
    let mut spk = vec![0x51, 0x20];
    spk.extend_from_slice(&q.serialize());
    let mut cb = vec![0xc0 | (parity == secp256k1::Parity::Odd) as u8];
    cb.extend_from_slice(&xonly.serialize());
    let (tx, prev) = spend_tx(&spk, 0, 0xffff_ffff, 2);
    let d = ref_digest(&tx, &prev, 0, &SpendCtx::TapLeaf { leaf_hash: TapLeafHash::from_byte_array(lh) }, 0).unwrap();
    let s = secp.sign_schnorr_with_aux_rand(&Message::from_digest(d), &kp, &[2; 32]);
    t.expect("tap script ok", run(&tx, &prev, vec![], vec![s.as_ref().to_vec(), leaf.clone(), cb.clone()], std), Ok(()));
    let mut cb2 = cb.clone();
    cb2[0] ^= 1;
    t.expect("tap wrong parity", run(&tx, &prev, vec![], vec![s.as_ref().to_vec(), leaf.clone(), cb2], con), Err(VmError::TaprootCommitmentMismatch));
    let mut cb3 = cb.clone();
    cb3.push(0);
    t.expect("tap control size", run(&tx, &prev, vec![], vec![s.as_ref().to_vec(), leaf.clone(), cb3], con), Err(VmError::TaprootWrongControlSize));
    t.expect("tap empty sig false", run(&tx, &prev, vec![], vec![vec![], leaf.clone(), cb.clone()], con), Err(VmError::EvalFalse));
    let mut sbad = s.as_ref().to_vec();
    sbad[0] ^= 1;
    t.expect("tap bad sig hard fail", run(&tx, &prev, vec![], vec![sbad, leaf.clone(), cb.clone()], con), Err(VmError::SchnorrSig));
    // annex is nonstandard
    t.expect("annex nonstandard", run(&tx, &prev, vec![], vec![s.as_ref().to_vec(), leaf.clone(), cb.clone(), vec![0x50, 1]], std), Err(VmError::StdAnnex));
    // tapscript MINIMALIF is consensus; CHECKMULTISIG disabled; OP_SUCCESS
    let mk_tap = |leaf: &[u8]| -> (Vec<u8>, Vec<u8>) {
        let lh = vm::tapleaf_hash(0xc0, leaf);
        let tw = vm::taptweak_hash(&xonly.serialize(), Some(&lh));
        let (q, parity) = xonly.add_tweak(&secp, &secp256k1::Scalar::from_be_bytes(tw).unwrap()).unwrap();
        let mut spk = vec![0x51, 0x20];
        spk.extend_from_slice(&q.serialize());
        let mut cb = vec![0xc0 | (parity == secp256k1::Parity::Odd) as u8];
        cb.extend_from_slice(&xonly.serialize());
        (spk, cb)
    };
    let (spk, cbx) = mk_tap(&ws);
    let (tx, prev) = spend_tx(&spk, 0, 0xffff_ffff, 2);
    t.expect("tapscript IF [1] ok", run(&tx, &prev, vec![], vec![vec![1], ws.clone(), cbx.clone()], std), Ok(()));
    t.expect("tapscript MINIMALIF consensus", run(&tx, &prev, vec![], vec![vec![2], ws.clone(), cbx.clone()], con), Err(VmError::MinimalIf));
    let cm = vec![0x00, 0x00, 0x00, 0xae];
    let (spk, cbx) = mk_tap(&cm);
    let (tx, prev) = spend_tx(&spk, 0, 0xffff_ffff, 2);
    t.expect("tapscript CHECKMULTISIG", run(&tx, &prev, vec![], vec![cm.clone(), cbx.clone()], con), Err(VmError::TapscriptCheckMultisig));
    let su = vec![0x50];
    let (spk, cbx) = mk_tap(&su);
    let (tx, prev) = spend_tx(&spk, 0, 0xffff_ffff, 2);
    t.expect("OP_SUCCESS consensus ok", run(&tx, &prev, vec![], vec![su.clone(), cbx.clone()], con), Ok(()));
    t.expect("OP_SUCCESS discouraged", run(&tx, &prev, vec![], vec![su.clone(), cbx.clone()], std), Err(VmError::DiscourageOpSuccess));
    t.expect("tapscript 81-byte item nonstandard", {
        let dr = vec![0x75, 0x51];
        let (spk, cbx) = mk_tap(&dr);
        let (tx, prev) = spend_tx(&spk, 0, 0xffff_ffff, 2);
        run(&tx, &prev, vec![], vec![vec![1; 81], dr.clone(), cbx], std)
    }, Err(VmError::StdTapscriptStackItemSize));
    // CHECKSIGADD 2-of-2 with one empty
    let kp2 = Keypair::from_secret_key(&secp, &sk2);
    let (x2, _) = kp2.x_only_public_key();
    let mut ca = vec![];
    push_data(&mut ca, &xonly.serialize());
    ca.push(0xac);
    push_data(&mut ca, &x2.serialize());
    ca.push(0xba);
    ca.extend_from_slice(&[0x51, 0x9c]); // 1 NUMEQUAL
    let (spk, cbx) = mk_tap(&ca);
    let (tx, prev) = spend_tx(&spk, 0, 0xffff_ffff, 2);
    let lh = vm::tapleaf_hash(0xc0, &ca);
    let d = ref_digest(&tx, &prev, 0, &SpendCtx::TapLeaf { leaf_hash: TapLeafHash::from_byte_array(lh) }, 0).unwrap();
    let s1 = secp.sign_schnorr_with_aux_rand(&Message::from_digest(d), &kp, &[3; 32]);
    t.expect("checksigadd 1-of-2", run(&tx, &prev, vec![], vec![vec![], s1.as_ref().to_vec(), ca.clone(), cbx.clone()], std), Ok(()));
    // sigops budget: script with many CHECKSIGs on tiny witness: each passed sig costs 50, budget 50+witness size
    // unknown witness version
    let (tx, prev) = spend_tx(&[0x52, 0x02, 0xaa, 0xbb], 0, 0xffff_ffff, 2);
    t.expect("unknown witness version consensus ok", run(&tx, &prev, vec![], vec![], con), Ok(()));
    t.expect("unknown witness version discouraged", run(&tx, &prev, vec![], vec![], std), Err(VmError::DiscourageUpgradableWitnessProgram));

    // ---- FindAndDelete / CONST_SCRIPTCODE: P2SH script `0 DROP <pk> CHECKSIG NOT` with empty sig --
    let mut fd = vec![0x00, 0x75];
    push_data(&mut fd, &pkc);
    fd.extend_from_slice(&[0xac, 0x91]);
    let (tx, prev) = spend_tx(&p2sh(&fd), 0, 0xffff_ffff, 2);
    t.expect("empty sig + OP_0 in legacy script: CONST_SCRIPTCODE", run(&tx, &prev, pushes(&[&[], &fd]), vec![], std), Err(VmError::SigFindAndDelete));
    t.expect("empty sig + OP_0 in legacy script: consensus ok", run(&tx, &prev, pushes(&[&[], &fd]), vec![], con), Ok(()));

    if t.fails.is_empty() {
        Ok(t.n)
    } else {
        Err(t.fails)
    }
}
