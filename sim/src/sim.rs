//! Engine A `spendsim`: discrete-event simulation of a descriptor wallet's PSBT workflow.
//! One process, one thread per run, no real time. All nondeterminism is decided by `Decider`.

use std::collections::{BTreeMap, BTreeSet};

use bitcoin::bip32::{DerivationPath, Fingerprint};
use bitcoin::hashes::{hash160, ripemd160, sha256, Hash};
use bitcoin::psbt::Psbt;
use bitcoin::secp256k1::{Secp256k1, VerifyOnly};
use bitcoin::{absolute, relative, transaction, Amount, OutPoint, ScriptBuf, Sequence, Transaction, TxIn, TxOut, Witness};
use miniscript::plan::{Assets, CanSign, Plan, TaprootAvailableLeaves, TaprootCanSign};
use miniscript::psbt::PsbtExt;
use miniscript::DefiniteDescriptorKey;

use crate::chain::Chain;
use crate::gen::OutKind;
use crate::keys::{HashKind, KeyUniverse};
use crate::monitors::{self, MonCfg, Violation};
use crate::rng::{fnv, mix, Rng};
use crate::scenario::{Decider, Fault, InputSpec, Scenario, UtxoForm};
use crate::wallet::{self, DDesc, SignStats, SignerPolicy};

pub struct InputCtx {
    pub spec: InputSpec,
    pub desc: DDesc,
    pub sane: bool,
    pub kind: OutKind,
    pub spk: ScriptBuf,
    pub fund_tx: Transaction,
    pub outpoint: OutPoint,
    pub utxo: TxOut,
    pub conf_height: u32,
    pub key_ids: Vec<usize>,
    pub foreign: bool,
}

pub struct Env {
    pub uni: KeyUniverse,
    pub by_expr: BTreeMap<String, usize>,
    pub inputs: Vec<InputCtx>,
    pub secp: Secp256k1<VerifyOnly>,
    pub dest_spk: ScriptBuf,
    pub run_seed: u64,
}

#[derive(Clone, Debug)]
pub struct Advert {
    pub signer: usize,
    pub keys: Vec<(Fingerprint, DerivationPath)>,
    pub hashes: Vec<usize>,
    pub hostile: bool,
    pub caps: Caps,
}

/// What kinds of signature a signer is able (and willing) to produce; advertised to the coordinator
/// and honoured by the signer itself.
#[derive(Clone, Debug, PartialEq, Eq)]
pub struct Caps {
    pub ecdsa: bool,
    pub key_spend: bool,
    /// None = any leaf; Some(list) = only these (empty list = none)
    pub leaves: Option<Vec<bitcoin::taproot::TapLeafHash>>,
}

impl Caps {
    pub fn all() -> Caps { Caps { ecdsa: true, key_spend: true, leaves: None } }
    pub fn can_sign(&self) -> CanSign {
        CanSign {
            ecdsa: self.ecdsa,
            taproot: TaprootCanSign {
                key_spend: self.key_spend,
                script_spend: match &self.leaves {
                    None => TaprootAvailableLeaves::Any,
                    Some(v) if v.is_empty() => TaprootAvailableLeaves::None,
                    Some(v) if v.len() == 1 => TaprootAvailableLeaves::Single(v[0]),
                    Some(v) => TaprootAvailableLeaves::Many(v.clone()),
                },
                sighash_default: true,
            },
        }
    }
    pub fn allows(&self, slot: wallet::Slot) -> bool {
        match slot {
            wallet::Slot::Ecdsa => self.ecdsa,
            wallet::Slot::TapKey => self.key_spend,
            wallet::Slot::TapLeaf(l) => self.leaves.as_ref().map(|v| v.contains(&l)).unwrap_or(true),
        }
    }
}

#[derive(Clone, Debug)]
pub enum Msg {
    Advert(Advert),
    PsbtRequest { epoch: u32, bytes: Vec<u8> },
    PsbtReply { from: usize, epoch: u32, bytes: Vec<u8> },
    Broadcast { bytes: Vec<u8> },
}

#[derive(Clone, Copy, Debug, PartialEq, Eq, PartialOrd, Ord)]
pub enum Actor {
    Coord,
    Replica(usize),
    Signer(usize),
    Chain,
}

impl Actor {
    pub fn name(&self) -> String {
        match self {
            Actor::Coord => "coord".into(),
            Actor::Replica(i) => format!("replica{}", i),
            Actor::Signer(i) => format!("signer{}", i),
            Actor::Chain => "chain".into(),
        }
    }
}

#[derive(Clone, Debug)]
pub enum Ev {
    Block,
    Deliver { to: Actor, from: Actor, msg: Msg },
    CoordTick,
    Restart(Actor),
    Heal,
}

#[derive(Default, Clone, Debug)]
pub struct RunStats {
    pub events: u64,
    pub blocks: u64,
    pub sim_seconds: u64,
    pub attempts: u64,
    pub epochs: u64,
    pub confirmed: bool,
    pub broadcasts: u64,
    pub nonfinal_rejects: u64,
    pub finalize_ok: u64,
    pub finalize_err: u64,
    pub stale_ignored: u64,
    pub corrupt_rejected: u64,
    pub sign: SignStats,
    pub probes: BTreeMap<String, u64>,
    pub shape: u64,
    /// (descriptor skeleton x world class x mode) cases decided by an oracle
    pub cases: BTreeSet<u64>,
    pub nontrivial_cases: BTreeSet<u64>,
    pub oracle_calls: u64,
    pub known_hits: BTreeMap<String, u64>,
}

impl RunStats {
    pub fn probe(&mut self, name: &str) { *self.probes.entry(name.to_string()).or_insert(0) += 1; }
}

pub struct SignerState {
    pub caps: Caps,
    pub up: bool,
    pub partitioned: bool,
    pub policy: SignerPolicy,
    pub sent: u64,
}

pub struct PlanInfo {
    pub plan: Plan<DefiniteDescriptorKey>,
    pub mall: bool,
    /// the PSBT input of this epoch was filled in with `Plan::update_psbt_input` (not the descriptor updater)
    pub used_for_update: bool,
}

pub struct CoordState {
    pub up: bool,
    pub epoch: u32,
    pub psbt: Option<Psbt>,
    pub persisted: Option<Vec<u8>>,
    pub skew: i64,
    pub adverts: BTreeMap<usize, Advert>,
    pub ticks_in_epoch: u32,
    pub ticks: u32,
    pub extracted: Option<Transaction>,
    pub plans: Vec<Option<PlanInfo>>,
    pub sent: u64,
    pub old_requests: Vec<(u32, Vec<u8>)>,
    pub crash_requested: bool,
}

pub struct ReplicaState {
    pub psbt: Option<Psbt>,
    pub epoch: u32,
}

pub struct World<'a> {
    pub sc: &'a Scenario,
    pub env: std::rc::Rc<Env>,
    pub chain: Chain,
    pub dec: Decider,
    pub now: u64,
    pub seq: u64,
    pub queue: BTreeMap<(u64, u64), Ev>,
    pub log_digest: u64,
    pub log: Vec<String>,
    pub keep_log: bool,
    pub coord: CoordState,
    pub signers: Vec<SignerState>,
    pub replicas: Vec<ReplicaState>,
    pub stats: RunStats,
    pub violations: Vec<Violation>,
    pub mon: &'a MonCfg,
    pub aux: Rng,
    pub blocks_since_start: u32,
    pub final_memory: BTreeMap<(String, usize), (Option<ScriptBuf>, Option<Witness>)>,
    pub collect_artifacts: bool,
    pub artifacts: Vec<(&'static str, Vec<u8>)>,
}

pub struct RunResult {
    pub stats: RunStats,
    pub violations: Vec<Violation>,
    pub decisions: BTreeMap<String, u64>,
    pub fired: BTreeMap<Fault, u64>,
    pub log_digest: u64,
    pub log: Vec<String>,
    pub harness_errors: Vec<String>,
    pub artifacts: Vec<(&'static str, Vec<u8>)>,
}

fn dummy_txin() -> TxIn { TxIn { previous_output: OutPoint::null(), script_sig: ScriptBuf::new(), sequence: Sequence::MAX, witness: Witness::new() } }

pub fn build_env(sc: &Scenario, uni: KeyUniverse, prop: &str) -> Result<Env, String> {
    let by_expr = wallet::expr_index(&uni);
    let mut inputs = vec![];
    let chain_tip = sc.start_height;
    for (i, spec) in sc.inputs.iter().enumerate() {
        let d = wallet::parse_descriptor(&spec.text)?;
        let desc = wallet::make_definite(&d, sc.index)?;
        let sane = wallet::is_sane(&desc);
        let kind = wallet::kind_of(&desc);
        let spk = desc.script_pubkey();
        let mut outs = vec![];
        for v in 0..=spec.vout {
            if v == spec.vout {
                outs.push(TxOut { value: Amount::from_sat(spec.amount), script_pubkey: spk.clone() });
            } else {
                outs.push(TxOut { value: Amount::from_sat(1000 + v as u64), script_pubkey: ScriptBuf::from_bytes(vec![0x51]) });
            }
        }
        let mut fin = dummy_txin();
        fin.sequence = Sequence(i as u32); // make funding txids distinct
        fin.script_sig = ScriptBuf::from_bytes(vec![0x01, i as u8 + 1]);
        let fund_tx = Transaction { version: transaction::Version::TWO, lock_time: absolute::LockTime::ZERO, input: vec![fin], output: outs };
        let outpoint = OutPoint { txid: fund_tx.compute_txid(), vout: spec.vout };
        let utxo = fund_tx.output[spec.vout as usize].clone();
        let key_ids = wallet::keys_of(&desc, &by_expr);
        inputs.push(InputCtx { spec: spec.clone(), desc, sane, kind, spk, fund_tx, outpoint, utxo, conf_height: chain_tip - spec.conf_depth, key_ids, foreign: false });
    }
    let dest_spk = {
        let mut v = vec![0x00, 0x14];
        v.extend_from_slice(&[0x11; 20]);
        ScriptBuf::from_bytes(v)
    };
    Ok(Env { uni, by_expr, inputs, secp: Secp256k1::verification_only(), dest_spk, run_seed: sc.run_seed(prop) })
}

impl<'a> World<'a> {
    pub fn new(sc: &'a Scenario, uni: KeyUniverse, mon: &'a MonCfg, prop: &str) -> Result<Self, String> {
        let env = std::rc::Rc::new(build_env(sc, uni, prop)?);
        let run_seed = env.run_seed;
        let chain = Chain::new(sc.start_height, sc.start_time, 30);
        let dec = Decider::new(run_seed, sc);
        let mut dec = dec;
        // all tap leaves of the run, for leaf-restricted signers
        let mut all_leaves: Vec<bitcoin::taproot::TapLeafHash> = vec![];
        for ic in &env.inputs {
            if let miniscript::Descriptor::Tr(tr) = &ic.desc {
                for l in tr.leaves() {
                    all_leaves.push(bitcoin::taproot::TapLeafHash::from_byte_array(crate::vm::tapleaf_hash(0xc0, l.miniscript().encode().as_bytes())));
                }
            }
        }
        let signers = (0..sc.knobs.n_signers)
            .map(|s| {
                let c = dec.choose(&format!("caps:s{}", s), 12);
                let caps = match c {
                    1 => Caps { ecdsa: false, ..Caps::all() },
                    2 => Caps { key_spend: false, ..Caps::all() },
                    3 => Caps { leaves: Some(vec![]), ..Caps::all() },
                    4 | 5 if !all_leaves.is_empty() => {
                        let k = dec.choose(&format!("capleaf:s{}", s), all_leaves.len() as u64) as usize;
                        let mut v = vec![all_leaves[k]];
                        if c == 5 {
                            v.push(all_leaves[(k + 1) % all_leaves.len()]);
                            v.dedup();
                        }
                        Caps { leaves: Some(v), ..Caps::all() }
                    }
                    _ => Caps::all(),
                };
                SignerState { caps, up: true, partitioned: false, policy: SignerPolicy::default(), sent: 0 }
            })
            .collect();
        let replicas = (0..sc.knobs.n_replicas).map(|_| ReplicaState { psbt: None, epoch: 0 }).collect();
        let n_inputs = env.inputs.len();
        let coord = CoordState {
            up: true,
            epoch: 0,
            psbt: None,
            persisted: None,
            skew: 0,
            adverts: BTreeMap::new(),
            ticks_in_epoch: 0,
            ticks: 0,
            extracted: None,
            plans: (0..n_inputs).map(|_| None).collect(),
            sent: 0,
            old_requests: vec![],
            crash_requested: false,
        };
        Ok(World {
            sc,
            env,
            chain,
            dec,
            now: 0,
            seq: 0,
            queue: BTreeMap::new(),
            log_digest: 0xcbf29ce484222325,
            log: vec![],
            keep_log: false,
            coord,
            signers,
            replicas,
            stats: RunStats::default(),
            violations: vec![],
            mon,
            aux: Rng::new(mix(&[run_seed, 0x617578])),
            blocks_since_start: 0,
            final_memory: BTreeMap::new(),
            collect_artifacts: false,
            artifacts: vec![],
        })
    }

    pub fn logev(&mut self, actor: &str, kind: &str, payload: &[u8]) {
        let line = format!("{} {} {} {} {:016x}", self.now, self.seq, actor, kind, fnv(payload));
        self.log_digest = mix(&[self.log_digest, fnv(line.as_bytes())]);
        self.stats.shape = mix(&[self.stats.shape, fnv(actor.as_bytes()), fnv(kind.as_bytes())]);
        if self.keep_log {
            self.log.push(line);
        }
    }

    fn schedule(&mut self, at: u64, ev: Ev) {
        self.seq += 1;
        self.queue.insert((at, self.seq), ev);
    }

    fn violated(&self) -> bool { !self.violations.is_empty() }

    // -----------------------------------------------------------------------------------------
    // transport
    // -----------------------------------------------------------------------------------------
    fn send(&mut self, from: Actor, to: Actor, msg: Msg, counter: u64) {
        if self.collect_artifacts {
            match &msg {
                Msg::PsbtRequest { bytes, .. } => self.artifacts.push(("psbt", bytes.clone())),
                Msg::PsbtReply { bytes, .. } => self.artifacts.push(("psbt", bytes.clone())),
                Msg::Broadcast { bytes } => self.artifacts.push(("tx", bytes.clone())),
                _ => {}
            }
        }
        let key = format!("{}>{}#{}", from.name(), to.name(), counter);
        if self.dec.fault(Fault::Drop, &key, 8, 100, 1) != 0 {
            self.logev(&from.name(), "drop", key.as_bytes());
            return;
        }
        let mut delay = 1 + self.dec.choose(&format!("lat:{}", key), 30);
        let d = self.dec.fault(Fault::Delay, &key, 25, 100, 6 * 600);
        if d != 0 {
            delay += d;
        }
        let mut msg = msg;
        let c = self.dec.fault(Fault::Corrupt, &key, 3, 100, 1 << 20);
        if c != 0 {
            corrupt_msg(&mut msg, c);
        }
        let at = self.now + delay;
        if self.dec.fault(Fault::Duplicate, &key, 8, 100, 1) != 0 {
            self.schedule(at + delay, Ev::Deliver { to, from, msg: msg.clone() });
        }
        self.schedule(at, Ev::Deliver { to, from, msg });
    }

    fn coord_send(&mut self, to: Actor, msg: Msg) {
        self.coord.sent += 1;
        let c = self.coord.sent;
        self.send(Actor::Coord, to, msg, c);
    }

    // -----------------------------------------------------------------------------------------
    // main loop
    // -----------------------------------------------------------------------------------------
    pub fn run(mut self) -> RunResult {
        // initial events: adverts, first tick, first block
        for s in 0..self.signers.len() {
            let adv = self.make_advert(s);
            self.signers[s].sent += 1;
            let c = self.signers[s].sent;
            self.send(Actor::Signer(s), Actor::Coord, Msg::Advert(adv), c);
        }
        // clock skew of the coordinator for this run
        let sk = self.dec.fault(Fault::ClockSkew, "coord", 10, 100, 9);
        if sk != 0 {
            self.coord.skew = sk as i64 - 5; // -4..=4
        }
        self.schedule(40, Ev::CoordTick);
        let first_block = 300 + self.dec.choose("blk0", 600);
        self.schedule(first_block, Ev::Block);
        // partitions: decided once per run
        let p = self.dec.fault(Fault::Partition, "run", 10, 100, 1 << 16);
        if p != 0 {
            let mask = p & 0x3f;
            for s in 0..self.signers.len() {
                if mask & (1 << s) != 0 {
                    self.signers[s].partitioned = true;
                }
            }
            let dur = 600 * (1 + (p >> 6) % 20);
            self.schedule(dur, Ev::Heal);
            self.logev("net", "partition", &p.to_le_bytes());
        }

        let mut harness_errors = vec![];
        while let Some((&(at, sq), _)) = self.queue.iter().next() {
            if self.stats.events >= self.sc.knobs.max_events as u64 || self.stats.blocks >= self.sc.knobs.max_blocks as u64 {
                break;
            }
            if self.violated() || self.stats.confirmed {
                break;
            }
            let ev = self.queue.remove(&(at, sq)).unwrap();
            self.now = at;
            self.stats.events += 1;
            if self.stats.events >= self.sc.knobs.quiesce_at as u64 && !self.dec.quiesced {
                self.dec.quiesced = true;
                self.quiesce();
            }
            if let Err(e) = self.handle(ev) {
                harness_errors.push(e);
                break;
            }
        }
        self.stats.sim_seconds = self.now;
        monitors::end_of_run(&mut self);
        RunResult {
            stats: self.stats,
            violations: self.violations,
            decisions: self.dec.taken,
            fired: self.dec.fired,
            log_digest: self.log_digest,
            log: self.log,
            harness_errors,
            artifacts: self.artifacts,
        }
    }

    fn quiesce(&mut self) {
        self.logev("sim", "quiesce", &[]);
        for s in 0..self.signers.len() {
            self.signers[s].up = true;
            self.signers[s].partitioned = false;
        }
        if !self.coord.up {
            self.restart_coord();
        }
        self.coord.skew = 0;
        // re-send adverts so the coordinator's view of capabilities converges
        for s in 0..self.signers.len() {
            let adv = self.make_honest_advert(s);
            self.signers[s].sent += 1;
            let c = self.signers[s].sent;
            self.send(Actor::Signer(s), Actor::Coord, Msg::Advert(adv), c);
        }
    }

    fn handle(&mut self, ev: Ev) -> Result<(), String> {
        match ev {
            Ev::Block => {
                self.stats.blocks += 1;
                self.blocks_since_start += 1;
                let r = self.dec.fault(Fault::Reorg, &format!("blk{}", self.stats.blocks), 3, 100, 3);
                if r != 0 && self.blocks_since_start > r as u32 {
                    self.chain.reorg(r as u32);
                    self.blocks_since_start -= r as u32;
                    self.stats.probe("reorg");
                    self.logev("chain", "reorg", &r.to_le_bytes());
                }
                let t = self.sc.start_time as u64 + self.now;
                self.chain.push_block(t as u32);
                let h = self.chain.tip_height();
                self.logev("chain", "block", &h.to_le_bytes());
                let gap = 300 + self.dec.choose(&format!("blkgap{}", self.stats.blocks), 600);
                self.schedule(self.now + gap, Ev::Block);
                // retry broadcast of an extracted tx that was non-final
                Ok(())
            }
            Ev::Heal => {
                for s in self.signers.iter_mut() {
                    s.partitioned = false;
                }
                self.logev("net", "heal", &[]);
                Ok(())
            }
            Ev::Restart(a) => {
                match a {
                    Actor::Signer(s) => {
                        self.signers[s].up = true;
                        self.logev(&a.name(), "restart", &[]);
                    }
                    Actor::Coord => self.restart_coord(),
                    _ => {}
                }
                Ok(())
            }
            Ev::CoordTick => {
                self.coord_tick();
                let gap = 120 + self.dec.choose(&format!("tick{}", self.coord.ticks), 480);
                self.schedule(self.now + gap, Ev::CoordTick);
                Ok(())
            }
            Ev::Deliver { to, from, msg } => self.deliver(to, from, msg),
        }
    }

    fn restart_coord(&mut self) {
        // only durable state survives: descriptor strings (re-parsed), last persisted PSBT bytes
        self.coord.up = true;
        self.coord.adverts.clear();
        self.coord.plans = (0..self.env.inputs.len()).map(|_| None).collect();
        self.coord.extracted = None;
        self.stats.probe("coord_restart");
        let bytes = self.coord.persisted.clone();
        self.coord.psbt = bytes.and_then(|b| Psbt::deserialize(&b).ok());
        // re-parse descriptors from their strings: must reproduce the same scriptPubKeys
        for i in 0..self.env.inputs.len() {
            if self.env.inputs[i].foreign {
                continue;
            }
            let text = self.env.inputs[i].spec.text.clone();
            let ok = wallet::parse_descriptor(&text).and_then(|d| wallet::make_definite(&d, self.sc.index)).map(|d| d.script_pubkey() == self.env.inputs[i].spk);
            if ok != Ok(true) {
                monitors::raise(self, "C14", "restart-reparse", format!("descriptor {} re-parsed after restart gives a different output", text), "coord");
            }
        }
        self.logev("coord", "restart", &[]);
        // ask for adverts again
        for s in 0..self.signers.len() {
            if self.signers[s].up && !self.signers[s].partitioned {
                let adv = self.make_advert(s);
                self.signers[s].sent += 1;
                let c = self.signers[s].sent;
                self.send(Actor::Signer(s), Actor::Coord, Msg::Advert(adv), c);
            }
        }
    }

    // -----------------------------------------------------------------------------------------
    // signers
    // -----------------------------------------------------------------------------------------
    fn make_honest_advert(&self, s: usize) -> Advert {
        let keys = self.env.uni.keys.iter().filter(|k| k.owner == s).map(|k| k.origin.clone()).collect();
        let hashes = self.env.uni.hashes.iter().filter(|h| h.owner == s && h.usable).map(|h| h.id).collect();
        Advert { signer: s, keys, hashes, hostile: false, caps: self.signers[s].caps.clone() }
    }

    fn make_advert(&mut self, s: usize) -> Advert {
        let mut adv = self.make_honest_advert(s);
        let n = self.signers[s].sent;
        // a second device for somebody else's seed: this signer also lists the key sources of the
        // next signer (exactly, or one step up), under its own capabilities. The coordinator then
        // holds several sources for one key with different capabilities; any one that allows a
        // signature makes the key available.
        if self.signers.len() > 1 && self.dec.choose(&format!("codevice:s{}#{}", s, n), 5) == 1 {
            let t = (s + 1) % self.signers.len();
            let up = self.dec.choose(&format!("codevice-up:s{}#{}", s, n), 2) == 1;
            for k in self.env.uni.keys.iter().filter(|k| k.owner == t) {
                let (f, p) = k.origin.clone();
                let v: Vec<_> = p.into_iter().cloned().collect();
                let path = if up && !v.is_empty() { DerivationPath::from(v[..v.len() - 1].to_vec()) } else { DerivationPath::from(v) };
                adv.keys.push((f, path));
            }
            self.stats.probe("overlapping_key_sources");
        }
        let h = self.dec.fault(Fault::HostileAdvert, &format!("s{}#{}", s, n), 5, 100, 6);
        if h != 0 {
            adv.hostile = true;
            self.stats.probe("hostile_advert");
            let all: Vec<(Fingerprint, DerivationPath)> = self.env.uni.keys.iter().map(|k| k.origin.clone()).collect();
            match h {
                1 => {
                    // claims other signers' fingerprints with an empty path
                    adv.keys = all.iter().map(|(f, _)| (*f, DerivationPath::from(vec![]))).collect();
                }
                2 => {
                    // grandparent paths (two steps above the key)
                    adv.keys = all
                        .iter()
                        .map(|(f, p)| {
                            let v: Vec<_> = p.into_iter().cloned().collect();
                            let cut = v.len().saturating_sub(2);
                            (*f, DerivationPath::from(v[..cut].to_vec()))
                        })
                        .collect();
                }
                3 => {
                    // matching fingerprints with a non-empty unrelated path
                    adv.keys = all.iter().map(|(f, _)| (*f, DerivationPath::from(vec![bitcoin::bip32::ChildNumber::from_normal_idx(0).unwrap()]))).collect();
                }
                4 => {
                    // huge path
                    let big: Vec<_> = (0..255u32).map(|i| bitcoin::bip32::ChildNumber::from_normal_idx(i).unwrap()).collect();
                    adv.keys = all.iter().map(|(f, _)| (*f, DerivationPath::from(big.clone()))).collect();
                }
                5 => {
                    // child paths (one step below the key): not signable per the documented rule
                    adv.keys = all.iter().map(|(f, p)| (*f, p.child(bitcoin::bip32::ChildNumber::from_normal_idx(1).unwrap()))).collect();
                }
                _ => {
                    // every hash preimage claimed
                    adv.hashes = self.env.uni.hashes.iter().filter(|h| h.usable).map(|h| h.id).collect();
                }
            }
        }
        adv
    }

    fn signer_handle(&mut self, s: usize, epoch: u32, bytes: Vec<u8>) {
        if !self.signers[s].up || self.signers[s].partitioned {
            self.logev(&format!("signer{}", s), "unreachable", &[]);
            return;
        }
        let n = self.signers[s].sent;
        if self.dec.fault(Fault::SignerCrash, &format!("s{}#{}", s, n), 10, 100, 1) != 0 {
            self.signers[s].up = false;
            self.signers[s].sent += 1;
            let back = 600 * (1 + self.dec.choose(&format!("crashdur:s{}#{}", s, n), 10));
            self.schedule(self.now + back, Ev::Restart(Actor::Signer(s)));
            self.logev(&format!("signer{}", s), "crash", &[]);
            self.stats.probe("signer_crash");
            return;
        }
        let mut psbt = match Psbt::deserialize(&bytes) {
            Ok(p) => p,
            Err(_) => {
                self.stats.corrupt_rejected += 1;
                self.logev(&format!("signer{}", s), "bad-psbt", &bytes);
                return;
            }
        };
        let before = psbt.clone();
        // partial signing policy
        let pp = self.dec.fault(Fault::SignerPartial, &format!("s{}#{}", s, n), 20, 100, 5);
        let mut policy = SignerPolicy::default();
        policy.sign_ecdsa = self.signers[s].caps.ecdsa;
        policy.sign_key_spend = self.signers[s].caps.key_spend;
        policy.leaf_allow = self.signers[s].caps.leaves.clone();
        // (only where the no-panic invariant is what is being checked: size figures and standardness
        // verdicts are stated for low-S signatures)
        if self.mon.corruption && self.mon.on("C11") && self.dec.choose(&format!("high-s:s{}#{}", s, n), 6) == 1 {
            policy.ecdsa_high_s = true;
            self.stats.probe("high_s_signer");
        }
        match pp {
            1 => policy.sign_key_spend = false,
            2 => policy.sign_leaves = false,
            3 => policy.give_preimages = false,
            4 => {
                policy.sign_ecdsa = false;
                policy.sign_key_spend = false;
                policy.sign_leaves = false;
            }
            5 => policy.sign_key_spend = false,
            _ => {}
        }
        if pp != 0 {
            self.stats.probe("signer_partial");
        }
        let kinds: Vec<Option<OutKind>> = self.env.inputs.iter().map(|i| if i.foreign { None } else { Some(i.kind) }).collect();
        // a signer only signs transactions spending the coins it knows
        let known = psbt.unsigned_tx.input.len() == self.env.inputs.len()
            && psbt.unsigned_tx.input.iter().zip(self.env.inputs.iter()).all(|(a, b)| a.previous_output == b.outpoint);
        if !known {
            self.logev(&format!("signer{}", s), "unknown-tx", &[]);
            return;
        }
        // the signer trusts its own copy of the UTXOs, not the PSBT's (corruption cannot make it sign a wrong amount)
        for (i, inp) in psbt.inputs.iter_mut().enumerate() {
            let ic = &self.env.inputs[i];
            if let Some(w) = &inp.witness_utxo {
                if *w != ic.utxo {
                    self.logev(&format!("signer{}", s), "utxo-mismatch", &[]);
                    return;
                }
            }
            if let Some(nw) = &inp.non_witness_utxo {
                if nw.compute_txid() != ic.outpoint.txid {
                    self.logev(&format!("signer{}", s), "utxo-mismatch", &[]);
                    return;
                }
            }
        }
        let mut st = SignStats::default();
        let env = self.env.clone();
        wallet::signer_sign(&env.uni, s, &policy, &mut psbt, &kinds, &mut self.aux, &mut st);
        // in the corruption configuration the request itself may have been damaged in transit
        if self.mon.corruption {
            st.digest_mismatch.clear();
            st.origin_mismatch.clear();
        }
        for m in st.digest_mismatch.drain(..) {
            monitors::raise(self, "C14", "sighash-msg", format!("sighash_msg disagrees with reference digest: {}", m), &format!("signer{}", s));
        }
        for m in st.origin_mismatch.drain(..) {
            monitors::raise(self, "C14", "I7-origin", format!("PSBT key origin differs from the signer's own derivation: {}", m), &format!("signer{}", s));
        }
        self.stats.sign.ecdsa += st.ecdsa;
        self.stats.sign.schnorr_key += st.schnorr_key;
        self.stats.sign.schnorr_leaf += st.schnorr_leaf;
        self.stats.sign.preimages += st.preimages;
        let reply = if self.sc.knobs.stripped_replies { strip_reply(&before, &psbt) } else { psbt };
        let out = reply.serialize();
        self.logev(&format!("signer{}", s), "signed", &out);
        self.signers[s].sent += 1;
        let c = self.signers[s].sent;
        self.send(Actor::Signer(s), Actor::Coord, Msg::PsbtReply { from: s, epoch, bytes: out.clone() }, c);
        for r in 0..self.replicas.len() {
            self.signers[s].sent += 1;
            let c = self.signers[s].sent;
            self.send(Actor::Signer(s), Actor::Replica(r), Msg::PsbtReply { from: s, epoch, bytes: out.clone() }, c);
        }
    }

    // -----------------------------------------------------------------------------------------
    // delivery
    // -----------------------------------------------------------------------------------------
    fn deliver(&mut self, to: Actor, from: Actor, msg: Msg) -> Result<(), String> {
        match (to, msg) {
            (Actor::Coord, Msg::Advert(a)) => {
                if self.coord.up {
                    self.logev("coord", "advert", &[a.signer as u8, a.hostile as u8]);
                    self.coord.adverts.insert(a.signer, a);
                }
            }
            (Actor::Signer(s), Msg::PsbtRequest { epoch, bytes }) => self.signer_handle(s, epoch, bytes),
            (Actor::Coord, Msg::PsbtReply { from: s, epoch, bytes }) => {
                if !self.coord.up {
                    return Ok(());
                }
                let _ = from;
                self.coord_merge(s, epoch, &bytes);
            }
            (Actor::Replica(r), Msg::PsbtRequest { epoch, bytes }) => {
                if let Ok(p) = Psbt::deserialize(&bytes) {
                    if epoch >= self.replicas[r].epoch {
                        self.replicas[r].epoch = epoch;
                        self.replicas[r].psbt = Some(p);
                        let pre = format!("replica{}:", r);
                        self.final_memory.retain(|k, _| !k.0.starts_with(&pre));
                        self.logev(&format!("replica{}", r), "new-epoch", &epoch.to_le_bytes());
                    }
                }
            }
            (Actor::Replica(r), Msg::PsbtReply { epoch, bytes, .. }) => {
                if let (Ok(p), true) = (Psbt::deserialize(&bytes), self.replicas[r].psbt.is_some()) {
                    let mut cur = self.replicas[r].psbt.take().unwrap();
                    if epoch == self.replicas[r].epoch && p.unsigned_tx == cur.unsigned_tx {
                        cur = merge_protected(cur, p);
                        self.logev(&format!("replica{}", r), "merged", &bytes);
                        let name = format!("replica{}", r);
                        monitors::probe_attempt(self, &name, &cur);
                        // the replica finalises its own copy
                        let v = self.dec.choose(&format!("rfin:{}:{}", r, self.stats.attempts), 4);
                        monitors::finalize_with_monitors(self, &name, &mut cur, v);
                    } else {
                        self.stats.stale_ignored += 1;
                    }
                    self.replicas[r].psbt = Some(cur);
                }
            }
            (Actor::Chain, Msg::Broadcast { bytes }) => {
                self.chain_receive(&bytes);
            }
            _ => {}
        }
        Ok(())
    }

    fn coord_merge(&mut self, signer: usize, epoch: u32, bytes: &[u8]) {
        let p = match Psbt::deserialize(bytes) {
            Ok(p) => p,
            Err(_) => {
                self.stats.corrupt_rejected += 1;
                self.logev("coord", "bad-reply", bytes);
                return;
            }
        };
        let mut cur = match self.coord.psbt.take() {
            Some(c) => c,
            None => return,
        };
        if epoch != self.coord.epoch || p.unsigned_tx != cur.unsigned_tx {
            self.stats.stale_ignored += 1;
            self.stats.probe("stale_reply_ignored");
            self.logev("coord", "stale-reply", &epoch.to_le_bytes());
            self.coord.psbt = Some(cur);
            return;
        }
        cur = merge_protected(cur, p);
        if self.sc.knobs.serde_roundtrip {
            let b = cur.serialize();
            match Psbt::deserialize(&b) {
                Ok(p2) => cur = p2,
                Err(e) => monitors::raise(self, "C14", "serde", format!("own PSBT does not deserialize: {}", e), "coord"),
            }
        }
        self.logev("coord", "merged", &[signer as u8]);
        self.coord.psbt = Some(cur);
        self.coord_attempt();
    }

    // -----------------------------------------------------------------------------------------
    // coordinator
    // -----------------------------------------------------------------------------------------
    fn view(&self) -> (u32, u32) {
        // (height, mtp) as the coordinator believes them
        let h = (self.chain.tip_height() as i64 + self.coord.skew).max(1) as u32;
        let m = (self.chain.mtp(self.chain.tip_height()) as i64 + self.coord.skew * 600) as u32;
        (h, m)
    }

    /// `abs_time` / `rel_time`: describe the clock to the planner in time-based units for the absolute
    /// resp. relative lock (chosen independently: nLockTime and nSequence are independent fields).
    pub fn assets_for(&self, i: usize, abs_time: bool, rel_time: bool) -> Assets {
        let (vh, vm) = self.view();
        let ic = &self.env.inputs[i];
        let mut assets = Assets::new();
        for a in self.coord.adverts.values() {
            for (fp, path) in &a.keys {
                assets.keys.insert(((*fp, path.clone()), a.caps.can_sign()));
            }
            for h in &a.hashes {
                let hi = &self.env.uni.hashes[*h];
                match hi.kind {
                    HashKind::Sha256 => {
                        assets.sha256_preimages.insert(sha256::Hash::from_slice(&hi.digest).unwrap());
                    }
                    HashKind::Hash256 => {
                        assets.hash256_preimages.insert(miniscript::hash256::Hash::from_slice(&hi.digest).unwrap());
                    }
                    HashKind::Ripemd160 => {
                        assets.ripemd160_preimages.insert(ripemd160::Hash::from_slice(&hi.digest).unwrap());
                    }
                    HashKind::Hash160 => {
                        assets.hash160_preimages.insert(hash160::Hash::from_slice(&hi.digest).unwrap());
                    }
                }
            }
        }
        // the clock: what lock values are reachable now
        let age_blocks = (vh + 1).saturating_sub(ic.conf_height).min(0xffff);
        let coin_time = self.chain.mtp(ic.conf_height.max(self.chain.base_height + 1) - 1);
        let age_time = (vm.saturating_sub(coin_time) / 512).min(0xffff);
        if abs_time {
            if vm > 500_000_000 {
                assets = assets.after(absolute::LockTime::from_consensus(vm - 1));
            }
        } else {
            assets = assets.after(absolute::LockTime::from_consensus(vh));
        }
        if rel_time {
            if age_time > 0 {
                assets = assets.older(relative::LockTime::from_512_second_intervals(age_time as u16));
            }
        } else if age_blocks > 0 {
            assets = assets.older(relative::LockTime::from_height(age_blocks as u16));
        }
        assets
    }

    fn coord_tick(&mut self) {
        self.coord.ticks += 1;
        if !self.coord.up {
            return;
        }
        let n = self.coord.ticks;
        if self.dec.fault(Fault::CoordCrash, &format!("tick{}", n), 10, 100, 1) != 0 {
            self.coord.up = false;
            self.coord.psbt = None;
            let back = 600 * (1 + self.dec.choose(&format!("crashdur:coord{}", n), 6));
            self.schedule(self.now + back, Ev::Restart(Actor::Coord));
            self.logev("coord", "crash", &[]);
            self.stats.probe("coord_crash");
            return;
        }
        self.coord.ticks_in_epoch += 1;
        let patience = 2 + self.dec.choose(&format!("patience{}", self.coord.epoch), 4) as u32;
        if let Some(tx) = self.coord.extracted.clone() {
            // already extracted: keep broadcasting until the chain takes it
            let bytes = bitcoin::consensus::serialize(&tx);
            self.coord_send(Actor::Chain, Msg::Broadcast { bytes });
            return;
        }
        if self.coord.psbt.is_none() || self.coord.ticks_in_epoch > patience {
            self.new_epoch();
        } else {
            self.request_signatures();
            self.coord_attempt();
        }
    }

    fn new_epoch(&mut self) {
        self.coord.epoch += 1;
        self.coord.ticks_in_epoch = 0;
        self.final_memory.retain(|k, _| !k.0.starts_with("coord:"));
        self.stats.epochs += 1;
        let ep = self.coord.epoch;
        let time_units = self.sc.knobs.prefer_time_units ^ (self.dec.choose(&format!("units{}", ep), 4) == 1);
        // the relative lock's unit is chosen independently of the absolute one in a third of the epochs
        let rel_time = if self.dec.choose(&format!("relunits{}", ep), 3) == 1 { !time_units } else { time_units };
        let n = self.env.inputs.len();
        let (vh, vm) = self.view();
        let mut lock_time: u32 = 0;
        let mut seqs: Vec<u32> = vec![0xFFFF_FFFE; n];
        let mut plans: Vec<Option<PlanInfo>> = (0..n).map(|_| None).collect();
        let strategy = self.sc.knobs.lock_strategy;
        if strategy == 0 {
            for i in 0..n {
                if self.env.inputs[i].foreign {
                    continue;
                }
                let assets = self.assets_for(i, time_units, rel_time);
                let mall = self.dec.choose(&format!("planmall{}:{}", ep, i), 3) == 1;
                monitors::probe_plan(self, i, &assets);
                let d = self.env.inputs[i].desc.clone();
                let r = monitors::guard(self, "into_plan", "coord", |_| if mall { d.clone().into_plan_mall(&assets) } else { d.clone().into_plan(&assets) });
                if let Some(Ok(plan)) = r {
                    if let Some(a) = plan.absolute_timelock {
                        let a = a.to_consensus_u32();
                        // tx-wide: keep the largest lock of the unit chosen first
                        if lock_time == 0 || ((lock_time < 500_000_000) == (a < 500_000_000) && a > lock_time) {
                            lock_time = a;
                        }
                    }
                    if let Some(r) = plan.relative_timelock {
                        seqs[i] = r.to_sequence().0;
                    }
                    plans[i] = Some(PlanInfo { plan, mall, used_for_update: false });
                } else {
                    self.stats.probe("plan_refused");
                }
            }
            // sequence for inputs without relative lock
            for i in 0..n {
                if seqs[i] == 0xFFFF_FFFE {
                    seqs[i] = match self.dec.choose(&format!("seq{}:{}", ep, i), 4) {
                        1 if lock_time == 0 => 0xFFFF_FFFF,
                        2 => 0xFFFF_FFFD,
                        _ => 0xFFFF_FFFE,
                    };
                }
            }
        } else {
            // clock-driven: claim everything the clock allows
            lock_time = if time_units { vm.saturating_sub(1) } else { vh };
            if self.dec.choose(&format!("nolock{}", ep), 5) == 1 {
                lock_time = 0;
            }
            for i in 0..n {
                let ic = &self.env.inputs[i];
                let age_blocks = (vh + 1).saturating_sub(ic.conf_height).min(0xffff);
                let coin_time = self.chain.mtp(ic.conf_height.max(self.chain.base_height + 1) - 1);
                let age_time = (vm.saturating_sub(coin_time) / 512).min(0xffff);
                seqs[i] = match self.dec.choose(&format!("seq{}:{}", ep, i), 6) {
                    0 | 1 => {
                        if rel_time {
                            (1 << 22) | age_time
                        } else {
                            age_blocks
                        }
                    }
                    2 => (1 << 22) | age_time,
                    3 => 0xFFFF_FFFE,
                    4 => 0xFFFF_FFFF,
                    _ => age_blocks,
                };
            }
        }
        let total: u64 = self.env.inputs.iter().map(|i| i.utxo.value.to_sat()).sum();
        let tx = Transaction {
            version: transaction::Version(self.sc.knobs.tx_version),
            lock_time: absolute::LockTime::from_consensus(lock_time),
            input: (0..n)
                .map(|i| TxIn { previous_output: self.env.inputs[i].outpoint, script_sig: ScriptBuf::new(), sequence: Sequence(seqs[i]), witness: Witness::new() })
                .collect(),
            output: {
                let mut o = vec![TxOut { value: Amount::from_sat(total.saturating_sub(2000)), script_pubkey: self.env.dest_spk.clone() }];
                // a change output paying back to the first descriptor (exercises the output updater)
                if self.dec.choose(&format!("change{}", ep), 3) == 1 && !self.env.inputs[0].foreign {
                    o[0].value = Amount::from_sat(total.saturating_sub(2000) / 2);
                    o.push(TxOut { value: Amount::from_sat(total.saturating_sub(2000) / 2), script_pubkey: self.env.inputs[0].spk.clone() });
                }
                o
            },
        };
        let mut psbt = match Psbt::from_unsigned_tx(tx) {
            Ok(p) => p,
            Err(_) => return,
        };
        for i in 0..n {
            let ic = &self.env.inputs[i];
            match ic.spec.utxo_form {
                UtxoForm::Witness => psbt.inputs[i].witness_utxo = Some(ic.utxo.clone()),
                UtxoForm::NonWitness => psbt.inputs[i].non_witness_utxo = Some(ic.fund_tx.clone()),
                UtxoForm::Both => {
                    psbt.inputs[i].witness_utxo = Some(ic.utxo.clone());
                    psbt.inputs[i].non_witness_utxo = Some(ic.fund_tx.clone());
                }
            }
            let taproot = matches!(ic.kind, OutKind::TrKey | OutKind::TrScript);
            if self.sc.knobs.psbt_sighash_all && !taproot {
                psbt.inputs[i].sighash_type = Some(bitcoin::EcdsaSighashType::All.into());
            }
            // other sighash types, announced in the PSBT so that signers follow them
            let sv = self.dec.choose(&format!("sighash{}:{}", ep, i), 16);
            // SIGHASH_SINGLE without a matching output: defined for segwit v0 (BIP143: zero hashOutputs);
            // invalid for taproot (cannot be signed); for legacy inputs the digest is the constant 1,
            // a signature that commits to nothing and that anyone can relabel - not a workload under
            // which malleability (C03) can be judged, so legacy inputs do not use it
            let segwit_v0 = matches!(ic.kind, OutKind::Wpkh | OutKind::Wsh | OutKind::ShWpkh | OutKind::ShWsh);
            if sv >= 11 && (i < psbt.unsigned_tx.output.len() || segwit_v0 || !matches!(sv, 12 | 15)) {
                use bitcoin::{EcdsaSighashType as E, TapSighashType as T};
                psbt.inputs[i].sighash_type = Some(if taproot {
                    match sv {
                        11 => T::All.into(),
                        12 => T::Single.into(),
                        13 => T::None.into(),
                        14 => T::AllPlusAnyoneCanPay.into(),
                        _ => T::SinglePlusAnyoneCanPay.into(),
                    }
                } else {
                    match sv {
                        11 => E::AllPlusAnyoneCanPay.into(),
                        12 => E::Single.into(),
                        13 => E::None.into(),
                        14 => E::NonePlusAnyoneCanPay.into(),
                        _ => E::SinglePlusAnyoneCanPay.into(),
                    }
                });
                self.stats.probe("non_default_sighash");
            } else if sv == 10 && taproot {
                // the instruction "sign with SIGHASH_DEFAULT", written out (PSBT_IN_SIGHASH_TYPE = 0)
                psbt.inputs[i].sighash_type = Some(bitcoin::TapSighashType::Default.into());
                self.stats.probe("explicit_sighash_default");
            }
        }
        // updater role
        for i in 0..n {
            if self.env.inputs[i].foreign {
                continue;
            }
            let use_plan_update = plans[i].is_some() && self.dec.choose(&format!("upd{}:{}", ep, i), 3) == 1;
            monitors::update_with_monitors(self, &mut psbt, i, if use_plan_update { plans[i].as_ref().map(|p| &p.plan) } else { None });
            if use_plan_update {
                if let Some(p) = plans[i].as_mut() {
                    p.used_for_update = true;
                }
            }
        }
        // an updater that leaves the optional key-origin fields out for one input (BIP174 / BIP371
        // allow that): nothing a finalizer may depend on for *another* input
        if n > 1 && self.dec.choose(&format!("no-origins{}", ep), 6) == 1 {
            let k = self.dec.choose(&format!("no-origins-input{}", ep), n as u64) as usize;
            psbt.inputs[k].bip32_derivation.clear();
            psbt.inputs[k].tap_key_origins.clear();
            // (the internal key is a hint for signers; the finalizer can do without)
            if self.dec.choose(&format!("no-internal-key{}", ep), 2) == 1 {
                psbt.inputs[k].tap_internal_key = None;
            }
            self.stats.probe("input_without_key_origins");
        }
        if psbt.unsigned_tx.output.len() == 2 {
            monitors::update_output_with_monitors(self, &mut psbt, 1, 0);
        }
        self.coord.plans = plans;
        if self.sc.knobs.serde_roundtrip {
            let b = psbt.serialize();
            match Psbt::deserialize(&b) {
                Ok(p2) => {
                    if p2 != psbt {
                        monitors::raise(self, "C14", "serde", "PSBT changes through serialize/deserialize".into(), "coord");
                    }
                    psbt = p2;
                }
                Err(e) => monitors::raise(self, "C14", "serde", format!("own PSBT does not deserialize: {}", e), "coord"),
            }
        }
        let bytes = psbt.serialize();
        self.coord.persisted = Some(bytes.clone());
        self.coord.old_requests.push((ep, bytes.clone()));
        self.coord.psbt = Some(psbt);
        self.logev("coord", "new-epoch", &bytes);
        self.request_signatures();
        for r in 0..self.replicas.len() {
            self.coord_send(Actor::Replica(r), Msg::PsbtRequest { epoch: ep, bytes: bytes.clone() });
        }
    }

    fn request_signatures(&mut self) {
        let (ep, bytes) = match &self.coord.psbt {
            Some(p) => (self.coord.epoch, p.serialize()),
            None => return,
        };
        for s in 0..self.signers.len() {
            self.coord_send(Actor::Signer(s), Msg::PsbtRequest { epoch: ep, bytes: bytes.clone() });
            // stale replay: an old epoch's request is delivered again later
            if !self.coord.old_requests.is_empty() {
                let k = self.dec.fault(Fault::StaleReplay, &format!("c{}:{}", self.coord.sent, s), 5, 100, self.coord.old_requests.len() as u64);
                if k != 0 {
                    let (oe, ob) = self.coord.old_requests[(k - 1) as usize].clone();
                    self.stats.probe("stale_request_replayed");
                    self.coord_send(Actor::Signer(s), Msg::PsbtRequest { epoch: oe, bytes: ob });
                }
            }
        }
    }

    fn coord_attempt(&mut self) {
        let mut psbt = match self.coord.psbt.take() {
            Some(p) => p,
            None => return,
        };
        monitors::probe_attempt(self, "coord", &psbt);
        monitors::utxo_lie_probe(self, "coord", &psbt);
        // the plan/complete gap: re-plan with the current adverts and clock at every attempt
        if self.mon.on("C17") || self.mon.on("C01") {
            let units = self.dec.choose(&format!("planunits:{}", self.stats.attempts), 2) == 1;
            for i in 0..self.env.inputs.len() {
                if !self.env.inputs[i].foreign {
                    let rel_units = self.dec.choose(&format!("planrelunits:{}", self.stats.attempts), 2) == 1;
                    let assets = self.assets_for(i, units, rel_units);
                    monitors::probe_plan(self, i, &assets);
                }
            }
        }
        // a peer's updater that leaves out optional fields (BIP174/371: key origins are optional)
        if self.mon.corruption && self.dec.choose(&format!("strip-origins:{}", self.stats.attempts), 5) == 1 {
            for inp in psbt.inputs.iter_mut() {
                inp.bip32_derivation.clear();
                inp.tap_key_origins.clear();
            }
            self.stats.probe("key_origins_stripped");
        }
        // a finalizer that is handed the signed PSBT without the internal-key hint (a field for signers)
        if !self.mon.corruption && self.dec.choose(&format!("drop-internal-key:{}", self.stats.attempts), 8) == 1 {
            for inp in psbt.inputs.iter_mut() {
                if inp.final_script_witness.is_none() {
                    inp.tap_internal_key = None;
                }
            }
            self.stats.probe("internal_key_hint_dropped");
        }
        let v = self.dec.choose(&format!("cfin:{}", self.stats.attempts), 6);
        let all_final = monitors::finalize_with_monitors(self, "coord", &mut psbt, v);
        // persist after finalisation steps (crash points fall between inputs via per-input variants)
        self.coord.persisted = Some(psbt.serialize());
        if self.coord.crash_requested {
            // crashed between two inputs: only the persisted bytes survive
            self.coord.crash_requested = false;
            self.coord.up = false;
            self.coord.psbt = None;
            let back = 600 * (1 + self.dec.choose(&format!("crashdur:between{}", self.stats.attempts), 4));
            self.schedule(self.now + back, Ev::Restart(Actor::Coord));
            self.logev("coord", "crash-between-inputs", &[]);
            return;
        }
        if all_final && !self.violated() {
            if let Some(tx) = monitors::extract_with_monitors(self, "coord", &psbt) {
                self.coord.extracted = Some(tx.clone());
                let bytes = bitcoin::consensus::serialize(&tx);
                self.coord_send(Actor::Chain, Msg::Broadcast { bytes });
            }
        }
        self.coord.psbt = Some(psbt);
    }

    // -----------------------------------------------------------------------------------------
    // chain
    // -----------------------------------------------------------------------------------------
    fn chain_receive(&mut self, bytes: &[u8]) {
        let tx: Transaction = match bitcoin::consensus::deserialize(bytes) {
            Ok(t) => t,
            Err(_) => {
                self.stats.corrupt_rejected += 1;
                return;
            }
        };
        self.stats.broadcasts += 1;
        self.logev("chain", "tx", bytes);
        if tx.input.len() != self.env.inputs.len() || tx.input.iter().zip(self.env.inputs.iter()).any(|(a, b)| a.previous_output != b.outpoint) {
            return;
        }
        // the Byzantine relay sees the transaction first
        let tampered = self.dec.fault(Fault::ByzantineRelay, &format!("b{}", self.stats.broadcasts), 30, 100, 1 << 30);
        monitors::on_broadcast(self, &tx, tampered);
        let confs: Vec<u32> = self.env.inputs.iter().map(|i| i.conf_height).collect();
        match self.chain.can_mine(&tx, &confs) {
            Err(_) => {
                self.stats.nonfinal_rejects += 1;
                self.stats.probe("chain_rejected_nonfinal");
            }
            Ok(()) => {
                let prevouts: Vec<TxOut> = self.env.inputs.iter().map(|i| i.utxo.clone()).collect();
                let mut ok = true;
                for i in 0..tx.input.len() {
                    let ctx = crate::vm::TxCtx { tx: &tx, index: i, prevouts: &prevouts, secp: &self.env.secp };
                    if crate::vm::verify_input(&ctx, crate::vm::Flags::STANDARD).is_err() {
                        ok = false;
                    }
                }
                if ok {
                    self.stats.confirmed = true;
                    self.logev("chain", "confirmed", &[]);
                }
            }
        }
    }
}

fn corrupt_msg(msg: &mut Msg, c: u64) {
    let f = |b: &mut Vec<u8>| {
        if b.is_empty() {
            return;
        }
        match c % 4 {
            0 => {
                let i = (c >> 2) as usize % b.len();
                b[i] ^= 1 << ((c >> 12) % 8);
            }
            1 => {
                let i = (c >> 2) as usize % b.len();
                b.truncate(i);
            }
            2 => {
                let i = (c >> 2) as usize % b.len();
                let j = (c >> 11) as usize % b.len();
                let (lo, hi) = (i.min(j), i.max(j));
                let seg: Vec<u8> = b[lo..hi].to_vec();
                let at = lo;
                for (k, x) in seg.into_iter().enumerate() {
                    b.insert(at + k, x);
                }
            }
            _ => {
                let i = (c >> 2) as usize % b.len();
                b.remove(i);
            }
        }
    };
    match msg {
        Msg::PsbtRequest { bytes, .. } | Msg::PsbtReply { bytes, .. } | Msg::Broadcast { bytes } => f(bytes),
        Msg::Advert(_) => {}
    }
}

/// Combine `p` into `cur`; inputs already final in `cur` are protected from anything a late or stale
/// message says about them (node policy, so that I2 is about the library and not about the merge).
fn merge_protected(cur: Psbt, p: Psbt) -> Psbt {
    let before = cur.clone();
    let backup_final: Vec<_> = cur.inputs.iter().map(|i| (i.final_script_sig.clone(), i.final_script_witness.clone())).collect();
    let mut cur = cur;
    if cur.combine(p).is_err() {
        cur = before;
    }
    for (i, (fs, fw)) in backup_final.into_iter().enumerate() {
        if fs.is_some() || fw.is_some() {
            let keep_nw = cur.inputs[i].non_witness_utxo.clone();
            let keep_w = cur.inputs[i].witness_utxo.clone();
            cur.inputs[i] = bitcoin::psbt::Input { non_witness_utxo: keep_nw, witness_utxo: keep_w, final_script_sig: fs, final_script_witness: fw, ..Default::default() };
        }
    }
    cur
}

/// A signer's reply containing only what it added.
fn strip_reply(before: &Psbt, after: &Psbt) -> Psbt {
    let mut out = Psbt::from_unsigned_tx(after.unsigned_tx.clone()).expect("unsigned");
    for i in 0..after.inputs.len() {
        let a = &after.inputs[i];
        let b = &before.inputs[i];
        let o = &mut out.inputs[i];
        for (k, v) in &a.partial_sigs {
            if !b.partial_sigs.contains_key(k) {
                o.partial_sigs.insert(*k, *v);
            }
        }
        if a.tap_key_sig != b.tap_key_sig {
            o.tap_key_sig = a.tap_key_sig;
        }
        for (k, v) in &a.tap_script_sigs {
            if !b.tap_script_sigs.contains_key(k) {
                o.tap_script_sigs.insert(*k, *v);
            }
        }
        o.sha256_preimages = a.sha256_preimages.clone();
        o.hash256_preimages = a.hash256_preimages.clone();
        o.ripemd160_preimages = a.ripemd160_preimages.clone();
        o.hash160_preimages = a.hash160_preimages.clone();
    }
    out
}
