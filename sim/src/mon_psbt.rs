//! C14 monitors that need more room: I4b/I5 order-freedom and I7 updater consistency.

use std::collections::{BTreeMap, BTreeSet};

use bitcoin::bip32::KeySource;
use bitcoin::hashes::Hash;
use bitcoin::psbt::Psbt;
use bitcoin::taproot::TapLeafHash;
use miniscript::psbt::PsbtExt;
use miniscript::Descriptor;

use crate::gen::OutKind;
use crate::keys::KeyForm;
use crate::monitors::{guard, hash160_of, raise, sha256_of};
use crate::rng::{fnv, mix, Rng};
use crate::sim::World;
use crate::vm;

fn finals(p: &Psbt) -> Vec<(Option<bitcoin::ScriptBuf>, Option<bitcoin::Witness>)> { p.inputs.iter().map(|i| (i.final_script_sig.clone(), i.final_script_witness.clone())).collect() }

pub fn check_order_free(w: &mut World, actor: &str, before: &Psbt, after: &Psbt, mall: bool) {
    let secp = w.env.secp.clone();
    let n = before.inputs.len();
    // (1) by-value variant agrees with the _mut variant
    let bv = guard(w, "finalize by value", actor, |_| {
        let r = if mall { before.clone().finalize_mall(&secp) } else { before.clone().finalize(&secp) };
        match r {
            Ok(p) => p,
            Err((p, _)) => p,
        }
    });
    if let Some(p) = bv {
        if p != *after {
            raise(w, "C14", "I4b", format!("finalize{} by value and finalize{}_mut disagree", if mall { "_mall" } else { "" }, if mall { "_mall" } else { "" }), actor);
            return;
        }
    }
    // (2) one input at a time, in reverse order
    let mut one = before.clone();
    for i in (0..n).rev() {
        let r = guard(w, "finalize_inp", actor, |_| if mall { one.finalize_inp_mall_mut(&secp, i).is_ok() } else { one.finalize_inp_mut(&secp, i).is_ok() });
        if r.is_none() {
            return;
        }
    }
    if finals(&one) != finals(after) {
        let which: Vec<usize> = (0..n).filter(|i| finals(&one)[*i] != finals(after)[*i]).collect();
        let cls = if cross_input_key_origins(before) { "I5-single:cross-input-key-origins" } else { "I5-single" };
        crate::monitors::raise_class(
            w,
            "C14",
            "I5-single",
            cls.to_string(),
            format!("finalising inputs one by one with finalize_inp{}_mut gives a different result than finalize{}_mut for inputs {:?}", if mall { "_mall" } else { "" }, if mall { "_mall" } else { "" }, which),
            actor,
        );
        return;
    }
    // (3) rebuild the same fact set in a permuted insertion order through combine + serialisation
    let mut base = before.clone();
    let mut facts: Vec<Psbt> = vec![];
    let empty = || {
        let mut p = Psbt::from_unsigned_tx(before.unsigned_tx.clone()).expect("unsigned");
        p.outputs = before.outputs.clone();
        p
    };
    for i in 0..n {
        if before.inputs[i].final_script_sig.is_some() || before.inputs[i].final_script_witness.is_some() {
            continue;
        }
        let inp = &before.inputs[i];
        for (k, v) in &inp.partial_sigs {
            let mut p = empty();
            p.inputs[i].partial_sigs.insert(*k, *v);
            facts.push(p);
        }
        for (k, v) in &inp.tap_script_sigs {
            let mut p = empty();
            p.inputs[i].tap_script_sigs.insert(*k, *v);
            facts.push(p);
        }
        if let Some(s) = inp.tap_key_sig {
            let mut p = empty();
            p.inputs[i].tap_key_sig = Some(s);
            facts.push(p);
        }
        for (k, v) in &inp.sha256_preimages {
            let mut p = empty();
            p.inputs[i].sha256_preimages.insert(*k, v.clone());
            facts.push(p);
        }
        for (k, v) in &inp.hash256_preimages {
            let mut p = empty();
            p.inputs[i].hash256_preimages.insert(*k, v.clone());
            facts.push(p);
        }
        for (k, v) in &inp.ripemd160_preimages {
            let mut p = empty();
            p.inputs[i].ripemd160_preimages.insert(*k, v.clone());
            facts.push(p);
        }
        for (k, v) in &inp.hash160_preimages {
            let mut p = empty();
            p.inputs[i].hash160_preimages.insert(*k, v.clone());
            facts.push(p);
        }
        let b = &mut base.inputs[i];
        b.partial_sigs.clear();
        b.tap_script_sigs.clear();
        b.tap_key_sig = None;
        b.sha256_preimages.clear();
        b.hash256_preimages.clear();
        b.ripemd160_preimages.clear();
        b.hash160_preimages.clear();
    }
    let mut r = Rng::new(mix(&[w.env.run_seed, fnv(actor.as_bytes()), w.stats.attempts, 0x4935]));
    r.shuffle(&mut facts);
    let mut rebuilt = base;
    for f in facts {
        let bytes = f.serialize();
        let f2 = match Psbt::deserialize(&bytes) {
            Ok(p) => p,
            Err(_) => return,
        };
        if rebuilt.combine(f2).is_err() {
            return;
        }
    }
    let bytes = rebuilt.serialize();
    let mut rebuilt = match Psbt::deserialize(&bytes) {
        Ok(p) => p,
        Err(_) => return,
    };
    if rebuilt != *before {
        // combine is rust-bitcoin; a mismatch here is not a miniscript property
        w.stats.probe("i5_rebuild_not_identical");
        return;
    }
    let rr = guard(w, "finalize (rebuilt)", actor, |_| if mall { rebuilt.finalize_mall_mut(&secp).is_ok() } else { rebuilt.finalize_mut(&secp).is_ok() });
    if rr.is_some() && finals(&rebuilt) != finals(after) {
        raise(w, "C14", "I5-order", "finalisation depends on the order in which signatures and other fields were added".to_string(), actor);
    }
    w.stats.probe("i5_checked");
}

fn xonly_of(w: &World, id: usize) -> bitcoin::secp256k1::XOnlyPublicKey { w.env.uni.keys[id].xonly }

/// I7: after the updater ran on input `i`, the recorded fields must be consistent with the
/// descriptor's output. `subset` = Plan::update_psbt_input (only what the plan needs).
/// The situation in which the finalizer's cross-input key table matters: an unfinalised input
/// without key-origin fields next to another input that has them.
pub fn cross_input_key_origins(p: &Psbt) -> bool {
    use bitcoin::hashes::hash160;
    let fin = |i: &bitcoin::psbt::Input| i.final_script_sig.is_some() || i.final_script_witness.is_some();
    let contains = |hay: &[u8], needle: &[u8]| hay.windows(needle.len()).any(|w| w == needle);
    for (a, ia) in p.inputs.iter().enumerate() {
        if fin(ia) {
            continue;
        }
        // every script of input a
        let mut scripts: Vec<u8> = vec![];
        for sc in ia.witness_script.iter().chain(ia.redeem_script.iter()) {
            scripts.extend_from_slice(sc.as_bytes());
        }
        for (sc, _) in ia.tap_scripts.values() {
            scripts.extend_from_slice(sc.as_bytes());
        }
        if scripts.is_empty() {
            continue;
        }
        for (b, ib) in p.inputs.iter().enumerate() {
            if a == b {
                continue;
            }
            // a key whose hash occurs in a's scripts, known to input b's key-origin fields only
            for k in ib.bip32_derivation.keys() {
                if ia.bip32_derivation.contains_key(k) {
                    continue;
                }
                let c = hash160::Hash::hash(&k.serialize());
                let u = hash160::Hash::hash(&k.serialize_uncompressed());
                if contains(&scripts, c.as_byte_array()) || contains(&scripts, u.as_byte_array()) {
                    return true;
                }
            }
            for k in ib.tap_key_origins.keys() {
                if ia.tap_key_origins.contains_key(k) {
                    continue;
                }
                let h = hash160::Hash::hash(&k.serialize());
                if contains(&scripts, h.as_byte_array()) {
                    return true;
                }
            }
        }
    }
    false
}

pub fn check_updater(w: &mut World, psbt: &Psbt, i: usize, before: &bitcoin::psbt::Input, subset: bool) {
    let env = w.env.clone();
    let ic = &env.inputs[i];
    let inp = &psbt.inputs[i];
    let spk = ic.spk.as_bytes();
    let text = &ic.spec.text;
    // UTXO fields must be untouched
    if inp.witness_utxo != before.witness_utxo || inp.non_witness_utxo != before.non_witness_utxo {
        raise(w, "C14", "I7-utxo", format!("updater changed the UTXO fields: {}", text), "coord");
        return;
    }
    // scripts hash to the scriptPubKey
    match ic.kind {
        OutKind::Wsh => {
            match &inp.witness_script {
                Some(ws) if spk.len() == 34 && sha256_of(ws.as_bytes())[..] == spk[2..] => {}
                other => {
                    raise(w, "C14", "I7-script", format!("witness_script {:?} does not hash to the scriptPubKey: {}", other.as_ref().map(|s| s.len()), text), "coord");
                    return;
                }
            }
            if inp.redeem_script.is_some() {
                raise(w, "C14", "I7-script", format!("redeem_script set on a native wsh input: {}", text), "coord");
            }
        }
        OutKind::ShMs | OutKind::ShWpkh => match &inp.redeem_script {
            Some(rs) if spk.len() == 23 && hash160_of(rs.as_bytes())[..] == spk[2..22] => {}
            other => {
                raise(w, "C14", "I7-script", format!("redeem_script {:?} does not hash to the scriptPubKey: {}", other.as_ref().map(|s| s.len()), text), "coord");
                return;
            }
        },
        OutKind::ShWsh => {
            let ok = match (&inp.redeem_script, &inp.witness_script) {
                (Some(rs), Some(ws)) => {
                    spk.len() == 23 && hash160_of(rs.as_bytes())[..] == spk[2..22] && rs.len() == 34 && rs.as_bytes()[0] == 0 && rs.as_bytes()[1] == 0x20 && sha256_of(ws.as_bytes())[..] == rs.as_bytes()[2..]
                }
                _ => false,
            };
            if !ok {
                raise(w, "C14", "I7-script", format!("sh(wsh) redeem/witness scripts are not consistent with the scriptPubKey: {}", text), "coord");
                return;
            }
        }
        _ => {}
    }
    // key origins
    let expected_origin = |id: usize| -> KeySource { env.uni.keys[id].origin.clone() };
    match ic.kind {
        OutKind::TrKey | OutKind::TrScript => {
            let tr = match &ic.desc {
                Descriptor::Tr(t) => t,
                _ => return,
            };
            let (rt, ik_id) = match crate::mon_ref::ref_taproot_of(&env, tr) {
                Some(x) => x,
                None => return,
            };
            if !subset {
                if inp.tap_internal_key.map(|k| k.serialize()) != Some(rt.internal) {
                    raise(w, "C14", "I7-tap", format!("tap_internal_key differs from the descriptor's internal key: {}", text), "coord");
                    return;
                }
                if inp.tap_merkle_root.map(|r| r.to_byte_array()) != rt.merkle_root {
                    raise(w, "C14", "I7-tap", format!("tap_merkle_root differs from the BIP341 reference (R4): {}", text), "coord");
                    return;
                }
                // every leaf present with a control block that proves it against the output key
                let mut seen_scripts: BTreeSet<Vec<u8>> = BTreeSet::new();
                for (cb, (script, ver)) in &inp.tap_scripts {
                    let cbb = cb.serialize();
                    let lh = vm::tapleaf_hash(ver.to_consensus(), script.as_bytes());
                    if spk.len() != 34 || !vm::check_taproot_commitment(&env.secp, &cbb, &spk[2..], &lh) {
                        raise(w, "C14", "I7-tap", format!("a (control block, script) pair in tap_scripts does not verify against the output key: {}", text), "coord");
                        return;
                    }
                    seen_scripts.insert(script.as_bytes().to_vec());
                }
                let want: BTreeSet<Vec<u8>> = rt.leaves.iter().map(|l| l.script.clone()).collect();
                if seen_scripts != want {
                    raise(w, "C14", "I7-tap", format!("tap_scripts does not contain exactly the descriptor's leaves ({} vs {}): {}", seen_scripts.len(), want.len(), text), "coord");
                    return;
                }
                // reference control blocks must be among those recorded
                for (li, _) in rt.leaves.iter().enumerate() {
                    let cb = rt.control_block(li);
                    if !inp.tap_scripts.keys().any(|k| k.serialize() == cb) {
                        raise(w, "C14", "I7-tap", format!("control block for leaf {} differs from the BIP341 reference (R4): {}", li, text), "coord");
                        return;
                    }
                }
                // tap_key_origins: exactly the descriptor's keys, each with exactly the leaves it occurs in
                let mut want: BTreeMap<[u8; 32], (BTreeSet<TapLeafHash>, Option<KeySource>)> = BTreeMap::new();
                if let Some(id) = ik_id {
                    want.insert(xonly_of(w, id).serialize(), (BTreeSet::new(), Some(expected_origin(id))));
                } else {
                    want.insert(rt.internal, (BTreeSet::new(), None));
                }
                for (li, leaf) in tr.leaves().enumerate() {
                    for pk in leaf.miniscript().iter_pk() {
                        if let Some(id) = env.by_expr.get(&pk.to_string()) {
                            let e = want.entry(xonly_of(w, *id).serialize()).or_insert((BTreeSet::new(), Some(expected_origin(*id))));
                            e.0.insert(TapLeafHash::from_byte_array(rt.leaves[li].leaf_hash));
                        }
                    }
                }
                let got: BTreeMap<[u8; 32], (BTreeSet<TapLeafHash>, KeySource)> = inp.tap_key_origins.iter().map(|(k, (l, o))| (k.serialize(), (l.iter().copied().collect(), o.clone()))).collect();
                if got.keys().collect::<Vec<_>>() != want.keys().collect::<Vec<_>>() {
                    raise(w, "C14", "I7-origin", format!("tap_key_origins has {} keys, descriptor has {}: {}", got.len(), want.len(), text), "coord");
                    return;
                }
                for (k, (leaves, origin)) in &want {
                    let g = &got[k];
                    if g.0 != *leaves {
                        raise(w, "C14", "I7-origin", format!("tap_key_origins lists leaves {:?} for a key that occurs in {:?}: {}", g.0.len(), leaves.len(), text), "coord");
                        return;
                    }
                    if let Some(o) = origin {
                        // keys without a derivation path get a library-defined fingerprint; only the path is checked
                        if (!o.1.is_empty() && g.1 != *o) || (o.1.is_empty() && !g.1 .1.is_empty()) {
                            raise(w, "C14", "I7-origin", format!("tap_key_origins origin {:?} differs from the key's origin {:?}: {}", g.1, o, text), "coord");
                            return;
                        }
                    }
                }
            } else {
                // subset form: whatever is recorded must be consistent
                for (cb, (script, ver)) in &inp.tap_scripts {
                    let lh = vm::tapleaf_hash(ver.to_consensus(), script.as_bytes());
                    if spk.len() != 34 || !vm::check_taproot_commitment(&env.secp, &cb.serialize(), &spk[2..], &lh) {
                        raise(w, "C14", "I7-tap", format!("Plan::update_psbt_input recorded a (control block, script) pair that does not verify: {}", text), "coord");
                        return;
                    }
                }
                if inp.tap_merkle_root.map(|r| r.to_byte_array()) != rt.merkle_root {
                    raise(w, "C14", "I7-tap", format!("Plan::update_psbt_input: tap_merkle_root differs from R4: {}", text), "coord");
                }
                // key origins recorded by a plan: only descriptor keys; leaf hashes only of leaves the
                // key occurs in; a key of a recorded leaf script lists that leaf (BIP371: an empty list
                // stands for the internal key, so a signer following the list would not sign the leaf)
                let mut occurs: BTreeMap<[u8; 32], BTreeSet<TapLeafHash>> = BTreeMap::new();
                for (li, leaf) in tr.leaves().enumerate() {
                    for pk in leaf.miniscript().iter_pk() {
                        if let Some(id) = env.by_expr.get(&pk.to_string()) {
                            occurs.entry(xonly_of(w, *id).serialize()).or_default().insert(TapLeafHash::from_byte_array(rt.leaves[li].leaf_hash));
                        }
                    }
                }
                let recorded_leaves: BTreeSet<TapLeafHash> = inp.tap_scripts.values().map(|(s, v)| TapLeafHash::from_byte_array(vm::tapleaf_hash(v.to_consensus(), s.as_bytes()))).collect();
                for (k, (leaves, _)) in &inp.tap_key_origins {
                    let kb = k.serialize();
                    let empty = BTreeSet::new();
                    let occ = occurs.get(&kb).unwrap_or(&empty);
                    if kb != rt.internal && !occurs.contains_key(&kb) {
                        raise(w, "C14", "I7-origin", format!("Plan::update_psbt_input lists a key in tap_key_origins that is not in the descriptor: {}", text), "coord");
                        return;
                    }
                    if leaves.iter().any(|l| !occ.contains(l)) {
                        raise(w, "C14", "I7-origin", format!("Plan::update_psbt_input lists a leaf hash for a key that does not occur in that leaf: {}", text), "coord");
                        return;
                    }
                    // the leaves this plan recorded a script for and in which the key occurs
                    let needed: Vec<&TapLeafHash> = occ.iter().filter(|l| recorded_leaves.contains(*l)).collect();
                    if !needed.is_empty() && needed.iter().any(|l| !leaves.contains(l)) {
                        raise(w, "C14", "I7-origin", format!("Plan::update_psbt_input records leaf script(s) containing a key but lists {} of its {} leaf hashes in tap_key_origins: {}", leaves.len(), needed.len(), text), "coord");
                        return;
                    }
                }
            }
        }
        _ => {
            let want: BTreeMap<Vec<u8>, KeySource> = ic.key_ids.iter().map(|id| (env.uni.keys[*id].public.inner.serialize().to_vec(), expected_origin(*id))).collect();
            let got: BTreeMap<Vec<u8>, KeySource> = inp.bip32_derivation.iter().map(|(k, o)| (k.serialize().to_vec(), o.clone())).collect();
            if !subset && got.keys().collect::<Vec<_>>() != want.keys().collect::<Vec<_>>() {
                raise(w, "C14", "I7-origin", format!("bip32_derivation has {} keys, descriptor has {}: {}", got.len(), want.len(), text), "coord");
                return;
            }
            for (k, o) in &got {
                match want.get(k) {
                    None => {
                        raise(w, "C14", "I7-origin", format!("bip32_derivation lists a key that is not in the descriptor: {}", text), "coord");
                        return;
                    }
                    Some(wo) => {
                        if (!wo.1.is_empty() && o != wo) || (wo.1.is_empty() && !o.1.is_empty()) {
                            raise(w, "C14", "I7-origin", format!("bip32_derivation origin {:?} differs from the key's origin {:?}: {}", o, wo, text), "coord");
                            return;
                        }
                    }
                }
            }
        }
    }
    w.stats.probe("i7_checked");
    // a descriptor that does not match the UTXO must be refused and leave the input unchanged
    if !subset && env.inputs.len() > 1 {
        let other = (i + 1) % env.inputs.len();
        if env.inputs[other].spk != ic.spk && !env.inputs[other].foreign {
            let mut copy = psbt.clone();
            let od = env.inputs[other].desc.clone();
            let r = guard(w, "update_input_with_descriptor(mismatch)", "coord", |_| copy.update_input_with_descriptor(i, &od));
            match r {
                Some(Ok(())) => raise(w, "C14", "I7-mismatch", format!("updater accepted a descriptor that does not match the UTXO: {} on {}", env.inputs[other].spec.text, text), "coord"),
                Some(Err(_)) => {
                    if copy.inputs[i] != psbt.inputs[i] {
                        raise(w, "C14", "I7-mismatch", "updater refused a mismatching descriptor but changed the input".to_string(), "coord");
                    }
                    w.stats.probe("i7_mismatch_refused");
                }
                None => {}
            }
        }
    }
    let _ = KeyForm::Single;
}

/// I7 for outputs: the fields recorded by `update_output_with_descriptor` are consistent with the
/// descriptor's output (scripts hash to the scriptPubKey, key origins, taproot internal key and tree).
pub fn check_output_updater(w: &mut World, psbt: &Psbt, o: usize, di: usize) {
    let env = w.env.clone();
    let ic = &env.inputs[di];
    let out = &psbt.outputs[o];
    let spk = psbt.unsigned_tx.output[o].script_pubkey.as_bytes().to_vec();
    let text = &ic.spec.text;
    match ic.kind {
        OutKind::Wsh => {
            if !matches!(&out.witness_script, Some(ws) if spk.len() == 34 && sha256_of(ws.as_bytes())[..] == spk[2..]) {
                raise(w, "C14", "I7-output", format!("output witness_script does not hash to the scriptPubKey: {}", text), "coord");
                return;
            }
        }
        OutKind::ShMs | OutKind::ShWpkh => {
            if !matches!(&out.redeem_script, Some(rs) if spk.len() == 23 && hash160_of(rs.as_bytes())[..] == spk[2..22]) {
                raise(w, "C14", "I7-output", format!("output redeem_script does not hash to the scriptPubKey: {}", text), "coord");
                return;
            }
        }
        OutKind::ShWsh => {
            let ok = match (&out.redeem_script, &out.witness_script) {
                (Some(rs), Some(ws)) => spk.len() == 23 && hash160_of(rs.as_bytes())[..] == spk[2..22] && rs.len() == 34 && sha256_of(ws.as_bytes())[..] == rs.as_bytes()[2..],
                _ => false,
            };
            if !ok {
                raise(w, "C14", "I7-output", format!("output sh(wsh) scripts inconsistent with the scriptPubKey: {}", text), "coord");
                return;
            }
        }
        OutKind::TrKey | OutKind::TrScript => {
            let tr = match &ic.desc {
                Descriptor::Tr(t) => t,
                _ => return,
            };
            let (rt, _) = match crate::mon_ref::ref_taproot_of(&env, tr) {
                Some(x) => x,
                None => return,
            };
            if out.tap_internal_key.map(|k| k.serialize()) != Some(rt.internal) {
                raise(w, "C14", "I7-output", format!("output tap_internal_key differs from the descriptor's internal key: {}", text), "coord");
                return;
            }
            match (&out.tap_tree, rt.leaves.is_empty()) {
                (None, true) => {}
                (Some(tt), false) => {
                    // rust-bitcoin orders the leaves of a TapTree by node hash, not by position, so only the
                    // multiset of (depth, script) is the updater's responsibility
                    let mut got: Vec<(u8, Vec<u8>)> = tt.script_leaves().map(|l| (l.merkle_branch().len() as u8, l.script().as_bytes().to_vec())).collect();
                    let mut want: Vec<(u8, Vec<u8>)> = rt.leaves.iter().map(|l| (l.depth, l.script.clone())).collect();
                    got.sort();
                    want.sort();
                    // and the tree must commit to the same merkle root
                    if Some(tt.root_hash().to_byte_array()) != rt.merkle_root {
                        raise(w, "C14", "I7-output", format!("output tap_tree root differs from the BIP341 reference: {}", text), "coord");
                        return;
                    }
                    if got != want {
                        raise(w, "C14", "I7-output", format!("output tap_tree (depth, script) list differs from the descriptor's tree: got {:?} want {:?}: {}", got.iter().map(|(d, s)| (*d, crate::keys::hex_of(&s[..s.len().min(8)]))).collect::<Vec<_>>(), want.iter().map(|(d, s)| (*d, crate::keys::hex_of(&s[..s.len().min(8)]))).collect::<Vec<_>>(), text), "coord");
                        return;
                    }
                }
                _ => {
                    raise(w, "C14", "I7-output", format!("output tap_tree presence does not match the descriptor: {}", text), "coord");
                    return;
                }
            }
            let want: BTreeSet<[u8; 32]> = {
                let mut s = BTreeSet::new();
                s.insert(rt.internal);
                for id in &ic.key_ids {
                    s.insert(env.uni.keys[*id].xonly.serialize());
                }
                s
            };
            let got: BTreeSet<[u8; 32]> = out.tap_key_origins.keys().map(|k| k.serialize()).collect();
            if got != want {
                raise(w, "C14", "I7-output", format!("output tap_key_origins keys differ from the descriptor's keys: {}", text), "coord");
                return;
            }
        }
        _ => {}
    }
    if !matches!(ic.kind, OutKind::TrKey | OutKind::TrScript) {
        let want: BTreeSet<Vec<u8>> = ic.key_ids.iter().map(|id| env.uni.keys[*id].public.inner.serialize().to_vec()).collect();
        let got: BTreeSet<Vec<u8>> = out.bip32_derivation.keys().map(|k| k.serialize().to_vec()).collect();
        if got != want {
            raise(w, "C14", "I7-output", format!("output bip32_derivation keys differ from the descriptor's keys: {}", text), "coord");
            return;
        }
        for (k, o2) in &out.bip32_derivation {
            if let Some(id) = ic.key_ids.iter().find(|id| env.uni.keys[**id].public.inner.serialize().to_vec() == k.serialize().to_vec()) {
                let wo = &env.uni.keys[*id].origin;
                if !wo.1.is_empty() && o2 != wo {
                    raise(w, "C14", "I7-output", format!("output bip32_derivation origin differs from the key's origin: {}", text), "coord");
                    return;
                }
            }
        }
    }
    w.stats.probe("i7_output_checked");
}

/// BIP174's rule for finalizers, judged by the harness: every ECDSA partial signature carries the
/// sighash type the input announces (SIGHASH_ALL when it announces none), that type is a standard
/// one, and taproot inputs carry no ECDSA signatures (their field is a taproot type, not an ECDSA one).
pub fn sigs_follow_announced_sighash(w: &World, psbt: &Psbt) -> bool {
    use crate::gen::OutKind;
    for (i, inp) in psbt.inputs.iter().enumerate() {
        let taproot = match w.env.inputs.get(i) {
            Some(ic) => matches!(ic.kind, OutKind::TrKey | OutKind::TrScript),
            None => return false,
        };
        if taproot {
            if !inp.partial_sigs.is_empty() {
                return false;
            }
            if let Some(t) = inp.sighash_type {
                if t.taproot_hash_ty().is_err() {
                    return false;
                }
            }
            continue;
        }
        let target = match inp.sighash_type {
            Some(t) => match t.ecdsa_hash_ty() {
                Ok(t) => t,
                Err(_) => return false,
            },
            None => bitcoin::EcdsaSighashType::All,
        };
        for sig in inp.partial_sigs.values() {
            if sig.sighash_type != target {
                return false;
            }
        }
    }
    true
}
