//! C14 monitors that need more room: I5 order-freedom and I7 updater consistency.
use bitcoin::psbt::Psbt;
use crate::sim::World;
pub fn check_order_free(_w: &mut World, _actor: &str, _before: &Psbt, _after: &Psbt, _mall: bool) {}
pub fn check_updater(_w: &mut World, _psbt: &Psbt, _i: usize, _before: &bitcoin::psbt::Input, _subset: bool) {}
