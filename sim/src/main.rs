fn main() { println!("mssim"); }
