use std::time::Instant;

use mssim::props;
use mssim::runner::*;

fn usage() -> ! {
    eprintln!("usage: mssim check <PROP> [--tier quick|thorough] [--runs N] [--workers N] [--cfg normal|fault_free|corruption]\n       mssim replay <file>\n       mssim determinism <PROP> [--runs N]\n       mssim show <PROP> <run>");
    std::process::exit(2)
}

fn arg_val(args: &[String], name: &str) -> Option<String> { args.iter().position(|a| a == name).and_then(|i| args.get(i + 1).cloned()) }

fn main() {
    let args: Vec<String> = std::env::args().collect();
    if args.len() < 2 {
        usage();
    }
    let seed: u64 = std::env::var("VERIF_SEED").ok().and_then(|s| s.parse().ok()).unwrap_or(1);
    let workers: usize = arg_val(&args, "--workers").and_then(|s| s.parse().ok()).unwrap_or_else(|| std::thread::available_parallelism().map(|n| n.get()).unwrap_or(4));
    // library panics are caught by monitors; keep stderr quiet
    std::panic::set_hook(Box::new(|_| {}));
    match args[1].as_str() {
        "check" => {
            let prop = args.get(2).cloned().unwrap_or_else(|| usage());
            let tier = arg_val(&args, "--tier").or_else(|| std::env::var("VERIF_TIER").ok()).unwrap_or_else(|| "quick".into());
            let code = check_engine_a(&prop, &tier, seed, workers, &args);
            std::process::exit(code);
        }
        "selftest" => match mssim::vm_selftest::run_selftests() {
            Ok(n) => {
                println!("R1 self-tests: {} vectors passed", n);
                std::process::exit(0);
            }
            Err(f) => {
                for l in f {
                    println!("R1 SELF-TEST FAILED: {}", l);
                }
                std::process::exit(2);
            }
        },
        "replay" => {
            let path = args.get(2).cloned().unwrap_or_else(|| usage());
            match replay_file(&path, None) {
                Ok((prop, Some(v), class)) => {
                    println!("replayed: property={} invariant={} class={} actor={} t={} seq={}\n  {}", prop, v.inv, v.class, v.actor, v.time, v.seq, v.detail);
                    if v.class == class {
                        println!("VIOLATION property={} replay={}", prop, path);
                        std::process::exit(1);
                    }
                    println!("replay produced a different violation class than recorded ({})", class);
                    std::process::exit(1);
                }
                Ok((prop, None, _)) => {
                    println!("replay of {} for {} produced no violation", path, prop);
                    std::process::exit(0);
                }
                Err(e) => {
                    eprintln!("replay error: {}", e);
                    std::process::exit(2);
                }
            }
        }
        "determinism" => {
            let prop = args.get(2).cloned().unwrap_or_else(|| usage());
            let runs: u64 = arg_val(&args, "--runs").and_then(|s| s.parse().ok()).unwrap_or(2000);
            let mut digests = vec![];
            for w in [1usize, workers, workers] {
                let cfg = ExploreCfg { seed, prop: prop.clone(), runs, workers: w, bias: props::bias_for(&prop, "normal"), mon: props::mon_for(&prop), first_run: 0, keep_going: true };
                let (agg, _, _) = explore(&cfg, &[]);
                println!("workers={} runs={} digest={:016x}", w, agg.runs, agg.digest);
                digests.push(agg.digest);
            }
            if digests.iter().all(|d| *d == digests[0]) {
                println!("DETERMINISM OK");
                std::process::exit(0);
            }
            println!("DETERMINISM FAILED");
            std::process::exit(2);
        }
        "show" => {
            let prop = args.get(2).cloned().unwrap_or_else(|| usage());
            let run: u64 = args.get(3).and_then(|s| s.parse().ok()).unwrap_or(0);
            let o = run_one(seed, &prop, run, &props::bias_for(&prop, &arg_val(&args, "--cfg").unwrap_or("normal".into())), &props::mon_for(&prop), true);
            println!("{}", serde_json::to_string_pretty(&o.scenario.to_json()).unwrap());
            for l in &o.result.log {
                println!("{}", l);
            }
            println!("stats: events={} blocks={} attempts={} epochs={} confirmed={} fin_ok={} fin_err={} probes={:?}", o.result.stats.events, o.result.stats.blocks, o.result.stats.attempts, o.result.stats.epochs, o.result.stats.confirmed, o.result.stats.finalize_ok, o.result.stats.finalize_err, o.result.stats.probes);
            for v in &o.result.violations {
                println!("VIOLATION {} {} {}: {}", v.prop, v.inv, v.class, v.detail);
            }
            println!("harness errors: {:?}", o.result.harness_errors);
        }
        _ => usage(),
    }
}

fn check_engine_a(prop: &str, tier: &str, seed: u64, workers: usize, args: &[String]) -> i32 {
    if !props::ENGINE_A_PROPS.contains(&prop) {
        eprintln!("property {} is not served by engine A", prop);
        return 2;
    }
    let t0 = Instant::now();
    let known = load_known_findings();
    let runs: u64 = arg_val(args, "--runs").and_then(|s| s.parse().ok()).unwrap_or_else(|| props::runs_for(prop, tier));
    let cfgs: Vec<&str> = match arg_val(args, "--cfg") {
        Some(c) => vec![Box::leak(c.into_boxed_str())],
        None => vec!["normal", "fault_free", "corruption"],
    };
    let mut total = Agg::default();
    let mut exit = 0;
    let mut n_viol = 0u64;
    let mut known_all = std::collections::BTreeMap::new();
    let mut per_cfg = serde_json::Map::new();
    for (ci, cfgname) in cfgs.iter().enumerate() {
        let share = match *cfgname {
            "normal" => runs * 7 / 10,
            "fault_free" => runs * 2 / 10,
            _ => runs / 10,
        };
        let share = if cfgs.len() == 1 { runs } else { share.max(1) };
        let mut mon = props::mon_for(prop);
        mon.corruption = *cfgname == "corruption";
        let cfg = ExploreCfg { seed, prop: prop.to_string(), runs: share, workers, bias: props::bias_for(prop, cfgname), mon: mon.clone(), first_run: (ci as u64) * 10_000_000, keep_going: false };
        let (agg, found, known_hits) = explore(&cfg, &known);
        per_cfg.insert(cfgname.to_string(), serde_json::json!({"runs": agg.runs, "confirmed": agg.confirmed, "faults_fired": agg.fired, "oracle_verdicts": agg.oracle_calls}));
        for (k, v) in known_hits {
            *known_all.entry(k).or_insert(0u64) += v;
        }
        for f in found {
            n_viol += 1;
            let (min_sc, min_v) = minimise(&f.outcome.scenario, prop, &mon, &f.violation.class, &f.outcome.result.decisions);
            let (sc, v, minimised) = match min_v {
                Some(v) => (min_sc, v, true),
                None => (f.outcome.scenario.clone(), f.violation.clone(), false),
            };
            let mut sc = sc;
            if !minimised {
                sc.decisions = None;
            }
            let path = write_replay(prop, &sc, &v, minimised);
            // replay in a fresh execution before it is believed
            let confirmed = matches!(replay_file(&path, Some(mon.clone())), Ok((_, Some(v2), _)) if v2.class == v.class);
            println!("violation: property={} invariant={} class={} cfg={} run={} minimised={} replay_confirmed={}", prop, v.inv, v.class, cfgname, f.outcome.run, minimised, confirmed);
            println!("  {}", v.detail);
            if confirmed {
                println!("VIOLATION property={} replay={}", prop, path);
                exit = 1;
            } else {
                println!("HARNESS-ERROR: violation did not replay; not reported as VIOLATION");
                if exit == 0 {
                    exit = 2;
                }
            }
        }
        merge(&mut total, agg);
    }
    for (k, n) in &known_all {
        println!("KNOWN-FINDING: {} (hit {} times)", k, n);
    }
    if !total.harness_errors.is_empty() {
        println!("harness errors: {:?}", total.harness_errors);
        if exit == 0 {
            exit = 2;
        }
    }
    let wall = t0.elapsed().as_secs_f64();
    let extra = serde_json::json!({ "configurations": per_cfg, "known_findings_hit": known_all });
    write_evidence(prop, tier, seed, &total, wall, n_viol, extra, &props::rule_for(prop), &ASSUMPTIONS);
    println!("{}: {} runs, {} oracle verdicts, {} distinct non-trivial cases, {:.1}s, exit {}", prop, total.runs, total.oracle_calls, total.nontrivial.len(), wall, exit);
    exit
}

const ASSUMPTIONS: [&str; 5] = [
    "R1 (the harness's Script VM) implements consensus and standardness rules faithfully; it is validated by self-test vectors and differential triage only, no Bitcoin Core is available offline",
    "bitcoin::sighash::SighashCache digests, secp256k1 and bitcoin_hashes are correct (trusted base of R1)",
    "rust-bitcoin Psbt combine/serialize/deserialize are correct",
    "sampling, not proof: a clean batch is evidence about the sampled runs only",
    "bounds: <=25 fragments, <=8 keys, <=8 tap leaves, <=3 inputs, <=6 signers, <=80 events, <=60 blocks per run",
];

fn merge(a: &mut Agg, b: Agg) {
    a.runs += b.runs;
    a.events += b.events;
    a.blocks += b.blocks;
    a.sim_seconds += b.sim_seconds;
    a.attempts += b.attempts;
    a.confirmed += b.confirmed;
    a.oracle_calls += b.oracle_calls;
    for (k, v) in b.fired {
        *a.fired.entry(k).or_insert(0) += v;
    }
    for (k, v) in b.probes {
        *a.probes.entry(k).or_insert(0) += v;
    }
    a.shapes.extend(b.shapes);
    a.cases.extend(b.cases);
    a.nontrivial.extend(b.nontrivial);
    for s in b.samples {
        if a.samples.len() < 4 {
            a.samples.push(s);
        }
    }
    a.harness_errors.extend(b.harness_errors);
    a.digest = mssim::rng::mix(&[a.digest, b.digest]);
    for (k, v) in b.by_kind {
        *a.by_kind.entry(k).or_insert(0) += v;
    }
    for (k, v) in b.by_source {
        *a.by_source.entry(k).or_insert(0) += v;
    }
}
