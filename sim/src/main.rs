use std::time::Instant;

use mssim::props;
use mssim::runner::*;

fn usage() -> ! {
    eprintln!("usage: mssim check <PROP> [--tier quick|thorough] [--runs N] [--workers N] [--cfg normal|fault_free|corruption]\n       mssim replay <file>\n       mssim determinism <PROP> [--runs N]\n       mssim show <PROP> <run>");
    std::process::exit(2)
}

fn arg_val(args: &[String], name: &str) -> Option<String> { args.iter().position(|a| a == name).and_then(|i| args.get(i + 1).cloned()) }

#[global_allocator]
static ALLOC: mssim::alloc_track::Tracking = mssim::alloc_track::Tracking;

fn main() {
    // a panic that no guard caught is a harness error, not a verdict
    if std::panic::catch_unwind(real_main).is_err() {
        println!("HARNESS-ERROR: the harness itself panicked (set VERIF_DEBUG=1 for the message)");
        std::process::exit(2);
    }
}

fn real_main() {
    let args: Vec<String> = std::env::args().collect();
    if args.len() < 2 {
        usage();
    }
    let seed: u64 = std::env::var("VERIF_SEED").ok().and_then(|s| s.parse().ok()).unwrap_or(1);
    let workers: usize = arg_val(&args, "--workers").and_then(|s| s.parse().ok()).unwrap_or_else(|| std::thread::available_parallelism().map(|n| n.get()).unwrap_or(4));
    // library panics are caught by monitors; keep stderr quiet
    // library panics are caught and reported by the monitors; the default hook would print every one.
    // A panic outside a guard is a harness error: say so on the way out (exit code 101 otherwise).
    std::panic::set_hook(Box::new(|info| {
        if std::env::var("VERIF_DEBUG").is_ok() {
            eprintln!("debug: panic in {:?}: {}", std::thread::current().name(), info);
        }
    }));
    match args[1].as_str() {
        "check" => {
            let prop = args.get(2).cloned().unwrap_or_else(|| usage());
            let tier = arg_val(&args, "--tier").or_else(|| std::env::var("VERIF_TIER").ok()).unwrap_or_else(|| "quick".into());
            if let Err(f) = mssim::vm_selftest::run_selftests() {
                for l in f {
                    println!("R1 SELF-TEST FAILED: {}", l);
                }
                std::process::exit(2);
            }
            let code = match prop.as_str() {
                "C10" => check_c10(&tier, seed, workers, &args),
                "C11" => check_c11(&tier, seed, workers, &args),
                _ => check_engine_a(&prop, &tier, seed, workers, &args),
            };
            std::process::exit(code);
        }
        "faultio-worker" => {
            let shard: u64 = arg_val(&args, "--shard").and_then(|s| s.parse().ok()).unwrap_or(0);
            let count: u64 = arg_val(&args, "--count").and_then(|s| s.parse().ok()).unwrap_or(1000);
            let trace = args.iter().any(|a| a == "--trace");
            std::process::exit(mssim::faultio::worker(seed, shard, count, trace));
        }
        "faultio-case" => {
            let h = args.get(2).cloned().unwrap_or_default();
            match mssim::faultio::case_from_hex(&h) {
                Some(c) => {
                    let r = std::panic::catch_unwind(|| mssim::faultio::wire_exec_guarded(&c));
                    match r {
                        Ok(Ok(_)) => std::process::exit(0),
                        Ok(Err(m)) => {
                            println!("{}", m);
                            std::process::exit(101);
                        }
                        Err(_) => {
                            println!("panic");
                            std::process::exit(101);
                        }
                    }
                }
                None => std::process::exit(2),
            }
        }
        "selftest" => match mssim::vm_selftest::run_selftests() {
            Ok(n) => {
                println!("R1 self-tests: {} vectors passed", n);
                std::process::exit(0);
            }
            Err(f) => {
                for l in f {
                    println!("R1 SELF-TEST FAILED: {}", l);
                }
                std::process::exit(2);
            }
        },
        "replay" => {
            let path = args.get(2).cloned().unwrap_or_else(|| usage());
            if let Ok(txt) = std::fs::read_to_string(&path) {
                if let Ok(v) = serde_json::from_str::<serde_json::Value>(&txt) {
                    if v["engine"].as_str() == Some("faultio") {
                        std::process::exit(replay_faultio(&v, &path));
                    }
                }
            }
            match replay_file(&path, None) {
                Ok((prop, Some(v), class)) => {
                    println!("replayed: property={} invariant={} class={} actor={} t={} seq={}\n  {}", prop, v.inv, v.class, v.actor, v.time, v.seq, v.detail);
                    if v.class == class {
                        println!("VIOLATION property={} replay={}", prop, path);
                        std::process::exit(1);
                    }
                    println!("replay produced a different violation class than recorded ({})", class);
                    std::process::exit(1);
                }
                Ok((prop, None, _)) => {
                    println!("replay of {} for {} produced no violation", path, prop);
                    std::process::exit(0);
                }
                Err(e) => {
                    eprintln!("replay error: {}", e);
                    std::process::exit(2);
                }
            }
        }
        "determinism" => {
            let prop = args.get(2).cloned().unwrap_or_else(|| usage());
            let runs: u64 = arg_val(&args, "--runs").and_then(|s| s.parse().ok()).unwrap_or(2000);
            let mut digests = vec![];
            for w in [1usize, workers, workers] {
                let cfg = ExploreCfg { seed, prop: prop.clone(), runs, workers: w, bias: props::bias_for(&prop, "normal"), mon: props::mon_for(&prop), first_run: 0, keep_going: true };
                let (agg, _, _) = explore(&cfg, &[]);
                println!("workers={} runs={} digest={:016x}", w, agg.runs, agg.digest);
                digests.push(agg.digest);
            }
            if digests.iter().all(|d| *d == digests[0]) {
                println!("DETERMINISM OK");
                std::process::exit(0);
            }
            println!("DETERMINISM FAILED");
            std::process::exit(2);
        }
        "show" => {
            let prop = args.get(2).cloned().unwrap_or_else(|| usage());
            let run: u64 = args.get(3).and_then(|s| s.parse().ok()).unwrap_or(0);
            let o = run_one(seed, &prop, run, &props::bias_for(&prop, &arg_val(&args, "--cfg").unwrap_or("normal".into())), &props::mon_for(&prop), true);
            println!("{}", serde_json::to_string_pretty(&o.scenario.to_json()).unwrap());
            for l in &o.result.log {
                println!("{}", l);
            }
            println!("stats: events={} blocks={} attempts={} epochs={} confirmed={} fin_ok={} fin_err={} probes={:?}", o.result.stats.events, o.result.stats.blocks, o.result.stats.attempts, o.result.stats.epochs, o.result.stats.confirmed, o.result.stats.finalize_ok, o.result.stats.finalize_err, o.result.stats.probes);
            for v in &o.result.violations {
                println!("VIOLATION {} {} {}: {}", v.prop, v.inv, v.class, v.detail);
            }
            println!("harness errors: {:?}", o.result.harness_errors);
        }
        _ => usage(),
    }
}

fn check_engine_a(prop: &str, tier: &str, seed: u64, workers: usize, args: &[String]) -> i32 {
    if !props::ENGINE_A_PROPS.contains(&prop) {
        eprintln!("property {} is not served by engine A", prop);
        return 2;
    }
    let t0 = Instant::now();
    let known = load_known_findings();
    let runs: u64 = arg_val(args, "--runs").and_then(|s| s.parse().ok()).unwrap_or_else(|| props::runs_for(prop, tier));
    let cfgs: Vec<&str> = match arg_val(args, "--cfg") {
        Some(c) => vec![Box::leak(c.into_boxed_str())],
        None => vec!["normal", "fault_free", "corruption"],
    };
    let mut total = Agg::default();
    let mut exit = 0;
    let mut n_viol = 0u64;
    let mut known_all = std::collections::BTreeMap::new();
    let mut per_cfg = serde_json::Map::new();
    for (ci, cfgname) in cfgs.iter().enumerate() {
        let share = match *cfgname {
            "normal" => runs * 7 / 10,
            "fault_free" => runs * 2 / 10,
            _ => runs / 10,
        };
        let share = if cfgs.len() == 1 { runs } else { share.max(1) };
        let mut mon = props::mon_for(prop);
        mon.corruption = *cfgname == "corruption";
        let cfg = ExploreCfg { seed, prop: prop.to_string(), runs: share, workers, bias: props::bias_for(prop, cfgname), mon: mon.clone(), first_run: (ci as u64) * 10_000_000, keep_going: false };
        let (agg, found, known_hits) = explore(&cfg, &known);
        per_cfg.insert(cfgname.to_string(), serde_json::json!({"runs": agg.runs, "confirmed": agg.confirmed, "faults_fired": agg.fired, "oracle_verdicts": agg.oracle_calls}));
        for (k, v) in known_hits {
            *known_all.entry(k).or_insert(0u64) += v;
        }
        for f in found {
            n_viol += 1;
            let (min_sc, min_v) = minimise(&f.outcome.scenario, prop, &mon, &f.violation.class, &f.outcome.result.decisions);
            let (sc, v, minimised) = match min_v {
                Some(v) => (min_sc, v, true),
                None => (f.outcome.scenario.clone(), f.violation.clone(), false),
            };
            let mut sc = sc;
            if !minimised {
                sc.decisions = None;
            }
            let path = write_replay(prop, &sc, &v, minimised);
            // replay in a fresh execution before it is believed
            let confirmed = matches!(replay_file(&path, Some(mon.clone())), Ok((_, Some(v2), _)) if v2.class == v.class);
            println!("violation: property={} invariant={} class={} cfg={} run={} minimised={} replay_confirmed={}", prop, v.inv, v.class, cfgname, f.outcome.run, minimised, confirmed);
            println!("  {}", v.detail);
            if confirmed {
                println!("VIOLATION property={} replay={}", prop, path);
                exit = 1;
            } else {
                println!("HARNESS-ERROR: violation did not replay; not reported as VIOLATION");
                if exit == 0 {
                    exit = 2;
                }
            }
        }
        merge(&mut total, agg);
    }
    for (k, n) in &known_all {
        println!("KNOWN-FINDING: {} (hit {} times)", k, n);
    }
    if !total.harness_errors.is_empty() {
        println!("harness errors: {:?}", total.harness_errors);
        if exit == 0 {
            exit = 2;
        }
    }
    let wall = t0.elapsed().as_secs_f64();
    let extra = serde_json::json!({ "configurations": per_cfg, "known_findings_hit": known_all });
    write_evidence(prop, tier, seed, &total, wall, n_viol, extra, &props::rule_for(prop), &ASSUMPTIONS);
    println!("{}: {} runs, {} oracle verdicts, {} distinct non-trivial cases, {:.1}s, exit {}", prop, total.runs, total.oracle_calls, total.nontrivial.len(), wall, exit);
    exit
}

const ASSUMPTIONS: [&str; 5] = [
    "R1 (the harness's Script VM) implements consensus and standardness rules faithfully; it is validated by self-test vectors and differential triage only, no Bitcoin Core is available offline",
    "bitcoin::sighash::SighashCache digests, secp256k1 and bitcoin_hashes are correct (trusted base of R1)",
    "rust-bitcoin Psbt combine/serialize/deserialize are correct",
    "sampling, not proof: a clean batch is evidence about the sampled runs only",
    "bounds: <=25 fragments, <=8 keys, <=8 tap leaves, <=3 inputs, <=6 signers, <=80 events, <=60 blocks per run",
];

fn merge(a: &mut Agg, b: Agg) {
    a.runs += b.runs;
    a.events += b.events;
    a.blocks += b.blocks;
    a.sim_seconds += b.sim_seconds;
    a.attempts += b.attempts;
    a.confirmed += b.confirmed;
    a.oracle_calls += b.oracle_calls;
    for (k, v) in b.fired {
        *a.fired.entry(k).or_insert(0) += v;
    }
    for (k, v) in b.probes {
        *a.probes.entry(k).or_insert(0) += v;
    }
    a.shapes.extend(b.shapes);
    a.cases.extend(b.cases);
    a.nontrivial.extend(b.nontrivial);
    for s in b.samples {
        if a.samples.len() < 4 {
            a.samples.push(s);
        }
    }
    a.harness_errors.extend(b.harness_errors);
    a.digest = mssim::rng::mix(&[a.digest, b.digest]);
    for (k, v) in b.by_kind {
        *a.by_kind.entry(k).or_insert(0) += v;
    }
    for (k, v) in b.by_source {
        *a.by_source.entry(k).or_insert(0) += v;
    }
}

fn replay_faultio(v: &serde_json::Value, path: &str) -> i32 {
    let prop = v["property"].as_str().unwrap_or("C11").to_string();
    if let Some(h) = v["case"].as_str() {
        // re-execute the single input in a child process so that aborts and hangs are observable
        let exe = std::env::current_exe().unwrap();
        let out = std::process::Command::new("sh")
            .arg("-c")
            .arg(format!("ulimit -v 4000000; exec timeout 20 {} faultio-case '{}'", exe.display(), h))
            .output();
        match out {
            Ok(o) if o.status.success() => {
                println!("replay of {} produced no violation", path);
                0
            }
            Ok(o) => {
                println!("replayed: child exit {:?}: {}", o.status.code(), String::from_utf8_lossy(&o.stdout).lines().last().unwrap_or(""));
                println!("VIOLATION property={} replay={}", prop, path);
                1
            }
            Err(e) => {
                eprintln!("replay error: {}", e);
                2
            }
        }
    } else if let (Some(kind), Some(text)) = (v["kind"].as_str(), v["input"].as_str()) {
        // C10 storage case: re-run the deterministic storage run that found it
        let run = v["run"].as_u64().unwrap_or(0);
        let seed = v["seed"].as_u64().unwrap_or(1);
        let mut res = new_storage_result();
        mssim::faultio::storage_run(seed, run, v["doubles"].as_u64().unwrap_or(200), &mut res);
        let _ = (kind, text);
        match res.violation {
            Some((c, d)) => {
                println!("replayed: {} {}", c, d);
                println!("VIOLATION property={} replay={}", prop, path);
                1
            }
            None => {
                println!("replay of {} produced no violation", path);
                0
            }
        }
    } else {
        2
    }
}

fn new_storage_result() -> mssim::faultio::StorageResult {
    mssim::faultio::StorageResult { objects: 0, roundtrips: 0, corrupted_parses: 0, strings_exhaustive: 0, by_kind: Default::default(), by_fault: Default::default(), distinct: Default::default(), violation: None, samples: vec![] }
}

fn check_c10(tier: &str, seed: u64, workers: usize, args: &[String]) -> i32 {
    let t0 = Instant::now();
    let runs: u64 = arg_val(args, "--runs").and_then(|s| s.parse().ok()).unwrap_or(if tier == "thorough" { 40_000 } else { 1_500 });
    let doubles: u64 = if tier == "thorough" { 2_000 } else { 300 };
    let known = load_known_findings();
    let next = std::sync::atomic::AtomicU64::new(0);
    let results = std::sync::Mutex::new(std::collections::BTreeMap::new());
    std::thread::scope(|s| {
        for _ in 0..workers {
            s.spawn(|| loop {
                let k = next.fetch_add(1, std::sync::atomic::Ordering::SeqCst);
                if k >= runs {
                    break;
                }
                let mut r = new_storage_result();
                mssim::faultio::storage_run(seed, k, doubles, &mut r);
                results.lock().unwrap().insert(k, r);
            });
        }
    });
    let results = results.into_inner().unwrap();
    let mut tot = new_storage_result();
    let mut exit = 0;
    let mut n_viol = 0u64;
    let mut seen = std::collections::BTreeSet::new();
    let mut known_hits: std::collections::BTreeMap<String, u64> = Default::default();
    for (k, r) in results {
        tot.objects += r.objects;
        tot.roundtrips += r.roundtrips;
        tot.corrupted_parses += r.corrupted_parses;
        tot.strings_exhaustive += r.strings_exhaustive;
        for (a, b) in r.by_kind {
            *tot.by_kind.entry(a).or_insert(0) += b;
        }
        for (a, b) in r.by_fault {
            *tot.by_fault.entry(a).or_insert(0) += b;
        }
        tot.distinct.extend(r.distinct);
        for s in r.samples {
            if tot.samples.len() < 3 {
                tot.samples.push(s);
            }
        }
        if let Some((class, detail)) = r.violation {
            if let Some(kf) = known.iter().find(|kf| kf.property == "C10" && class.starts_with(&kf.class_prefix) && kf.text_contains.as_ref().map(|t| detail.contains(t)).unwrap_or(true)) {
                *known_hits.entry(format!("property=C10 {}", kf.what)).or_insert(0) += 1;
                continue;
            }
            if !seen.insert(class.clone()) || n_viol >= 5 {
                continue;
            }
            n_viol += 1;
            let path = format!("{}/replays/C10-{}-{}.json", verif_dir(), seed, k);
            let _ = std::fs::create_dir_all(format!("{}/replays", verif_dir()));
            let j = serde_json::json!({"property": "C10", "engine": "faultio", "class": class, "violation": detail, "seed": seed, "run": k, "doubles": doubles, "kind": "storage", "input": ""});
            let _ = std::fs::write(&path, serde_json::to_string_pretty(&j).unwrap());
            println!("violation: property=C10 class={} run={}\n  {}", class, k, detail);
            println!("VIOLATION property=C10 replay={}", path);
            exit = 1;
        }
    }
    for (k, n) in &known_hits {
        println!("KNOWN-FINDING: {} (hit {} times)", k, n);
    }
    let wall = t0.elapsed().as_secs_f64();
    let evaluations = tot.roundtrips + tot.corrupted_parses;
    let ev = serde_json::json!({
        "property_id": "C10", "tier": tier, "seed": seed, "level": "exploration",
        "coverage": {
            "evaluations": evaluations,
            "distinct_nontrivial": tot.distinct.len(),
            "rule": "storage mode of engine C: each run generates objects (descriptors with every key form incl. origins, xpubs, wildcards, hardened wildcards, multipath, tap trees; miniscripts per context; concrete and semantic policies; public and secret descriptor keys; wallet-policy templates), persists the string, optionally injects a corruption fault, and 'restarts' by parsing. One evaluation = one round-trip verdict or one corrupted-string parse verdict. distinct = distinct (kind x structural skeleton of the printed form); non-trivial = the object parsed and printed (skeleton includes at least one fragment or key expression).",
            "samples": tot.samples,
            "simulated_runs": runs,
            "runs_per_hour": if wall > 0.0 { (runs as f64 / wall * 3600.0) as u64 } else { 0 },
            "objects": tot.objects, "roundtrip_verdicts": tot.roundtrips, "corrupted_parse_verdicts": tot.corrupted_parses,
            "strings_with_all_single_substitutions_enumerated": tot.strings_exhaustive,
            "objects_by_kind": tot.by_kind, "faults_fired": tot.by_fault,
            "fault_free_configuration": "the round-trip and fixed-point verdicts; it has no fault dimension (durability baseline)",
            "components": {"real_code": ["all FromStr/Display impls, descriptor::checksum"], "stubs": ["simulated disk = a String; corruption injector"]},
            "known_findings_hit": known_hits,
        },
        "assumptions": ["the harness's copy of the checksum input alphabet and its first group equals BIP380's", "sampling for 2 and 3-4 substitutions; exhaustive only for single substitutions on a subset of strings"],
        "wall_s": wall, "violations": n_viol
    });
    let _ = std::fs::create_dir_all(format!("{}/evidence", verif_dir()));
    let _ = std::fs::write(format!("{}/evidence/C10.json", verif_dir()), serde_json::to_string_pretty(&ev).unwrap());
    println!("C10: {} runs, {} objects, {} round trips, {} corrupted parses, {:.1}s, exit {}", runs, tot.objects, tot.roundtrips, tot.corrupted_parses, wall, exit);
    exit
}

fn check_c11(tier: &str, seed: u64, workers: usize, args: &[String]) -> i32 {
    let t0 = Instant::now();
    let shards: u64 = arg_val(args, "--shards").and_then(|s| s.parse().ok()).unwrap_or(if tier == "thorough" { 1600 } else { 64 });
    let per: u64 = arg_val(args, "--count").and_then(|s| s.parse().ok()).unwrap_or(4000);
    let exe = std::env::current_exe().unwrap();
    let next = std::sync::atomic::AtomicU64::new(0);
    let results = std::sync::Mutex::new(std::collections::BTreeMap::new());
    let run_worker = |shard: u64, trace: bool| -> (Option<i32>, String) {
        let cmd = format!("ulimit -v 6000000; VERIF_SEED={} exec timeout {} {} faultio-worker --shard {} --count {} {}", seed, if trace { 600 } else { 300 }, exe.display(), shard, per, if trace { "--trace" } else { "" });
        match std::process::Command::new("sh").arg("-c").arg(cmd).output() {
            Ok(o) => (o.status.code(), String::from_utf8_lossy(&o.stdout).to_string()),
            Err(e) => (Some(-1), format!("spawn failed: {}", e)),
        }
    };
    std::thread::scope(|s| {
        for _ in 0..workers {
            s.spawn(|| loop {
                let k = next.fetch_add(1, std::sync::atomic::Ordering::SeqCst);
                if k >= shards {
                    break;
                }
                let r = run_worker(k, false);
                results.lock().unwrap().insert(k, r);
            });
        }
    });
    let results = results.into_inner().unwrap();
    let mut exit = 0;
    let mut n_viol = 0u64;
    let mut cases = 0u64;
    let mut by_kind: std::collections::BTreeMap<String, u64> = Default::default();
    let mut by_fault: std::collections::BTreeMap<String, u64> = Default::default();
    let mut accepted: std::collections::BTreeMap<String, u64> = Default::default();
    let mut distinct = 0u64;
    let mut samples = vec![];
    let known = load_known_findings();
    let mut known_hits: std::collections::BTreeMap<String, u64> = Default::default();
    for (shard, (code, out)) in &results {
        let done = out.lines().find(|l| l.starts_with("DONE "));
        if let (Some(0), Some(d)) = (code, done) {
            if let Ok(v) = serde_json::from_str::<serde_json::Value>(&d[5..]) {
                cases += v["cases"].as_u64().unwrap_or(0);
                distinct += v["distinct"].as_u64().unwrap_or(0);
                for (m, key) in [(&mut by_kind, "by_kind"), (&mut by_fault, "by_fault"), (&mut accepted, "accepted_by_parser")] {
                    if let Some(o) = v[key].as_object() {
                        for (k, n) in o {
                            *m.entry(k.clone()).or_insert(0) += n.as_u64().unwrap_or(0);
                        }
                    }
                }
                if samples.len() < 3 {
                    if let Some(s) = v["sample"].as_str() {
                        samples.push(s.chars().take(300).collect::<String>());
                    }
                }
            }
            continue;
        }
        // abnormal: panic line, or abort / signal / timeout -> re-run with tracing to attribute
        let (what, case_hex) = if let Some(p) = out.lines().find(|l| l.starts_with("PANIC ")) {
            let mut it = p.splitn(3, ' ');
            it.next();
            it.next();
            let rest = it.next().unwrap_or("");
            let (msg, hex) = rest.rsplit_once(' ').unwrap_or((rest, ""));
            (format!("panic: {}", msg), hex.to_string())
        } else {
            let (c2, o2) = run_worker(*shard, true);
            let last = o2.lines().filter(|l| l.starts_with("CASE ")).last().unwrap_or("").to_string();
            let hex = last.splitn(3, ' ').nth(2).unwrap_or("").to_string();
            (format!("worker died (exit {:?} then {:?}): abort, signal, memory limit or timeout", code, c2), hex)
        };
        let class = format!("{}:{}", if what.starts_with("panic") { "panic" } else { "crash" }, case_hex.split(':').next().unwrap_or(""));
        if let Some(kf) = known.iter().find(|kf| kf.property == "C11" && class.starts_with(&kf.class_prefix) && kf.text_contains.as_ref().map(|t| what.contains(t)).unwrap_or(true)) {
            *known_hits.entry(format!("property=C11 {}", kf.what)).or_insert(0) += 1;
            continue;
        }
        n_viol += 1;
        if n_viol > 5 {
            continue;
        }
        let path = format!("{}/replays/C11-{}-{}.json", verif_dir(), seed, shard);
        let _ = std::fs::create_dir_all(format!("{}/replays", verif_dir()));
        let j = serde_json::json!({"property": "C11", "engine": "faultio", "class": class, "violation": what, "seed": seed, "shard": shard, "case": case_hex});
        let _ = std::fs::write(&path, serde_json::to_string_pretty(&j).unwrap());
        println!("violation: property=C11 class={} shard={}\n  {}", class, shard, what);
        let v: serde_json::Value = j;
        if replay_faultio(&v, &path) == 1 {
            exit = 1;
        } else {
            println!("HARNESS-ERROR: violation did not replay");
            if exit == 0 {
                exit = 2;
            }
        }
    }
    // engine A contribution: no actor panics in any simulated run (hostile adverts, corrupted PSBTs)
    let a_runs = if tier == "thorough" { 200_000 } else { 6_000 };
    let mut mon = props::mon_for("C11");
    mon.corruption = true;
    let cfg = ExploreCfg { seed, prop: "C11".into(), runs: a_runs, workers, bias: props::bias_for("C11", "corruption"), mon: mon.clone(), first_run: 0, keep_going: false };
    let (mut agg, mut found, kh) = explore(&cfg, &known);
    for (k, v) in kh {
        *known_hits.entry(k).or_insert(0) += v;
    }
    // the same invariant in the normal configuration (honest messages, full monitors' worlds: what-if
    // spenders, PSBT-backed satisfier, heavy shapes): a panic needs no corrupted byte to be a violation
    {
        let mut mon_n = props::mon_for("C11");
        mon_n.corruption = false;
        let cfg_n = ExploreCfg { seed, prop: "C11".into(), runs: a_runs, workers, bias: props::bias_for("C11", "normal"), mon: mon_n, first_run: 10_000_000, keep_going: false };
        let (agg_n, found_n, kh_n) = explore(&cfg_n, &known);
        for (k, v) in kh_n {
            *known_hits.entry(k).or_insert(0) += v;
        }
        agg.runs += agg_n.runs;
        found.extend(found_n);
    }
    for f in found {
        n_viol += 1;
        let (min_sc, min_v) = minimise(&f.outcome.scenario, "C11", &mon, &f.violation.class, &f.outcome.result.decisions);
        let (sc, v) = match min_v {
            Some(v) => (min_sc, v),
            None => (f.outcome.scenario.clone(), f.violation.clone()),
        };
        let path = write_replay("C11", &sc, &v, true);
        println!("violation: property=C11 class={} (engine A)\n  {}", v.class, v.detail);
        println!("VIOLATION property=C11 replay={}", path);
        exit = 1;
    }
    for (k, n) in &known_hits {
        println!("KNOWN-FINDING: {} (hit {} times)", k, n);
    }
    let wall = t0.elapsed().as_secs_f64();
    let ev = serde_json::json!({
        "property_id": "C11", "tier": tier, "seed": seed, "level": "exploration",
        "coverage": {
            "evaluations": cases + agg.runs,
            "distinct_nontrivial": distinct,
            "rule": "wire mode of engine C (fault half of the property only; there is no schedule): valid artefacts of every kind (all FromStr inputs, scripts, (spk, scriptSig, witness) triples, PSBTs from every stage of fault-free simulated workflows, definite descriptors) are damaged by truncation, bit flips, byte insert/delete, segment duplication, splicing, special-character replacement and nesting/width amplification beyond the 402 limit, and fed to the matching entry points in subprocess workers under ulimit -v with a watchdog; panic, abort, signal or timeout is a violation. Plus engine A's global invariant: no actor panics in any simulated run with hostile capability advertisements and corrupted messages. distinct = distinct (kind x fault x entry points reached x input); non-trivial = the damaged input got past the first parser (some entry point beyond parsing ran).",
            "samples": samples,
            "wire_cases": cases, "cases_by_kind": by_kind, "faults_fired": by_fault, "cases_accepted_by_first_parser": accepted,
            "worker_shards": shards, "engine_a_runs": agg.runs, "engine_a_faults_fired": agg.fired,
            "runs_per_hour": if wall > 0.0 { ((cases + agg.runs) as f64 / wall * 3600.0) as u64 } else { 0 },
            "components": {"real_code": ["every parser, script decoder, interpreter, PSBT updater/finalizer/extractor, planner"], "stubs": ["fault injector, subprocess watchdog"]},
            "known_findings_hit": known_hits,
        },
        "assumptions": ["robustness testing under the fault-injection half of the family; inputs are those a storage or transport fault, a stale or a hostile peer can derive from valid artefacts, plus structured garbage", "debug assertions and overflow checks are enabled in the harness build, as in the repository's own test profile"],
        "wall_s": wall, "violations": n_viol
    });
    let _ = std::fs::create_dir_all(format!("{}/evidence", verif_dir()));
    let _ = std::fs::write(format!("{}/evidence/C11.json", verif_dir()), serde_json::to_string_pretty(&ev).unwrap());
    println!("C11: {} wire cases in {} shards, {} engine-A runs, {:.1}s, exit {}", cases, shards, agg.runs, wall, exit);
    exit
}
