//! A Scenario is the explicit, replayable description of one simulated run: workload (descriptors,
//! keys), knobs, and every non-default scheduling / fault decision. Explore mode derives decisions
//! statelessly from hash(run seed, decision key), so removing one fault never shifts another.

use std::collections::BTreeMap;

use serde_json::{json, Value};

use crate::gen::{Gen, LockCfg, OutKind, ALL_KINDS};
use crate::keys::{HashKind, KeyForm, KeyUniverse};
use crate::rng::{fnv, mix, Rng};
use crate::wallet;

#[derive(Clone, Copy, Debug, PartialEq, Eq, PartialOrd, Ord, Hash)]
pub enum Fault {
    Drop,
    Duplicate,
    Delay,
    Partition,
    StaleReplay,
    Corrupt,
    SignerCrash,
    CoordCrash,
    ClockSkew,
    Reorg,
    HostileAdvert,
    ByzantineRelay,
    SignerPartial,
}

pub const ALL_FAULTS: [Fault; 13] = [
    Fault::Drop,
    Fault::Duplicate,
    Fault::Delay,
    Fault::Partition,
    Fault::StaleReplay,
    Fault::Corrupt,
    Fault::SignerCrash,
    Fault::CoordCrash,
    Fault::ClockSkew,
    Fault::Reorg,
    Fault::HostileAdvert,
    Fault::ByzantineRelay,
    Fault::SignerPartial,
];

impl Fault {
    pub fn name(self) -> &'static str {
        match self {
            Fault::Drop => "drop",
            Fault::Duplicate => "duplicate",
            Fault::Delay => "delay",
            Fault::Partition => "partition",
            Fault::StaleReplay => "stale_replay",
            Fault::Corrupt => "corrupt",
            Fault::SignerCrash => "signer_crash",
            Fault::CoordCrash => "coord_crash",
            Fault::ClockSkew => "clock_skew",
            Fault::Reorg => "reorg",
            Fault::HostileAdvert => "hostile_advert",
            Fault::ByzantineRelay => "byzantine_relay",
            Fault::SignerPartial => "signer_partial",
        }
    }
    pub fn from_name(s: &str) -> Option<Fault> { ALL_FAULTS.iter().copied().find(|f| f.name() == s) }
}

#[derive(Clone, Copy, Debug, PartialEq, Eq)]
pub enum UtxoForm {
    Witness,
    NonWitness,
    Both,
}

#[derive(Clone, Debug)]
pub struct InputSpec {
    pub kind: OutKind,
    pub text: String,
    pub source: String,
    pub utxo_form: UtxoForm,
    pub amount: u64,
    /// blocks before the starting tip at which the coin confirmed
    pub conf_depth: u32,
    pub vout: u32,
}

#[derive(Clone, Debug)]
pub struct Knobs {
    pub n_signers: usize,
    pub n_replicas: usize,
    pub serde_roundtrip: bool,
    pub tx_version: i32,
    /// 0 = plan-driven lock fields, 1 = clock-driven
    pub lock_strategy: u8,
    /// prefer time-based units when the coordinator describes its clock to the planner
    pub prefer_time_units: bool,
    pub psbt_sighash_all: bool,
    pub stripped_replies: bool,
    pub max_events: u32,
    pub max_blocks: u32,
    /// event number after which no new fault fires (quiesce point)
    pub quiesce_at: u32,
    pub enabled_faults: Vec<Fault>,
    /// include an extra input that is already final on arrival (foreign, unverifiable)
    pub foreign_final_input: bool,
}

#[derive(Clone, Debug)]
pub struct Scenario {
    pub seed: u64,
    pub run: u64,
    pub uni_seed: u64,
    pub index: u32,
    pub key_specs: Vec<(usize, KeyForm)>,
    pub hash_specs: Vec<(usize, HashKind)>,
    pub inputs: Vec<InputSpec>,
    pub knobs: Knobs,
    /// None: explore (decisions from hash). Some: replay (explicit decisions, default 0).
    pub decisions: Option<BTreeMap<String, u64>>,
    pub start_height: u32,
    pub start_time: u32,
}

pub fn form_name(f: KeyForm) -> &'static str {
    match f {
        KeyForm::XpubOriginWild => "xpub_origin_wild",
        KeyForm::XpubOriginFixed => "xpub_origin_fixed",
        KeyForm::XpubBare => "xpub_bare",
        KeyForm::XpubBareWild => "xpub_bare_wild",
        KeyForm::Single => "single",
        KeyForm::SingleOrigin => "single_origin",
        KeyForm::Uncompressed => "uncompressed",
        KeyForm::XOnly => "xonly",
        KeyForm::TwinOtherParity => "twin_other_parity",
        KeyForm::TwinUncompressed => "twin_uncompressed",
    }
}
pub fn form_from(s: &str) -> Option<KeyForm> {
    [
        KeyForm::XpubOriginWild,
        KeyForm::XpubOriginFixed,
        KeyForm::XpubBare,
        KeyForm::XpubBareWild,
        KeyForm::Single,
        KeyForm::SingleOrigin,
        KeyForm::Uncompressed,
        KeyForm::XOnly,
        KeyForm::TwinOtherParity,
        KeyForm::TwinUncompressed,
    ]
    .into_iter()
    .find(|f| form_name(*f) == s)
}
pub fn hk_name(k: HashKind) -> &'static str {
    match k {
        HashKind::Sha256 => "sha256",
        HashKind::Hash256 => "hash256",
        HashKind::Ripemd160 => "ripemd160",
        HashKind::Hash160 => "hash160",
    }
}
pub fn hk_from(s: &str) -> Option<HashKind> {
    [HashKind::Sha256, HashKind::Hash256, HashKind::Ripemd160, HashKind::Hash160].into_iter().find(|k| hk_name(*k) == s)
}
pub fn kind_name(k: OutKind) -> &'static str {
    match k {
        OutKind::Bare => "bare",
        OutKind::Pkh => "pkh",
        OutKind::Wpkh => "wpkh",
        OutKind::ShMs => "sh",
        OutKind::ShWpkh => "sh_wpkh",
        OutKind::ShWsh => "sh_wsh",
        OutKind::Wsh => "wsh",
        OutKind::TrKey => "tr_key",
        OutKind::TrScript => "tr_script",
    }
}
pub fn kind_from(s: &str) -> Option<OutKind> { ALL_KINDS.iter().copied().find(|k| kind_name(*k) == s) }

/// Options that bias generation for a particular property check.
#[derive(Clone, Debug, Default)]
pub struct GenBias {
    /// only these output kinds (empty = all)
    pub kinds: Vec<OutKind>,
    /// force all faults off (fault-free configuration)
    pub fault_free: bool,
    /// enable the corruption configuration
    pub corruption: bool,
    pub max_inputs: usize,
}

impl Scenario {
    pub fn rebuild_universe(&self) -> KeyUniverse {
        let mut uni = KeyUniverse::new(self.uni_seed, self.knobs.n_signers, self.index);
        for (o, f) in &self.key_specs {
            uni.new_key(*o, *f);
        }
        for (o, k) in &self.hash_specs {
            uni.new_hash(*o, *k);
        }
        uni
    }

    /// Generate the workload and knobs of run `run` under `seed` (plain seeded generation).
    pub fn generate(seed: u64, prop: &str, run: u64, bias: &GenBias) -> (Scenario, KeyUniverse) {
        let run_seed = mix(&[seed, fnv(prop.as_bytes()), run]);
        let mut rng = Rng::new(run_seed).fork("workload");
        let mut krng = Rng::new(run_seed).fork("knobs");
        let n_signers = krng.range(1, 6) as usize;
        let index = krng.below(50) as u32;
        let uni_seed = mix(&[run_seed, 0x756e69]);
        let mut uni = KeyUniverse::new(uni_seed, n_signers, index);
        let start_height = 1000 + krng.below(200) as u32;
        let start_time = 1_600_000_000 + krng.below(10_000) as u32 * 600;
        let locks = LockCfg { height_base: start_height, time_base: start_time - 600 * 6 };
        let max_inputs = if bias.max_inputs == 0 { 3 } else { bias.max_inputs };
        let n_inputs = match krng.below(10) {
            0..=5 => 1,
            6..=8 => 2.min(max_inputs),
            _ => 3.min(max_inputs),
        };
        let kinds: Vec<OutKind> = if bias.kinds.is_empty() { ALL_KINDS.to_vec() } else { bias.kinds.clone() };
        let mut inputs = vec![];
        for _ in 0..n_inputs {
            // weight script-carrying kinds higher
            let kind = loop {
                let k = *rng.pick(&kinds);
                let heavy = matches!(k, OutKind::Wsh | OutKind::ShWsh | OutKind::ShMs | OutKind::TrScript);
                if heavy || kinds.len() < 4 || rng.chance(1, 3) {
                    break k;
                }
            };
            // retry until the library's own parser accepts it and it can be made definite
            let mut spec = None;
            // a second coin on the same descriptor (same keys in two inputs)
            if !inputs.is_empty() && rng.chance(1, 6) {
                let first: &InputSpec = &inputs[0];
                spec = Some(crate::gen::DescSpec { kind: first.kind, text: first.text.clone(), source: "same-descriptor" });
            }
            for _try in 0..40 {
                if spec.is_some() {
                    break;
                }
                let s = {
                    let mut g = Gen::new(&mut rng, &mut uni, locks);
                    g.descriptor(kind)
                };
                if let Ok(d) = wallet::parse_descriptor(&s.text) {
                    if wallet::make_definite(&d, index).is_ok() {
                        spec = Some(s);
                        break;
                    }
                }
            }
            let spec = spec.unwrap_or_else(|| {
                let mut g = Gen::new(&mut rng, &mut uni, locks);
                g.descriptor(OutKind::Wpkh)
            });
            let segwit = !matches!(spec.kind, OutKind::Bare | OutKind::Pkh | OutKind::ShMs);
            let utxo_form = if segwit {
                match krng.below(3) {
                    0 => UtxoForm::Witness,
                    1 => UtxoForm::NonWitness,
                    _ => UtxoForm::Both,
                }
            } else if krng.chance(1, 3) {
                UtxoForm::Both
            } else {
                UtxoForm::NonWitness
            };
            inputs.push(InputSpec {
                kind: spec.kind,
                text: spec.text,
                source: spec.source.to_string(),
                utxo_form,
                amount: 50_000 + krng.below(1_000_000),
                conf_depth: krng.below(12) as u32,
                vout: krng.below(3) as u32,
            });
        }
        let mut enabled = vec![];
        if !bias.fault_free {
            for f in ALL_FAULTS {
                if f == Fault::Corrupt {
                    if bias.corruption {
                        enabled.push(f);
                    }
                    continue;
                }
                // swarm: each fault kind enabled in ~half of the runs
                if krng.chance(1, 2) {
                    enabled.push(f);
                }
            }
        }
        let max_events = krng.range(30, 80) as u32;
        let knobs = Knobs {
            n_signers,
            n_replicas: krng.range(0, 2) as usize,
            serde_roundtrip: krng.chance(1, 2),
            // 1: no BIP68; 3: standard since TRUC, BIP68 applies to every version >= 2
            tx_version: match krng.below(20) {
                0 => 1,
                1 | 2 => 3,
                _ => 2,
            },
            lock_strategy: krng.below(2) as u8,
            prefer_time_units: krng.chance(1, 3),
            psbt_sighash_all: krng.chance(1, 4),
            stripped_replies: krng.chance(1, 3),
            max_events,
            max_blocks: 60,
            quiesce_at: max_events * 6 / 10,
            enabled_faults: enabled,
            foreign_final_input: krng.chance(1, 8),
        };
        let key_specs = uni.keys.iter().map(|k| (k.owner, k.form)).collect();
        let hash_specs = uni.hashes.iter().map(|h| (h.owner, h.kind)).collect();
        let sc = Scenario { seed, run, uni_seed, index, key_specs, hash_specs, inputs, knobs, decisions: None, start_height, start_time };
        (sc, uni)
    }

    pub fn run_seed(&self, prop: &str) -> u64 { mix(&[self.seed, fnv(prop.as_bytes()), self.run]) }

    pub fn to_json(&self) -> Value {
        json!({
            "seed": self.seed,
            "run": self.run,
            "uni_seed": self.uni_seed.to_string(),
            "index": self.index,
            "start_height": self.start_height,
            "start_time": self.start_time,
            "key_specs": self.key_specs.iter().map(|(o, f)| json!([o, form_name(*f)])).collect::<Vec<_>>(),
            "hash_specs": self.hash_specs.iter().map(|(o, k)| json!([o, hk_name(*k)])).collect::<Vec<_>>(),
            "inputs": self.inputs.iter().map(|i| json!({
                "kind": kind_name(i.kind), "text": i.text, "source": i.source,
                "utxo_form": match i.utxo_form { UtxoForm::Witness => "witness", UtxoForm::NonWitness => "non_witness", UtxoForm::Both => "both" },
                "amount": i.amount, "conf_depth": i.conf_depth, "vout": i.vout,
            })).collect::<Vec<_>>(),
            "knobs": {
                "n_signers": self.knobs.n_signers,
                "n_replicas": self.knobs.n_replicas,
                "serde_roundtrip": self.knobs.serde_roundtrip,
                "tx_version": self.knobs.tx_version,
                "lock_strategy": self.knobs.lock_strategy,
                "prefer_time_units": self.knobs.prefer_time_units,
                "psbt_sighash_all": self.knobs.psbt_sighash_all,
                "stripped_replies": self.knobs.stripped_replies,
                "max_events": self.knobs.max_events,
                "max_blocks": self.knobs.max_blocks,
                "quiesce_at": self.knobs.quiesce_at,
                "enabled_faults": self.knobs.enabled_faults.iter().map(|f| f.name()).collect::<Vec<_>>(),
                "foreign_final_input": self.knobs.foreign_final_input,
            },
            "decisions": match &self.decisions {
                None => Value::Null,
                Some(m) => Value::Object(m.iter().map(|(k, v)| (k.clone(), json!(v))).collect()),
            },
        })
    }

    pub fn from_json(v: &Value) -> Option<Scenario> {
        let k = &v["knobs"];
        let knobs = Knobs {
            n_signers: k["n_signers"].as_u64()? as usize,
            n_replicas: k["n_replicas"].as_u64()? as usize,
            serde_roundtrip: k["serde_roundtrip"].as_bool()?,
            tx_version: k["tx_version"].as_i64()? as i32,
            lock_strategy: k["lock_strategy"].as_u64()? as u8,
            prefer_time_units: k["prefer_time_units"].as_bool()?,
            psbt_sighash_all: k["psbt_sighash_all"].as_bool()?,
            stripped_replies: k["stripped_replies"].as_bool()?,
            max_events: k["max_events"].as_u64()? as u32,
            max_blocks: k["max_blocks"].as_u64()? as u32,
            quiesce_at: k["quiesce_at"].as_u64()? as u32,
            enabled_faults: k["enabled_faults"].as_array()?.iter().filter_map(|f| Fault::from_name(f.as_str()?)).collect(),
            foreign_final_input: k["foreign_final_input"].as_bool()?,
        };
        let mut inputs = vec![];
        for i in v["inputs"].as_array()? {
            inputs.push(InputSpec {
                kind: kind_from(i["kind"].as_str()?)?,
                text: i["text"].as_str()?.to_string(),
                source: i["source"].as_str()?.to_string(),
                utxo_form: match i["utxo_form"].as_str()? {
                    "witness" => UtxoForm::Witness,
                    "non_witness" => UtxoForm::NonWitness,
                    _ => UtxoForm::Both,
                },
                amount: i["amount"].as_u64()?,
                conf_depth: i["conf_depth"].as_u64()? as u32,
                vout: i["vout"].as_u64()? as u32,
            });
        }
        let decisions = match &v["decisions"] {
            Value::Null => None,
            Value::Object(m) => Some(m.iter().filter_map(|(k, v)| Some((k.clone(), v.as_u64()?))).collect()),
            _ => return None,
        };
        Some(Scenario {
            seed: v["seed"].as_u64()?,
            run: v["run"].as_u64()?,
            uni_seed: v["uni_seed"].as_str()?.parse().ok()?,
            index: v["index"].as_u64()? as u32,
            key_specs: v["key_specs"].as_array()?.iter().filter_map(|e| Some((e[0].as_u64()? as usize, form_from(e[1].as_str()?)?))).collect(),
            hash_specs: v["hash_specs"].as_array()?.iter().filter_map(|e| Some((e[0].as_u64()? as usize, hk_from(e[1].as_str()?)?))).collect(),
            inputs,
            knobs,
            decisions,
            start_height: v["start_height"].as_u64()? as u32,
            start_time: v["start_time"].as_u64()? as u32,
        })
    }
}

/// Stateless decision source.
pub struct Decider {
    run_seed: u64,
    replay: Option<BTreeMap<String, u64>>,
    pub taken: BTreeMap<String, u64>,
    enabled: Vec<Fault>,
    pub quiesced: bool,
    pub fired: BTreeMap<Fault, u64>,
}

impl Decider {
    pub fn new(run_seed: u64, sc: &Scenario) -> Self {
        Decider { run_seed, replay: sc.decisions.clone(), taken: BTreeMap::new(), enabled: sc.knobs.enabled_faults.clone(), quiesced: false, fired: BTreeMap::new() }
    }
    pub fn is_replay(&self) -> bool { self.replay.is_some() }

    /// Does fault `f` fire at site `key` (probability num/den)? Returns a value in 1..=n when it fires
    /// (n >= 1 selects a variant / magnitude), 0 when it does not.
    pub fn fault(&mut self, f: Fault, key: &str, num: u64, den: u64, n: u64) -> u64 {
        let full = format!("{}:{}", f.name(), key);
        let v = match &self.replay {
            Some(m) => m.get(&full).copied().unwrap_or(0),
            None => {
                if self.quiesced || !self.enabled.contains(&f) {
                    0
                } else {
                    let h = mix(&[self.run_seed, fnv(full.as_bytes())]);
                    if h % den < num {
                        1 + (h >> 24) % n.max(1)
                    } else {
                        0
                    }
                }
            }
        };
        if v != 0 {
            self.taken.insert(full, v);
            *self.fired.entry(f).or_insert(0) += 1;
        }
        v
    }

    /// Non-fault choice in [0, n); default (and replay default) is 0.
    pub fn choose(&mut self, key: &str, n: u64) -> u64 {
        let full = format!("choice:{}", key);
        let v = match &self.replay {
            Some(m) => m.get(&full).copied().unwrap_or(0) % n.max(1),
            None => mix(&[self.run_seed, fnv(full.as_bytes())]) % n.max(1),
        };
        if v != 0 {
            self.taken.insert(full, v);
        }
        v
    }
}
