//! R3: spec-level reference satisfier. A transcription of the Miniscript specification's
//! satisfaction table as an executable function from (fragment, world) to the *sets* of
//! satisfactions and dissatisfactions, including the non-canonical ones the spec lists.
//! It walks the public `Terminal` enum and trusts the parser only for the shape of the tree.
//! R4 (BIP341 reference) lives here too.

use std::collections::BTreeMap;

use bitcoin::hashes::Hash;
use bitcoin::taproot::TapLeafHash;
use miniscript::{DefiniteDescriptorKey, Miniscript, ScriptContext, Terminal};

use crate::keys::{HashKind, KeyUniverse};
use crate::vm;
use crate::wallet::{tx_satisfies_after, tx_satisfies_older};

pub const CAP: usize = 48;

#[derive(Clone, Debug, PartialEq, Eq, PartialOrd, Ord, Hash)]
pub enum Item {
    Sig(usize),
    Key(usize),
    Pre(usize),
    Zero32,
    Junk32,
    Empty,
    One,
}

#[derive(Clone, Debug, PartialEq, Eq, PartialOrd, Ord)]
pub struct Wit {
    pub stack: Vec<Item>,
    pub has_sig: bool,
    pub canonical: bool,
}

impl Wit {
    fn empty() -> Wit { Wit { stack: vec![], has_sig: false, canonical: true } }
    fn one(i: Item) -> Wit {
        let has_sig = matches!(i, Item::Sig(_));
        Wit { stack: vec![i], has_sig, canonical: true }
    }
    /// `self` deeper in the stack than `top`
    fn then(&self, top: &Wit) -> Wit {
        let mut s = self.stack.clone();
        s.extend(top.stack.iter().cloned());
        Wit { stack: s, has_sig: self.has_sig || top.has_sig, canonical: self.canonical && top.canonical }
    }
    fn noncanon(mut self) -> Wit {
        self.canonical = false;
        self
    }
    pub fn size(&self) -> usize { self.stack.len() }
}

#[derive(Clone, Debug, Default)]
pub struct SD {
    pub sat: Vec<Wit>,
    pub dis: Vec<Wit>,
    pub truncated: bool,
}

/// What the party building witnesses holds.
#[derive(Clone, Debug)]
pub struct RefWorld {
    /// keys for which a signature is available (ecdsa contexts, or tap key spend)
    pub sigs: std::collections::BTreeSet<usize>,
    /// (key, leaf) pairs for which a tapscript signature is available
    pub leaf_sigs: std::collections::BTreeSet<(usize, TapLeafHash)>,
    pub preimages: std::collections::BTreeSet<usize>,
    pub lock_time: u32,
    pub sequence: u32,
    pub version: i32,
    /// whether the builder may use arbitrary junk (third party) — enables non-canonical forms
    pub adversarial: bool,
}

pub struct RefCtx<'a> {
    pub uni: &'a KeyUniverse,
    pub by_expr: &'a BTreeMap<String, usize>,
    pub world: &'a RefWorld,
    pub leaf: Option<TapLeafHash>,
    pub unsupported: bool,
}

fn cap(mut v: Vec<Wit>, truncated: &mut bool) -> Vec<Wit> {
    v.sort();
    v.dedup();
    if v.len() > CAP {
        *truncated = true;
        // keep the smallest ones and canonical ones first
        v.sort_by_key(|w| (!w.canonical, w.size()));
        v.truncate(CAP);
    }
    v
}

fn cross(deep: &[Wit], top: &[Wit]) -> Vec<Wit> {
    let mut out = Vec::with_capacity(deep.len() * top.len());
    for d in deep {
        for t in top {
            out.push(d.then(t));
            if out.len() > CAP * 8 {
                return out;
            }
        }
    }
    out
}

impl<'a> RefCtx<'a> {
    fn key_id(&self, k: &DefiniteDescriptorKey) -> Option<usize> { self.by_expr.get(&k.to_string()).copied() }

    fn sig(&self, k: usize) -> bool {
        match self.leaf {
            Some(l) => self.world.leaf_sigs.contains(&(k, l)),
            None => self.world.sigs.contains(&k),
        }
    }

    fn hash_id(&self, kind: HashKind, digest: &[u8]) -> Option<usize> { self.uni.hashes.iter().find(|h| h.kind == kind && h.digest == digest).map(|h| h.id) }

    fn hash_sd(&mut self, kind: HashKind, digest: &[u8]) -> SD {
        let id = match self.hash_id(kind, digest) {
            Some(i) => i,
            None => {
                self.unsupported = true;
                return SD::default();
            }
        };
        let mut sd = SD::default();
        if self.world.preimages.contains(&id) {
            sd.sat.push(Wit::one(Item::Pre(id)));
        }
        if self.uni.hashes[id].psbt_value == [0u8; 32] {
            // 32 zero bytes are the secret: they satisfy, they do not dissatisfy
            sd.dis.push(Wit::one(Item::Junk32));
        } else {
            sd.dis.push(Wit::one(Item::Zero32));
            if self.world.adversarial {
                sd.dis.push(Wit::one(Item::Junk32).noncanon());
            }
        }
        sd
    }

    pub fn eval<Ctx: ScriptContext>(&mut self, ms: &Miniscript<DefiniteDescriptorKey, Ctx>) -> SD {
        let mut tr = false;
        let adv = self.world.adversarial;
        let mut sd = match &ms.node {
            Terminal::False => SD { sat: vec![], dis: vec![Wit::empty()], truncated: false },
            Terminal::True => SD { sat: vec![Wit::empty()], dis: vec![], truncated: false },
            Terminal::PkK(k) => match self.key_id(k) {
                Some(id) => SD { sat: if self.sig(id) { vec![Wit::one(Item::Sig(id))] } else { vec![] }, dis: vec![Wit::one(Item::Empty)], truncated: false },
                None => {
                    self.unsupported = true;
                    SD::default()
                }
            },
            Terminal::PkH(k) => match self.key_id(k) {
                Some(id) => SD {
                    sat: if self.sig(id) { vec![Wit::one(Item::Sig(id)).then(&Wit::one(Item::Key(id)))] } else { vec![] },
                    dis: vec![Wit::one(Item::Empty).then(&Wit::one(Item::Key(id)))],
                    truncated: false,
                },
                None => {
                    self.unsupported = true;
                    SD::default()
                }
            },
            Terminal::RawPkH(_) => {
                self.unsupported = true;
                SD::default()
            }
            Terminal::After(n) => SD {
                sat: if tx_satisfies_after(self.world.lock_time, self.world.sequence, n.to_consensus_u32()) { vec![Wit::empty()] } else { vec![] },
                dis: vec![],
                truncated: false,
            },
            Terminal::Older(n) => SD {
                sat: if tx_satisfies_older(self.world.version, self.world.sequence, n.to_consensus_u32()) { vec![Wit::empty()] } else { vec![] },
                dis: vec![],
                truncated: false,
            },
            Terminal::Sha256(h) => self.hash_sd(HashKind::Sha256, h.as_byte_array()),
            Terminal::Hash256(h) => self.hash_sd(HashKind::Hash256, h.as_byte_array()),
            Terminal::Ripemd160(h) => self.hash_sd(HashKind::Ripemd160, h.as_byte_array()),
            Terminal::Hash160(h) => self.hash_sd(HashKind::Hash160, h.as_byte_array()),
            Terminal::Alt(x) | Terminal::Swap(x) | Terminal::Check(x) | Terminal::ZeroNotEqual(x) => self.eval(x),
            Terminal::DupIf(x) => {
                let s = self.eval(x);
                SD { sat: s.sat.iter().map(|w| w.then(&Wit::one(Item::One))).collect(), dis: vec![Wit::one(Item::Empty)], truncated: s.truncated }
            }
            Terminal::Verify(x) => {
                let s = self.eval(x);
                SD { sat: s.sat, dis: vec![], truncated: s.truncated }
            }
            Terminal::NonZero(x) => {
                let s = self.eval(x);
                // SIZE 0NOTEQUAL IF [X] ENDIF: dissatisfied by an empty top element. A dissatisfaction of X
                // whose top element is non-empty would also work but X is `n` so it has none we model.
                SD { sat: s.sat, dis: vec![Wit::one(Item::Empty)], truncated: s.truncated }
            }
            Terminal::AndV(x, y) => {
                let a = self.eval(x);
                let b = self.eval(y);
                tr = a.truncated || b.truncated;
                let mut dis = vec![];
                if adv || true {
                    // dsat(Y) sat(X) — listed as non-canonical by the spec but it is what the satisfier
                    // may legitimately use (and_v has no canonical dissatisfaction)
                    dis = cross(&b.dis, &a.sat).into_iter().map(|w| w.noncanon()).collect();
                }
                SD { sat: cross(&b.sat, &a.sat), dis, truncated: tr }
            }
            Terminal::AndB(x, y) => {
                let a = self.eval(x);
                let b = self.eval(y);
                tr = a.truncated || b.truncated;
                let mut dis = cross(&b.dis, &a.dis);
                dis.extend(cross(&b.sat, &a.dis).into_iter().map(|w| w.noncanon()));
                dis.extend(cross(&b.dis, &a.sat).into_iter().map(|w| w.noncanon()));
                SD { sat: cross(&b.sat, &a.sat), dis, truncated: tr }
            }
            Terminal::AndOr(x, y, z) => {
                let a = self.eval(x);
                let b = self.eval(y);
                let c = self.eval(z);
                tr = a.truncated || b.truncated || c.truncated;
                let mut sat = cross(&b.sat, &a.sat);
                sat.extend(cross(&c.sat, &a.dis));
                let mut dis = cross(&c.dis, &a.dis);
                dis.extend(cross(&b.dis, &a.sat).into_iter().map(|w| w.noncanon()));
                SD { sat, dis, truncated: tr }
            }
            Terminal::OrB(x, z) => {
                let a = self.eval(x);
                let c = self.eval(z);
                tr = a.truncated || c.truncated;
                let mut sat = cross(&c.dis, &a.sat);
                sat.extend(cross(&c.sat, &a.dis));
                sat.extend(cross(&c.sat, &a.sat).into_iter().map(|w| w.noncanon()));
                SD { sat, dis: cross(&c.dis, &a.dis), truncated: tr }
            }
            Terminal::OrC(x, z) => {
                let a = self.eval(x);
                let c = self.eval(z);
                tr = a.truncated || c.truncated;
                let mut sat = a.sat.clone();
                sat.extend(cross(&c.sat, &a.dis));
                SD { sat, dis: vec![], truncated: tr }
            }
            Terminal::OrD(x, z) => {
                let a = self.eval(x);
                let c = self.eval(z);
                tr = a.truncated || c.truncated;
                let mut sat = a.sat.clone();
                sat.extend(cross(&c.sat, &a.dis));
                SD { sat, dis: cross(&c.dis, &a.dis), truncated: tr }
            }
            Terminal::OrI(x, z) => {
                let a = self.eval(x);
                let c = self.eval(z);
                tr = a.truncated || c.truncated;
                let one = Wit::one(Item::One);
                let zero = Wit::one(Item::Empty);
                let mut sat: Vec<Wit> = a.sat.iter().map(|w| w.then(&one)).collect();
                sat.extend(c.sat.iter().map(|w| w.then(&zero)));
                let mut dis: Vec<Wit> = a.dis.iter().map(|w| w.then(&one)).collect();
                dis.extend(c.dis.iter().map(|w| w.then(&zero)));
                SD { sat, dis, truncated: tr }
            }
            Terminal::Thresh(th) => {
                // DP over children: partial[j] = witnesses with j satisfied children so far
                let k = th.k();
                let n = th.n();
                let mut partial: Vec<Vec<Wit>> = vec![vec![]; n + 1];
                partial[0].push(Wit::empty());
                for (idx, child) in th.iter().enumerate() {
                    let c = self.eval(child);
                    tr |= c.truncated;
                    let mut next: Vec<Vec<Wit>> = vec![vec![]; n + 1];
                    for j in 0..=idx {
                        if partial[j].is_empty() {
                            continue;
                        }
                        // child idx is deeper... no: child 0 executes first so its input is on top;
                        // later children are deeper: new = child_wit then existing
                        for w in cross(&c.dis, &partial[j]) {
                            next[j].push(w);
                        }
                        for w in cross(&c.sat, &partial[j]) {
                            next[j + 1].push(w);
                        }
                    }
                    for j in 0..=n {
                        next[j] = cap(std::mem::take(&mut next[j]), &mut tr);
                    }
                    partial = next;
                }
                let sat = partial[k].clone();
                let mut dis = partial[0].clone();
                for (j, p) in partial.iter().enumerate() {
                    if j != k && j != 0 {
                        dis.extend(p.iter().cloned().map(|w| w.noncanon()));
                    }
                }
                SD { sat, dis, truncated: tr }
            }
            Terminal::Multi(th) | Terminal::SortedMulti(th) => {
                let k = th.k();
                let mut ids = vec![];
                for key in th.iter() {
                    match self.key_id(key) {
                        Some(i) => ids.push(i),
                        None => self.unsupported = true,
                    }
                }
                if let Terminal::SortedMulti(_) = &ms.node {
                    // BIP67: sorted by the serialized public key
                    ids.sort_by_key(|i| self.uni.keys[*i].public.to_bytes());
                }
                let avail: Vec<usize> = ids.iter().copied().filter(|i| self.sig(*i)).collect();
                let mut sat = vec![];
                // all k-subsets of available sigs, in key order
                let m = avail.len();
                if m >= k {
                    let mut comb: Vec<usize> = (0..k).collect();
                    loop {
                        let mut w = Wit::one(Item::Empty);
                        for c in &comb {
                            w = w.then(&Wit::one(Item::Sig(avail[*c])));
                        }
                        sat.push(w);
                        if sat.len() > CAP {
                            tr = true;
                            break;
                        }
                        // next combination
                        let mut i = k;
                        while i > 0 && comb[i - 1] == m - k + (i - 1) {
                            i -= 1;
                        }
                        if i == 0 {
                            break;
                        }
                        comb[i - 1] += 1;
                        for j in i..k {
                            comb[j] = comb[j - 1] + 1;
                        }
                    }
                }
                let mut d = Wit::empty();
                for _ in 0..=k {
                    d = d.then(&Wit::one(Item::Empty));
                }
                SD { sat, dis: vec![d], truncated: tr }
            }
            Terminal::MultiA(th) | Terminal::SortedMultiA(th) => {
                let k = th.k();
                let mut ids = vec![];
                for key in th.iter() {
                    match self.key_id(key) {
                        Some(i) => ids.push(i),
                        None => self.unsupported = true,
                    }
                }
                if let Terminal::SortedMultiA(_) = &ms.node {
                    ids.sort_by_key(|i| self.uni.keys[*i].xonly.serialize());
                }
                let n = ids.len();
                // witness bottom->top = item for last key ... item for first key
                let avail: Vec<bool> = ids.iter().map(|i| self.sig(*i)).collect();
                let idxs: Vec<usize> = (0..n).filter(|i| avail[*i]).collect();
                let m = idxs.len();
                let mut sat = vec![];
                if m >= k {
                    let mut comb: Vec<usize> = (0..k).collect();
                    loop {
                        let chosen: Vec<usize> = comb.iter().map(|c| idxs[*c]).collect();
                        let mut w = Wit::empty();
                        for pos in (0..n).rev() {
                            if chosen.contains(&pos) {
                                w = w.then(&Wit::one(Item::Sig(ids[pos])));
                            } else {
                                w = w.then(&Wit::one(Item::Empty));
                            }
                        }
                        sat.push(w);
                        if sat.len() > CAP {
                            tr = true;
                            break;
                        }
                        let mut i = k;
                        while i > 0 && comb[i - 1] == m - k + (i - 1) {
                            i -= 1;
                        }
                        if i == 0 {
                            break;
                        }
                        comb[i - 1] += 1;
                        for j in i..k {
                            comb[j] = comb[j - 1] + 1;
                        }
                    }
                }
                let mut d = Wit::empty();
                for _ in 0..n {
                    d = d.then(&Wit::one(Item::Empty));
                }
                let mut dis = vec![d];
                if adv {
                    // non-canonical: any number of valid signatures other than k leaves 0 (NUMEQUAL fails)
                    for mask in 1u32..(1u32 << m.min(6)) {
                        let cnt = mask.count_ones() as usize;
                        if cnt == k {
                            continue;
                        }
                        let chosen: Vec<usize> = (0..m.min(6)).filter(|b| mask & (1 << b) != 0).map(|b| idxs[b]).collect();
                        let mut w = Wit::empty();
                        for pos in (0..n).rev() {
                            if chosen.contains(&pos) {
                                w = w.then(&Wit::one(Item::Sig(ids[pos])));
                            } else {
                                w = w.then(&Wit::one(Item::Empty));
                            }
                        }
                        dis.push(w.noncanon());
                    }
                }
                SD { sat, dis, truncated: tr }
            }
        };
        let mut t = sd.truncated || tr;
        sd.sat = cap(std::mem::take(&mut sd.sat), &mut t);
        sd.dis = cap(std::mem::take(&mut sd.dis), &mut t);
        sd.truncated = t;
        sd
    }
}

// ---------------------------------------------------------------------------------------------
// R4: BIP341 reference
// ---------------------------------------------------------------------------------------------

#[derive(Clone, Debug)]
pub struct RefLeaf {
    pub script: Vec<u8>,
    pub depth: u8,
    pub leaf_hash: [u8; 32],
    /// merkle path, leaf -> root
    pub path: Vec<[u8; 32]>,
}

#[derive(Clone, Debug)]
pub struct RefTaproot {
    pub internal: [u8; 32],
    pub merkle_root: Option<[u8; 32]>,
    pub output_key: [u8; 32],
    pub parity_odd: bool,
    pub leaves: Vec<RefLeaf>,
}

impl RefTaproot {
    pub fn control_block(&self, leaf: usize) -> Vec<u8> {
        let mut cb = vec![0xc0 | self.parity_odd as u8];
        cb.extend_from_slice(&self.internal);
        for h in &self.leaves[leaf].path {
            cb.extend_from_slice(h);
        }
        cb
    }
    pub fn spk(&self) -> Vec<u8> {
        let mut v = vec![0x51, 0x20];
        v.extend_from_slice(&self.output_key);
        v
    }
}

/// Build the taproot commitment from a DFS-ordered (depth, script) list by plain recursion.
pub fn ref_taproot(internal: [u8; 32], leaves: &[(u8, Vec<u8>)]) -> Option<RefTaproot> {
    fn build(leaves: &[(u8, Vec<u8>)], pos: &mut usize, depth: u8, out: &mut Vec<RefLeaf>) -> Option<([u8; 32], Vec<usize>)> {
        if *pos >= leaves.len() {
            return None;
        }
        let (d, script) = &leaves[*pos];
        if *d == depth {
            let lh = vm::tapleaf_hash(0xc0, script);
            out.push(RefLeaf { script: script.clone(), depth, leaf_hash: lh, path: vec![] });
            *pos += 1;
            return Some((lh, vec![out.len() - 1]));
        }
        if *d < depth {
            return None;
        }
        let (lh, lidx) = build(leaves, pos, depth + 1, out)?;
        let (rh, ridx) = build(leaves, pos, depth + 1, out)?;
        for i in &lidx {
            out[*i].path.push(rh);
        }
        for i in &ridx {
            out[*i].path.push(lh);
        }
        let mut all = lidx;
        all.extend(ridx);
        Some((vm::tapbranch_hash(&lh, &rh), all))
    }
    let secp = bitcoin::secp256k1::Secp256k1::verification_only();
    let mut out = vec![];
    let root = if leaves.is_empty() {
        None
    } else {
        let mut pos = 0;
        let (r, _) = build(leaves, &mut pos, 0, &mut out)?;
        if pos != leaves.len() {
            return None;
        }
        Some(r)
    };
    let t = vm::taptweak_hash(&internal, root.as_ref());
    let p = bitcoin::secp256k1::XOnlyPublicKey::from_slice(&internal).ok()?;
    let (q, parity) = p.add_tweak(&secp, &bitcoin::secp256k1::Scalar::from_be_bytes(t).ok()?).ok()?;
    Some(RefTaproot { internal, merkle_root: root, output_key: q.serialize(), parity_odd: parity == bitcoin::secp256k1::Parity::Odd, leaves: out })
}

#[cfg(test)]
mod tests {
    use super::*;
    #[test]
    fn taproot_shapes() {
        let ik = [0x50, 0x92, 0x9b, 0x74, 0xc1, 0xa0, 0x49, 0x54, 0xb7, 0x8b, 0x4b, 0x60, 0x35, 0xe9, 0x7a, 0x5e, 0x07, 0x8a, 0x5a, 0x0f, 0x28, 0xec, 0x96, 0xd5, 0x47, 0xbf, 0xee, 0x9a, 0xce, 0x80, 0x3a, 0xc0];
        let t = ref_taproot(ik, &[(1, vec![0x51]), (2, vec![0x52]), (2, vec![0x53])]).unwrap();
        assert_eq!(t.leaves.len(), 3);
        assert_eq!(t.leaves[0].path.len(), 1);
        assert_eq!(t.leaves[1].path.len(), 2);
        let secp = bitcoin::secp256k1::Secp256k1::verification_only();
        for i in 0..3 {
            let cb = t.control_block(i);
            assert!(vm::check_taproot_commitment(&secp, &cb, &t.output_key, &t.leaves[i].leaf_hash));
        }
        assert!(ref_taproot(ik, &[(1, vec![0x51]), (2, vec![0x52])]).is_none());
    }
}
