//! Key universe of a run: signers with BIP32 roots, descriptor key expressions in every form,
//! hash preimages. Private derivation here uses rust-bitcoin's bip32 on the *private* side and is
//! independent of the library's public derivation.

use std::collections::BTreeMap;

use bitcoin::bip32::{ChildNumber, DerivationPath, Fingerprint, Xpriv, Xpub};
use bitcoin::hashes::{hash160, ripemd160, sha256, sha256d, Hash};
use bitcoin::secp256k1::{self, All, Secp256k1, SecretKey};
use bitcoin::{NetworkKind, PublicKey};

use crate::rng::Rng;

#[derive(Clone, Copy, Debug, PartialEq, Eq, PartialOrd, Ord)]
pub enum KeyForm {
    /// `[fp/48h/1h/Nh]xpub/0/*`
    XpubOriginWild,
    /// `[fp/48h/Nh]xpub/1/7`
    XpubOriginFixed,
    /// `xpub/3` (account-level xpub without origin)
    XpubBare,
    /// `xpub/*` without origin
    XpubBareWild,
    /// compressed hex key
    Single,
    /// `[fp/44h/Nh]02...`
    SingleOrigin,
    /// uncompressed hex key
    Uncompressed,
    /// the key created just before this one (a single key), written with the other parity prefix:
    /// a different key expression and a different EC point with the same x-only key
    TwinOtherParity,
    /// the key created just before this one (a single key), written uncompressed
    TwinUncompressed,
    /// 32-byte x-only hex key
    XOnly,
}

#[derive(Clone, Debug)]
pub struct KeyInfo {
    pub id: usize,
    pub owner: usize,
    pub form: KeyForm,
    /// how the key is written in the (wildcard) descriptor
    pub expr: String,
    /// secret key of the *definite* key (after wildcard replaced by the run's index)
    pub secret: SecretKey,
    /// the public key as it appears in scripts
    pub public: PublicKey,
    pub xonly: secp256k1::XOnlyPublicKey,
    /// (fingerprint, full path) as the library should report it in PSBT key origins
    pub origin: (Fingerprint, DerivationPath),
}

#[derive(Clone, Copy, Debug, PartialEq, Eq, PartialOrd, Ord)]
pub enum HashKind {
    Sha256,
    Hash256,
    Ripemd160,
    Hash160,
}

#[derive(Clone, Debug)]
pub struct HashInfo {
    pub id: usize,
    pub owner: usize,
    pub kind: HashKind,
    pub preimage: [u8; 32],
    /// The bytes whose hash is `digest`, as the owner stores them in a PSBT preimage map. For one
    /// hash in ten these are NOT 32 bytes long (a counterparty chose the secret): the script's
    /// `SIZE 32 EQUALVERIFY` makes such a hash unsatisfiable, nobody's world contains it, and the
    /// library has to answer "no preimage" for it.
    pub psbt_value: Vec<u8>,
    pub usable: bool,
    pub digest: Vec<u8>,
    /// how it is written in the descriptor: `sha256(<hex>)`
    pub hex: String,
}

impl HashInfo {
    pub fn frag(&self) -> String {
        let name = match self.kind {
            HashKind::Sha256 => "sha256",
            HashKind::Hash256 => "hash256",
            HashKind::Ripemd160 => "ripemd160",
            HashKind::Hash160 => "hash160",
        };
        format!("{}({})", name, self.hex)
    }
}

#[derive(Clone)]
pub struct SignerRoot {
    pub master: Xpriv,
    pub fingerprint: Fingerprint,
}

pub struct KeyUniverse {
    pub secp: Secp256k1<All>,
    pub n_signers: usize,
    pub roots: Vec<SignerRoot>,
    pub keys: Vec<KeyInfo>,
    pub hashes: Vec<HashInfo>,
    /// wildcard index used by this run
    pub index: u32,
    seed: u64,
}

fn h(i: u32) -> ChildNumber { ChildNumber::from_hardened_idx(i).unwrap() }
fn n(i: u32) -> ChildNumber { ChildNumber::from_normal_idx(i).unwrap() }

impl KeyUniverse {
    pub fn new(seed: u64, n_signers: usize, index: u32) -> Self {
        let secp = Secp256k1::new();
        let mut roots = vec![];
        for s in 0..n_signers {
            let mut r = Rng::new(crate::rng::mix(&[seed, 0x5157, s as u64]));
            let master = Xpriv::new_master(NetworkKind::Test, &r.bytes32()).expect("valid seed");
            let fingerprint = master.fingerprint(&secp);
            roots.push(SignerRoot { master, fingerprint });
        }
        KeyUniverse { secp, n_signers, roots, keys: vec![], hashes: vec![], index, seed }
    }

    /// Allocate a fresh key of the given form owned by `owner`.
    pub fn new_key(&mut self, owner: usize, form: KeyForm) -> usize {
        let id = self.keys.len();
        let root = &self.roots[owner];
        let fp = root.fingerprint;
        let k = id as u32;
        let secp = &self.secp;
        let (expr, secret, origin): (String, SecretKey, (Fingerprint, DerivationPath)) = match form {
            KeyForm::XpubOriginWild => {
                let acct: DerivationPath = vec![h(48), h(1), h(k)].into();
                let axprv = root.master.derive_priv(secp, &acct).unwrap();
                let axpub = Xpub::from_priv(secp, &axprv);
                let tail: DerivationPath = vec![n(0), n(self.index)].into();
                let sk = axprv.derive_priv(secp, &tail).unwrap().private_key;
                let full = acct.extend(&tail);
                (format!("[{}/48'/1'/{}']{}/0/*", fp, k, axpub), sk, (fp, full))
            }
            KeyForm::XpubOriginFixed => {
                let acct: DerivationPath = vec![h(48), h(k)].into();
                let axprv = root.master.derive_priv(secp, &acct).unwrap();
                let axpub = Xpub::from_priv(secp, &axprv);
                let tail: DerivationPath = vec![n(1), n(7)].into();
                let sk = axprv.derive_priv(secp, &tail).unwrap().private_key;
                let full = acct.extend(&tail);
                (format!("[{}/48'/{}']{}/1/7", fp, k, axpub), sk, (fp, full))
            }
            KeyForm::XpubBare | KeyForm::XpubBareWild => {
                let acct: DerivationPath = vec![h(86), h(k)].into();
                let axprv = root.master.derive_priv(secp, &acct).unwrap();
                let axpub = Xpub::from_priv(secp, &axprv);
                let afp = axpub.fingerprint();
                let (tail, s): (DerivationPath, String) = if form == KeyForm::XpubBare {
                    (vec![n(3)].into(), format!("{}/3", axpub))
                } else {
                    (vec![n(self.index)].into(), format!("{}/*", axpub))
                };
                let sk = axprv.derive_priv(secp, &tail).unwrap().private_key;
                (s, sk, (afp, tail))
            }
            KeyForm::Single | KeyForm::Uncompressed | KeyForm::XOnly => {
                let p: DerivationPath = vec![h(44), h(k)].into();
                let sk = root.master.derive_priv(secp, &p).unwrap().private_key;
                let pk = secp256k1::PublicKey::from_secret_key(secp, &sk);
                let (s, fpk): (String, Fingerprint) = match form {
                    KeyForm::Single => {
                        let b = PublicKey::new(pk);
                        (format!("{}", b), fingerprint_of(&b.to_bytes()))
                    }
                    KeyForm::Uncompressed => {
                        let b = PublicKey::new_uncompressed(pk);
                        (format!("{}", b), fingerprint_of(&b.to_bytes()))
                    }
                    _ => {
                        let (x, _) = pk.x_only_public_key();
                        (format!("{}", x), fingerprint_of(&x.serialize()))
                    }
                };
                (s, sk, (fpk, DerivationPath::from(vec![])))
            }
            KeyForm::TwinOtherParity | KeyForm::TwinUncompressed => {
                // same derivation as the previous key (which the generator made a single key)
                let p: DerivationPath = vec![h(44), h(k.saturating_sub(1))].into();
                let sk = root.master.derive_priv(secp, &p).unwrap().private_key;
                if form == KeyForm::TwinOtherParity {
                    let sk = sk.negate();
                    let b = PublicKey::new(secp256k1::PublicKey::from_secret_key(secp, &sk));
                    (format!("{}", b), sk, (fingerprint_of(&b.to_bytes()), DerivationPath::from(vec![])))
                } else {
                    let b = PublicKey::new_uncompressed(secp256k1::PublicKey::from_secret_key(secp, &sk));
                    (format!("{}", b), sk, (fingerprint_of(&b.to_bytes()), DerivationPath::from(vec![])))
                }
            }
            KeyForm::SingleOrigin => {
                let p: DerivationPath = vec![h(44), h(k)].into();
                let sk = root.master.derive_priv(secp, &p).unwrap().private_key;
                let pk = PublicKey::new(secp256k1::PublicKey::from_secret_key(secp, &sk));
                (format!("[{}/44'/{}']{}", fp, k, pk), sk, (fp, p))
            }
        };
        let spk = secp256k1::PublicKey::from_secret_key(secp, &secret);
        let public = if form == KeyForm::Uncompressed || form == KeyForm::TwinUncompressed { PublicKey::new_uncompressed(spk) } else { PublicKey::new(spk) };
        let (xonly, _) = spk.x_only_public_key();
        self.keys.push(KeyInfo { id, owner, form, expr, secret, public, xonly, origin });
        id
    }

    pub fn new_hash(&mut self, owner: usize, kind: HashKind) -> usize {
        let id = self.hashes.len();
        let mut r = Rng::new(crate::rng::mix(&[self.seed, 0x4a5, id as u64]));
        let mut preimage = r.bytes32();
        let odd = crate::rng::mix(&[self.seed, 0x6f6464, id as u64]) % 10 == 0;
        // One secret in sixteen is 32 zero bytes (a counterparty chose it): the vector most
        // implementations use as "any 32 bytes that are not the preimage" IS the preimage here.
        if !odd && crate::rng::mix(&[self.seed, 0x7a65726f, id as u64]) % 16 == 0 {
            preimage = [0u8; 32];
        }
        let psbt_value: Vec<u8> = if odd {
            let len = *r.pick(&[0usize, 1, 20, 31, 33, 64]);
            (0..len).map(|_| r.below(256) as u8).collect()
        } else {
            preimage.to_vec()
        };
        let digest: Vec<u8> = match kind {
            HashKind::Sha256 => sha256::Hash::hash(&psbt_value).to_byte_array().to_vec(),
            HashKind::Hash256 => sha256d::Hash::hash(&psbt_value).to_byte_array().to_vec(),
            HashKind::Ripemd160 => ripemd160::Hash::hash(&psbt_value).to_byte_array().to_vec(),
            HashKind::Hash160 => hash160::Hash::hash(&psbt_value).to_byte_array().to_vec(),
        };
        // hash256 is displayed forwards by the library (miniscript::hash256::Hash)
        let hex = hex_of(&digest);
        self.hashes.push(HashInfo { id, owner, kind, preimage, psbt_value, usable: !odd, digest, hex });
        id
    }

    /// An x-only key nobody can sign for (used as unspendable internal key).
    pub fn unspendable_xonly(&self) -> String {
        // BIP341 NUMS point H
        "50929b74c1a04954b78b4b6035e97a5e078a5a0f28ec96d547bfee9ace803ac0".to_string()
    }

    /// Every key id that a serialized key (full or x-only) stands for: two ids when one key is in
    /// the universe under two names.
    pub fn keys_by_pubkey(&self) -> BTreeMap<Vec<u8>, Vec<usize>> {
        let mut m: BTreeMap<Vec<u8>, Vec<usize>> = BTreeMap::new();
        for k in &self.keys {
            m.entry(k.public.to_bytes()).or_default().push(k.id);
            m.entry(k.xonly.serialize().to_vec()).or_default().push(k.id);
        }
        m
    }

    /// Does the key set contain one key under two names (same x-only key / same EC point)?
    pub fn has_twins(&self, ids: &[usize], tap: bool) -> bool {
        ids.iter().enumerate().any(|(a, ka)| ids[..a].iter().any(|kb| ka != kb && if tap { self.keys[*ka].xonly == self.keys[*kb].xonly } else { self.keys[*ka].public.inner == self.keys[*kb].public.inner }))
    }

    pub fn key_by_pubkey(&self) -> BTreeMap<Vec<u8>, usize> {
        let mut m = BTreeMap::new();
        for k in &self.keys {
            m.insert(k.public.to_bytes(), k.id);
            m.insert(k.xonly.serialize().to_vec(), k.id);
        }
        m
    }
}

pub fn fingerprint_of(ser_pubkey: &[u8]) -> Fingerprint {
    let hh = hash160::Hash::hash(ser_pubkey).to_byte_array();
    Fingerprint::from([hh[0], hh[1], hh[2], hh[3]])
}

pub fn hex_of(b: &[u8]) -> String {
    let mut s = String::with_capacity(b.len() * 2);
    for x in b {
        s.push_str(&format!("{:02x}", x));
    }
    s
}

pub fn unhex(s: &str) -> Option<Vec<u8>> {
    if s.len() % 2 != 0 {
        return None;
    }
    let mut out = Vec::with_capacity(s.len() / 2);
    let b = s.as_bytes();
    for i in (0..b.len()).step_by(2) {
        let hi = (b[i] as char).to_digit(16)?;
        let lo = (b[i + 1] as char).to_digit(16)?;
        out.push((hi * 16 + lo) as u8);
    }
    Some(out)
}
