//! Workload: seeded generation of descriptors (plain generation, not simulation).
//! Four sources: typed random generator, policy compiler, curated shapes, trivial key-only types.
//! Everything produced here is filtered by the library's own parser, so "well-typed" and "sane"
//! mean what the library says they mean.

use std::str::FromStr;

use miniscript::policy::Concrete;
use miniscript::DescriptorPublicKey;

use crate::keys::{HashKind, KeyForm, KeyUniverse};
use crate::rng::Rng;

#[derive(Clone, Copy, Debug, PartialEq, Eq, PartialOrd, Ord, Hash)]
pub enum OutKind {
    Bare,
    Pkh,
    Wpkh,
    ShMs,
    ShWpkh,
    ShWsh,
    Wsh,
    TrKey,
    TrScript,
}

pub const ALL_KINDS: [OutKind; 9] = [
    OutKind::Bare,
    OutKind::Pkh,
    OutKind::Wpkh,
    OutKind::ShMs,
    OutKind::ShWpkh,
    OutKind::ShWsh,
    OutKind::Wsh,
    OutKind::TrKey,
    OutKind::TrScript,
];

#[derive(Clone, Copy, Debug, PartialEq, Eq)]
pub enum MsCtx {
    Bare,
    Legacy,
    Segwit,
    Tap,
}

#[derive(Clone, Copy, Debug)]
pub struct LockCfg {
    pub height_base: u32,
    pub time_base: u32,
}

#[derive(Clone, Debug)]
pub struct DescSpec {
    pub kind: OutKind,
    /// descriptor text (may contain wildcards), without checksum
    pub text: String,
    pub source: &'static str,
}

pub struct Gen<'a> {
    pub rng: &'a mut Rng,
    pub uni: &'a mut KeyUniverse,
    pub locks: LockCfg,
    pub max_keys: usize,
    pub pending_twin: Option<usize>,
    pub max_hashes: usize,
    ctx: MsCtx,
    nodes_left: i32,
    keys_used: Vec<usize>,
    hashes_used: Vec<usize>,
    locks_used: Vec<String>,
}

fn wrap(w: &str, inner: &str) -> String {
    // merge wrapper prefixes: a + "sv:X" -> "asv:X"
    if let Some(colon) = inner.find(':') {
        let pre = &inner[..colon];
        if !pre.is_empty() && pre.bytes().all(|c| c.is_ascii_lowercase()) && !pre.contains('(') {
            // make sure prefix is a wrapper string and not a fragment name like "pk"
            if inner[..colon].len() < 12 && !inner[..colon].contains('_') && inner.as_bytes()[colon - 1] != b')' {
                // a fragment name is always followed by '(' not ':' so this is a wrapper prefix
                return format!("{}{}", w, inner);
            }
        }
    }
    format!("{}:{}", w, inner)
}

impl<'a> Gen<'a> {
    pub fn new(rng: &'a mut Rng, uni: &'a mut KeyUniverse, locks: LockCfg) -> Self {
        Gen { rng, uni, locks, pending_twin: None, max_keys: 8, max_hashes: 3, ctx: MsCtx::Segwit, nodes_left: 20, keys_used: vec![], hashes_used: vec![], locks_used: vec![] }
    }

    fn key_form(&mut self) -> KeyForm {
        let r = self.rng.below(100);
        match self.ctx {
            MsCtx::Bare | MsCtx::Legacy => match r {
                0..=24 => KeyForm::XpubOriginWild,
                25..=34 => KeyForm::XpubOriginFixed,
                35..=42 => KeyForm::XpubBare,
                43..=49 => KeyForm::XpubBareWild,
                50..=69 => KeyForm::Single,
                70..=79 => KeyForm::SingleOrigin,
                _ => KeyForm::Uncompressed,
            },
            MsCtx::Segwit => match r {
                0..=34 => KeyForm::XpubOriginWild,
                35..=44 => KeyForm::XpubOriginFixed,
                45..=52 => KeyForm::XpubBare,
                53..=59 => KeyForm::XpubBareWild,
                60..=84 => KeyForm::Single,
                _ => KeyForm::SingleOrigin,
            },
            MsCtx::Tap => match r {
                0..=29 => KeyForm::XpubOriginWild,
                30..=39 => KeyForm::XpubOriginFixed,
                40..=46 => KeyForm::XpubBare,
                47..=52 => KeyForm::XpubBareWild,
                53..=62 => KeyForm::Single,
                63..=69 => KeyForm::SingleOrigin,
                _ => KeyForm::XOnly,
            },
        }
    }

    /// A key expression. Mostly fresh keys; when the budget is exhausted or with small
    /// probability, reuse (which makes the script insane but still well-typed).
    pub fn key(&mut self) -> String {
        let reuse = !self.keys_used.is_empty() && (self.keys_used.len() >= self.max_keys || self.rng.chance(1, 40));
        if reuse {
            // only reuse keys whose form is legal in this context
            let cands: Vec<usize> = self
                .keys_used
                .iter()
                .copied()
                .filter(|k| {
                    let f = self.uni.keys[*k].form;
                    match self.ctx {
                        MsCtx::Bare | MsCtx::Legacy => f != KeyForm::XOnly,
                        MsCtx::Segwit => f != KeyForm::XOnly && f != KeyForm::Uncompressed && f != KeyForm::TwinUncompressed,
                        MsCtx::Tap => f != KeyForm::Uncompressed && f != KeyForm::TwinUncompressed,
                    }
                })
                .collect();
            if !cands.is_empty() {
                let k = *self.rng.pick(&cands);
                return self.uni.keys[k].expr.clone();
            }
        }
        // the second name of a key that is already in this descriptor
        if let Some(t) = self.pending_twin.take() {
            if self.rng.chance(2, 3) {
                return self.uni.keys[t].expr.clone();
            }
            self.pending_twin = Some(t);
        }
        let form = self.key_form();
        let owner = self.rng.below(self.uni.n_signers as u64) as usize;
        // one key, two names: in tapscript the two parity prefixes of one x-only key, before segwit
        // the compressed and the uncompressed serialization
        if form == KeyForm::Single && matches!(self.ctx, MsCtx::Tap | MsCtx::Legacy) && self.pending_twin.is_none() && self.rng.chance(1, 10) {
            let k = self.uni.new_key(owner, KeyForm::Single);
            let t = self.uni.new_key(owner, if self.ctx == MsCtx::Tap { KeyForm::TwinOtherParity } else { KeyForm::TwinUncompressed });
            self.keys_used.push(k);
            self.pending_twin = Some(t);
            return self.uni.keys[k].expr.clone();
        }
        let k = self.uni.new_key(owner, form);
        self.keys_used.push(k);
        self.uni.keys[k].expr.clone()
    }

    /// A key nobody has used yet in this descriptor, of the given form (heavy shapes need many).
    pub fn fresh_key(&mut self, form: KeyForm) -> String {
        let owner = self.rng.below(self.uni.n_signers as u64) as usize;
        let k = self.uni.new_key(owner, form);
        self.keys_used.push(k);
        self.uni.keys[k].expr.clone()
    }

    pub fn hash(&mut self) -> String {
        if self.hashes_used.len() >= self.max_hashes || (!self.hashes_used.is_empty() && self.rng.chance(1, 10)) {
            let h = *self.rng.pick(&self.hashes_used);
            return self.uni.hashes[h].frag();
        }
        let kind = *self.rng.pick(&[HashKind::Sha256, HashKind::Hash256, HashKind::Ripemd160, HashKind::Hash160]);
        let owner = self.rng.below(self.uni.n_signers as u64) as usize;
        let h = self.uni.new_hash(owner, kind);
        self.hashes_used.push(h);
        self.uni.hashes[h].frag()
    }

    pub fn after(&mut self, time: bool) -> String {
        if time {
            format!("after({})", self.locks.time_base + 600 * self.rng.range(1, 30) as u32)
        } else {
            // around the starting tip: some already reachable, some only after a few blocks
            format!("after({})", self.locks.height_base - 12 + self.rng.range(0, 40) as u32)
        }
    }
    pub fn older(&mut self, time: bool) -> String {
        if time {
            format!("older({})", 4194304 + self.rng.range(1, 20) as u32)
        } else {
            format!("older({})", self.rng.range(1, 30) as u32)
        }
    }
    fn lock(&mut self) -> String {
        // the same lock value often occurs more than once in a script (two arms sharing a delay)
        if !self.locks_used.is_empty() && self.rng.chance(1, 3) {
            return self.rng.pick(&self.locks_used).clone();
        }
        let l = self.fresh_lock();
        self.locks_used.push(l.clone());
        l
    }
    fn fresh_lock(&mut self) -> String {
        match self.rng.below(10) {
            0..=3 => self.older(false),
            4 => self.older(true),
            5..=8 => self.after(false),
            _ => self.after(true),
        }
    }

    fn multi(&mut self) -> String {
        let n = self.rng.range(1, 4) as usize;
        let k = self.rng.range(1, n as u64) as usize;
        let name = match (self.ctx, self.rng.chance(1, 5)) {
            (MsCtx::Tap, false) => "multi_a",
            (MsCtx::Tap, true) => "sortedmulti_a",
            (_, false) => "multi",
            (_, true) => "sortedmulti",
        };
        let mut s = format!("{}({}", name, k);
        for _ in 0..n {
            s.push(',');
            s.push_str(&self.key());
        }
        s.push(')');
        s
    }

    fn leaf_b(&mut self, want_d: bool) -> String {
        self.nodes_left -= 1;
        let r = self.rng.below(if want_d { 70 } else { 100 });
        match r {
            0..=24 => format!("pk({})", self.key()),
            25..=39 => format!("pkh({})", self.key()),
            40..=51 => self.multi(),
            52..=67 => self.hash(),
            68..=69 => "0".to_string(),
            70..=96 => self.lock(),
            _ => "1".to_string(),
        }
    }

    pub fn b(&mut self, d: u32, want_d: bool) -> String {
        if d == 0 || self.nodes_left <= 0 || self.rng.chance(1, 4) {
            return self.leaf_b(want_d);
        }
        self.nodes_left -= 1;
        let r = self.rng.below(100);
        match r {
            0..=13 if !want_d => {
                let x = self.v(d - 1);
                let y = self.b(d - 1, false);
                format!("and_v({},{})", x, y)
            }
            0..=22 => {
                let x = self.b(d - 1, want_d);
                let y = self.w(d - 1, want_d);
                format!("and_b({},{})", x, y)
            }
            23..=32 => {
                let x = self.b(d - 1, true);
                let y = self.w(d - 1, true);
                format!("or_b({},{})", x, y)
            }
            33..=44 => {
                let x = self.b(d - 1, true);
                let y = self.b(d - 1, want_d);
                format!("or_d({},{})", x, y)
            }
            45..=54 => {
                let x = self.b(d - 1, want_d);
                let y = self.b(d - 1, false);
                if self.rng.chance(1, 2) {
                    format!("or_i({},{})", x, y)
                } else {
                    format!("or_i({},{})", y, x)
                }
            }
            55..=66 => {
                let x = self.b(d - 1, true);
                let y = self.b(d - 1, false);
                let z = self.b(d - 1, want_d);
                format!("andor({},{},{})", x, y, z)
            }
            67..=78 => {
                let n = self.rng.range(2, 4) as usize;
                let k = self.rng.range(1, n as u64) as usize;
                let mut s = format!("thresh({},{}", k, self.b(d - 1, true));
                for _ in 1..n {
                    s.push(',');
                    s.push_str(&self.w(d - 1, true));
                }
                s.push(')');
                s
            }
            79..=82 => wrap("j", &self.b(d - 1, false)),
            83..=85 => wrap("n", &self.b(d - 1, want_d)),
            86..=88 => wrap("l", &self.b(d - 1, false)),
            89..=91 => wrap("u", &self.b(d - 1, false)),
            92..=93 if !want_d => wrap("t", &self.v(d - 1)),
            92..=94 => {
                let l = self.lock();
                wrap("d", &wrap("v", &l))
            }
            95..=97 => {
                // K-typed combinations under c:
                let a = self.key();
                let b = self.key();
                match self.rng.below(3) {
                    0 => format!("c:or_i(pk_k({}),pk_h({}))", a, b),
                    1 => {
                        let c = self.b(d - 1, true);
                        format!("c:andor({},pk_k({}),pk_h({}))", c, a, b)
                    }
                    _ => {
                        let v = self.v(d - 1);
                        format!("c:and_v({},pk_k({}))", v, a)
                    }
                }
            }
            _ => self.leaf_b(want_d),
        }
    }

    pub fn v(&mut self, d: u32) -> String {
        if d == 0 || self.nodes_left <= 0 || self.rng.chance(1, 2) {
            let inner = self.b(d.saturating_sub(1), false);
            return wrap("v", &inner);
        }
        self.nodes_left -= 1;
        match self.rng.below(10) {
            0..=3 => {
                let x = self.v(d - 1);
                let y = self.v(d - 1);
                format!("and_v({},{})", x, y)
            }
            4..=5 => {
                let x = self.b(d - 1, true);
                let y = self.v(d - 1);
                format!("or_c({},{})", x, y)
            }
            6..=7 => {
                let x = self.v(d - 1);
                let y = self.v(d - 1);
                format!("or_i({},{})", x, y)
            }
            _ => {
                let x = self.b(d - 1, true);
                let y = self.v(d - 1);
                let z = self.v(d - 1);
                format!("andor({},{},{})", x, y, z)
            }
        }
    }

    pub fn w(&mut self, d: u32, want_d: bool) -> String {
        if self.rng.chance(1, 3) {
            // s: needs a one-arg B
            self.nodes_left -= 1;
            let inner = match self.rng.below(3) {
                0 => self.hash(),
                _ => format!("pk({})", self.key()),
            };
            wrap("s", &inner)
        } else {
            let inner = self.b(d, want_d);
            wrap("a", &inner)
        }
    }

    fn policy(&mut self, d: u32) -> String {
        if d == 0 || self.nodes_left <= 0 || self.rng.chance(1, 4) {
            self.nodes_left -= 1;
            return match self.rng.below(10) {
                0..=5 => format!("pk({})", self.key()),
                6..=7 => self.hash(),
                _ => self.lock(),
            };
        }
        self.nodes_left -= 1;
        match self.rng.below(10) {
            0..=3 => {
                let a = self.policy(d - 1);
                let b = self.policy(d - 1);
                format!("and({},{})", a, b)
            }
            4..=7 => {
                let a = self.policy(d - 1);
                let b = self.policy(d - 1);
                if self.rng.chance(1, 2) {
                    format!("or({}@{},{}@{})", self.rng.range(1, 9), a, self.rng.range(1, 9), b)
                } else {
                    format!("or({},{})", a, b)
                }
            }
            _ => {
                let n = self.rng.range(2, 4) as usize;
                let k = self.rng.range(1, n as u64) as usize;
                let mut s = format!("thresh({}", k);
                for _ in 0..n {
                    s.push(',');
                    s.push_str(&self.policy(d - 1));
                }
                s.push(')');
                s
            }
        }
    }

    fn fill_shape(&mut self, t: &str) -> String {
        let mut out = String::new();
        let mut it = t.char_indices().peekable();
        let bytes = t.as_bytes();
        while let Some((i, c)) = it.next() {
            if c == '@' {
                // token letters
                let rest = &t[i + 1..];
                let (tok, len) = if rest.starts_with("AT") {
                    ("AT", 2)
                } else if rest.starts_with("OT") {
                    ("OT", 2)
                } else {
                    (&rest[..1], 1)
                };
                for _ in 0..len {
                    it.next();
                }
                let s = match tok {
                    "U" => self.fresh_key(KeyForm::Uncompressed),
                    "N" => self.fresh_key(KeyForm::Single),
                    "K" => self.key(),
                    "H" => self.hash(),
                    "A" => self.after(false),
                    "AT" => self.after(true),
                    "O" => self.older(false),
                    "OT" => self.older(true),
                    _ => panic!("bad shape token at {} in {}", i, t),
                };
                out.push_str(&s);
                let _ = bytes;
            } else {
                out.push(c);
            }
        }
        if self.ctx == MsCtx::Tap {
            out = out.replace("sortedmulti(", "sortedmulti_a(").replace("multi(", "multi_a(").replace("sortedmulti_a_a(", "sortedmulti_a(");
        }
        out
    }

    fn ms_for(&mut self, ctx: MsCtx, source: u64) -> (String, &'static str) {
        self.ctx = ctx;
        self.nodes_left = self.rng.range(3, 22) as i32;
        match source {
            0 => {
                let d = self.rng.range(1, 4) as u32;
                (self.b(d, false), "typed")
            }
            1 => {
                if self.rng.chance(1, 24) {
                    if let Some(t) = heavy_shape(ctx, self.rng.below(8)) {
                        return (self.fill_shape(&t), "heavy");
                    }
                }
                let t = *self.rng.pick(SHAPES);
                (self.fill_shape(t), "shape")
            }
            _ => {
                let d = self.rng.range(1, 3) as u32;
                let p = self.policy(d);
                let r: Option<String> = (|| {
                    let pol = Concrete::<DescriptorPublicKey>::from_str(&p).ok()?;
                    match ctx {
                        MsCtx::Bare => pol.compile::<miniscript::BareCtx>().ok().map(|m| m.to_string()),
                        MsCtx::Legacy => pol.compile::<miniscript::Legacy>().ok().map(|m| m.to_string()),
                        MsCtx::Segwit => pol.compile::<miniscript::Segwitv0>().ok().map(|m| m.to_string()),
                        MsCtx::Tap => pol.compile::<miniscript::Tap>().ok().map(|m| m.to_string()),
                    }
                })();
                match r {
                    Some(s) => (s, "compiled"),
                    None => (format!("pk({})", self.key()), "compiled-fallback"),
                }
            }
        }
    }

    fn tap_tree(&mut self, leaves: &mut Vec<String>, depth: u32) -> String {
        if leaves.len() == 1 {
            return leaves.pop().unwrap();
        }
        // split leaves in two non-empty parts
        let n = leaves.len();
        let cut = if depth > 6 { 1 } else { self.rng.range(1, n as u64 - 1) as usize };
        let mut right: Vec<String> = leaves.split_off(cut);
        let l = self.tap_tree(leaves, depth + 1);
        let r = self.tap_tree(&mut right, depth + 1);
        format!("{{{},{}}}", l, r)
    }

    /// Generate one candidate descriptor text of the given kind. Not yet validated by the parser.
    pub fn descriptor(&mut self, kind: OutKind) -> DescSpec {
        self.keys_used.clear();
        self.hashes_used.clear();
        self.locks_used.clear();
        self.pending_twin = None;
        let source = self.rng.below(3);
        let (text, src): (String, &'static str) = match kind {
            OutKind::Bare => {
                self.ctx = MsCtx::Bare;
                match self.rng.below(3) {
                    0 => (format!("pk({})", self.key()), "key"),
                    1 => {
                        // bare multi with n <= 3
                        let n = self.rng.range(1, 3) as usize;
                        let k = self.rng.range(1, n as u64) as usize;
                        let mut s = format!("multi({}", k);
                        for _ in 0..n {
                            s.push(',');
                            s.push_str(&self.key());
                        }
                        s.push(')');
                        (s, "key")
                    }
                    _ => {
                        // pkh miniscript at bare level is written as pkh descriptor by the library;
                        // use another multi form
                        let n = self.rng.range(1, 3) as usize;
                        let k = self.rng.range(1, n as u64) as usize;
                        let mut s = format!("sortedmulti({}", k);
                        for _ in 0..n {
                            s.push(',');
                            s.push_str(&self.key());
                        }
                        s.push(')');
                        (s, "key")
                    }
                }
            }
            OutKind::Pkh => {
                self.ctx = MsCtx::Legacy;
                (format!("pkh({})", self.key()), "key")
            }
            OutKind::Wpkh => {
                self.ctx = MsCtx::Segwit;
                (format!("wpkh({})", self.key()), "key")
            }
            OutKind::ShWpkh => {
                self.ctx = MsCtx::Segwit;
                (format!("sh(wpkh({}))", self.key()), "key")
            }
            OutKind::ShMs => {
                let (m, s) = self.ms_for(MsCtx::Legacy, source);
                (format!("sh({})", m), s)
            }
            OutKind::ShWsh => {
                let (m, s) = self.ms_for(MsCtx::Segwit, source);
                (format!("sh(wsh({}))", m), s)
            }
            OutKind::Wsh => {
                let (m, s) = self.ms_for(MsCtx::Segwit, source);
                (format!("wsh({})", m), s)
            }
            OutKind::TrKey => {
                self.ctx = MsCtx::Tap;
                (format!("tr({})", self.key()), "key")
            }
            OutKind::TrScript => {
                self.ctx = MsCtx::Tap;
                let ik = if self.rng.chance(1, 3) { self.uni.unspendable_xonly() } else { self.key() };
                if self.rng.chance(1, 8) {
                    // a deep chain (control blocks of 257+ bytes from depth 7 on) with distinct cheap leaves
                    let depth = self.rng.range(7, 12) as usize;
                    let mut keys = vec![];
                    for _ in 0..3 {
                        keys.push(self.key());
                    }
                    let mut t = format!("and_v(v:pk({}),older({}))", keys[0], depth + 1);
                    for i in 0..depth {
                        let leaf = format!("and_v(v:pk({}),older({}))", keys[i % 3], i + 1);
                        t = if self.rng.chance(1, 2) { format!("{{{},{}}}", leaf, t) } else { format!("{{{},{}}}", t, leaf) };
                    }
                    return DescSpec { kind, text: format!("tr({},{})", ik, t), source: "deep-chain" };
                }
                let n_leaves = match self.rng.below(10) {
                    0..=3 => 1,
                    4..=6 => 2,
                    7..=8 => self.rng.range(3, 5) as usize,
                    _ => self.rng.range(6, 8) as usize,
                };
                let mut leaves = vec![];
                let mut src = "typed";
                for _ in 0..n_leaves {
                    let (m, s) = self.ms_for(MsCtx::Tap, source);
                    src = s;
                    leaves.push(m);
                }
                let tree = self.tap_tree(&mut leaves, 0);
                (format!("tr({},{})", ik, tree), src)
            }
        };
        DescSpec { kind, text, source: src }
    }
}

fn rep(item: &str, n: usize, sep: &str) -> String { (0..n).map(|_| item.to_string()).collect::<Vec<_>>().join(sep) }

/// Shapes near a consensus or standardness resource limit of their context (size dimension of the
/// workload): many keys, many key hashes, many signature checks, big multisigs on both sides of a
/// disjunction. `@U` = fresh uncompressed key, `@N` = fresh single key.
pub fn heavy_shape(ctx: MsCtx, which: u64) -> Option<String> {
    fn chain(wrap_v: &str, last: &str, n: usize) -> String {
        // and_v(v:X,and_v(v:X,...,last))
        let mut s = last.to_string();
        for _ in 0..n {
            s = format!("and_v({},{})", wrap_v, s);
        }
        s
    }
    fn or_chain(item: &str, n: usize) -> String {
        let mut s = item.to_string();
        for _ in 0..n {
            s = format!("or_d({},{})", item, s);
        }
        s
    }
    match (ctx, which) {
        // redeemScript a few bytes around 520 with several uncompressed keys
        (MsCtx::Legacy, 0) => Some(format!("and_v(v:multi(1,{}),and_v(v:pk(@N),pkh(@N)))", rep("@U", 7, ","))),
        (MsCtx::Legacy, 1) => Some(format!("and_v(v:multi(1,{}),pk(@N))", rep("@U", 7, ","))),
        // scriptSig around the 1650-byte standardness limit
        (MsCtx::Legacy, 2) => Some(chain("v:pkh(@N)", "pkh(@N)", 12)),
        (MsCtx::Legacy, 3) => Some(chain("v:pkh(@N)", "pkh(@N)", 11)),
        // sigops around the P2SH limit of 15
        (MsCtx::Legacy, 4) => Some(or_chain("pkh(@N)", 15)),
        (MsCtx::Legacy, 5) => Some(or_chain("pkh(@N)", 14)),
        (MsCtx::Legacy, _) => Some(format!("or_d(multi(1,{}),multi(2,{}))", rep("@N", 7, ","), rep("@N", 7, ","))),
        // executed opcodes around 201 (the dissatisfied arm of the or_i runs its big multi as well)
        (MsCtx::Segwit, 0) | (MsCtx::Segwit, 1) => Some(format!(
            "or_b(or_i(and_v(v:multi(1,{}),pk(@N)),thresh(2,pkh(@N),{})),a:and_n(pk(@N),multi(1,{})))",
            rep("@N", 20, ","),
            rep("a:pkh(@N)", 21, ","),
            rep("@N", 20, ",")
        )),
        (MsCtx::Segwit, 2) => Some(format!("or_d(multi(3,{}),and_v(v:multi(2,{}),older(7)))", rep("@N", 20, ","), rep("@N", 20, ","))),
        (MsCtx::Segwit, 3) => Some(format!("thresh(11,pk(@N),{})", rep("s:pk(@N)", 20, ","))),
        (MsCtx::Segwit, 4) => Some(chain("v:pkh(@N)", "pk(@N)", 40)),
        (MsCtx::Segwit, _) => Some(format!("andor(multi(1,{}),older(3),multi(1,{}))", rep("@N", 20, ","), rep("@N", 20, ","))),
        // many keys in one tapscript leaf
        (MsCtx::Tap, 0) => Some(format!("multi_a(3,{})", rep("@N", 60, ","))),
        (MsCtx::Tap, 1) => Some(format!("and_v(v:multi_a(2,{}),pk(@N))", rep("@N", 40, ","))),
        (MsCtx::Tap, 2) => Some(format!("thresh(5,pk(@N),{})", rep("s:pk(@N)", 30, ","))),
        (MsCtx::Tap, _) => Some(chain("v:pkh(@N)", "pk(@N)", 30)),
        _ => None,
    }
}

/// Curated shapes: dissatisfiable fragments under every disjunction/threshold form, timelocks inside
/// dissatisfactions (#895 class), hash dissatisfactions, K-typed combinators, mixed units.
pub const SHAPES: &[&str] = &[
    // top level that is not of type B (a key expression, a W or a V): a parser that accepts these
    // must still get everything else right about them
    "pk_k(@K)",
    "and_v(v:pk(@K),pk_k(@K))",
    "a:pk(@K)",
    "or_c(pk(@K),v:pk(@K))",
    "pk_h(@K)",
    // an uncompressed key behind a key hash (not allowed in segwit / tapscript: refuse, or get it right)
    "pkh(@U)",
    "or_d(pk(@K),pkh(@U))",
    "and_v(v:pk(@K),pk_h(@U))",
    // one arm / one threshold child mixes lock units: the fragment as a whole fails the lift check
    // while its other paths are ordinary spending paths
    "or_i(and_v(v:@A,and_v(v:@AT,pk(@K))),pk(@K))",
    "thresh(2,pk(@K),s:pk(@K),sln:@A,sln:@AT)",
    "or_d(pk(@K),and_v(v:pk(@K),and_v(v:@O,@OT)))",
    "or_d(pk(@K),and_v(v:pk(@K),@O))",
    "andor(pk(@K),@O,pk(@K))",
    "and_v(v:pk(@K),or_d(pk(@K),@O))",
    "thresh(2,pk(@K),s:pk(@K),s:pk(@K))",
    "thresh(2,pk(@K),s:pk(@K),sln:@O)",
    "thresh(2,pk(@K),s:pk(@K),snl:@A)",
    "thresh(1,pk(@K),s:pk(@K),s:pk(@K))",
    "thresh(3,pk(@K),s:pk(@K),s:pk(@K),sln:@O)",
    "or_b(pk(@K),s:pk(@K))",
    "or_b(@H,a:pk(@K))",
    "and_b(pk(@K),a:@H)",
    "and_b(pk(@K),s:pk(@K))",
    "or_i(and_v(v:pk(@K),@A),and_v(v:pk(@K),@O))",
    "and_v(or_c(pk(@K),v:@H),pk(@K))",
    "andor(@H,pk(@K),and_v(v:pk(@K),@O))",
    "or_b(n:or_i(and_v(v:@A,and_v(v:pk(@K),pk(@K))),thresh(2,pk(@K),a:pkh(@K),a:pkh(@K))),ajt:and_v(v:@A,v:pk(@K)))",
    "or_b(n:or_i(and_v(v:@A,and_v(v:pk(@K),pk(@K))),thresh(2,pk(@K),a:pkh(@K),a:pkh(@K))),ajt:and_v(v:@AT,v:pk(@K)))",
    "or_d(multi(2,@K,@K,@K),and_v(v:pkh(@K),@O))",
    "and_v(v:pkh(@K),or_i(@H,@O))",
    "j:and_v(v:pk(@K),@H)",
    "c:or_i(pk_k(@K),pk_h(@K))",
    "c:andor(@H,pk_k(@K),pk_h(@K))",
    "or_d(pk(@K),or_d(@H,and_v(v:pk(@K),@OT)))",
    "and_v(v:@AT,and_v(v:@O,pk(@K)))",
    "or_i(and_v(v:@A,pk(@K)),and_v(v:@AT,pk(@K)))",
    "and_v(v:@A,and_v(v:@AT,pk(@K)))",
    "and_v(v:@O,and_v(v:@OT,pk(@K)))",
    "thresh(1,@H,a:@H)",
    "thresh(2,@H,a:@H,a:pk(@K))",
    "or_d(pk(@K),or_b(@H,a:@H))",
    "or_d(pk(@K),dv:@O)",
    "and_b(pk(@K),adv:@O)",
    "multi(1,@K,@K)",
    "multi(3,@K,@K,@K,@K)",
    "sortedmulti(2,@K,@K,@K)",
    "or_d(sortedmulti(2,@K,@K),and_v(v:pk(@K),@A))",
    "and_v(v:multi(2,@K,@K,@K),@O)",
    "or_i(pk(@K),0)",
    "or_i(0,and_v(v:pk(@K),@O))",
    "andor(pk(@K),pk(@K),0)",
    "and_v(v:pk(@K),andor(pk(@K),@O,@A))",
    "t:or_c(pk(@K),and_v(v:pk(@K),v:@H))",
    "and_v(v:or_d(pk(@K),@H),pk(@K))",
    "or_d(pkh(@K),and_v(v:pkh(@K),@O))",
    "andor(pkh(@K),@A,pkh(@K))",
    "thresh(2,pkh(@K),a:pkh(@K),a:@H)",
    "and_v(v:thresh(2,pk(@K),s:pk(@K),s:pk(@K)),@O)",
    "or_d(thresh(2,pk(@K),s:pk(@K),s:pk(@K)),and_v(v:thresh(1,pk(@K),s:pk(@K)),@O))",
    "andor(thresh(2,pk(@K),a:@H,a:@H),@O,pk(@K))",
    "or_b(j:and_v(v:pk(@K),@O),a:pk(@K))",
    "uc:pk_k(@K)",
    "or_i(or_i(pk(@K),pk(@K)),or_i(pk(@K),pk(@K)))",
    "or_i(and_v(v:pk(@K),@H),or_i(and_v(v:pk(@K),@O),pk(@K)))",
    "and_b(@H,a:and_b(@H,a:pk(@K)))",
    "and_v(v:@H,and_v(v:@H,pk(@K)))",
    "and_n(pk(@K),and_v(v:pk(@K),@A))",
    "and_v(v:pk(@K),and_v(or_c(pk(@K),v:older(144)),or_d(pk(@K),older(144))))",
    "and_v(v:pk(@K),and_v(or_c(pk(@K),v:after(1500)),or_d(pk(@K),after(1500))))",
    "thresh(2,pk(@K),s:pk(@K),sndv:@O)",
    // a signature-free sibling (hash lock) next to a child whose only dissatisfaction runs through
    // the ELSE arm of an or_i: whether that dissatisfaction "has a signature" decides what a
    // non-malleable satisfier may publish when the preimage is missing
    "and_v(v:pk(@K),or_d(or_i(and_v(v:pk(@K),pk(@K)),pk(@K)),@H))",
    "and_v(v:pk(@K),andor(or_i(and_v(v:pk(@K),pk(@K)),pk(@K)),pk(@K),@H))",
    "and_v(or_c(or_i(and_v(v:pk(@K),pk(@K)),pk(@K)),v:@H),pk(@K))",
    "and_v(v:pk(@K),or_d(or_i(pk(@K),and_v(v:pk(@K),pk(@K))),@H))",
    // threshold children whose dissatisfaction costs as much as or more than their satisfaction
    // (hash: 33/33, nl:lock: 1/2, and_b of two: 2/4), in several orders: the worst case of the
    // threshold is not "the k dearest satisfactions"
    "thresh(2,pk(@K),a:@H,snl:@O)",
    "thresh(2,pk(@K),snl:@O,a:@H)",
    "thresh(2,nl:@O,a:@H,s:pk(@K))",
    "thresh(2,@H,snl:@A,s:pk(@K))",
    "thresh(3,pk(@K),a:and_b(nl:@O,anl:@O),a:@H,snl:@O)",
    "thresh(3,pk(@K),snl:@A,a:@H,a:and_b(nl:@A,anl:@A))",
    "thresh(2,pk(@K),s:pk(@K),aj:and_v(v:pk(@K),@H))",
    "or_d(and_b(pk(@K),a:pkh(@K)),pk(@K))",
    "and_v(v:pk(@K),or_d(pk(@K),@O))",
    "and_v(v:pk(@K),or_d(pk(@K),@H))",
    "or_d(or_i(pk(@K),and_v(v:@O,pk(@K))),pk(@K))",
    "and_v(v:pk(@K),or_i(1,pk(@K)))",
    "thresh(2,pk(@K),s:pk(@K),a:or_i(1,pk(@K)))",
    "or_d(multi(1,@K,@K),multi(2,@K,@K,@K))",
    "or_i(multi(2,@K,@K),multi(1,@K,@K,@K))",
    "t:or_c(multi(1,@K,@K,@K),v:multi(1,@K,@K,@K))",
    "or_b(multi(1,@K,@K),a:multi(2,@K,@K))",
    "thresh(2,multi(1,@K,@K),a:multi(1,@K,@K),a:multi(2,@K,@K))",
    "andor(multi(2,@K,@K),multi(1,@K,@K),multi(1,@K,@K))",
    "and_v(v:@A,and_v(v:pk(@K),@A))",
    "and_v(v:@O,and_v(v:pk(@K),@O))",
    "and_v(or_c(pk(@K),v:@A),and_v(v:pk(@K),@A))",
    "or_d(and_v(v:pk(@K),@A),and_v(v:pk(@K),and_v(v:@A,@O)))",
    "andor(and_v(v:pk(@K),@O),pk(@K),and_v(v:pk(@K),@O))",
    "or_d(pk(@K),and_v(v:pk(@K),and_v(v:@OT,@AT)))",
    "thresh(2,pk(@K),s:pk(@K),sln:@A,sln:@A)",
    "thresh(3,pk(@K),s:pk(@K),sln:@O,sln:@A)",
    "and_v(or_c(pk(@K),and_v(v:@O,v:@H)),pk(@K))",
    "and_v(v:pk(@K),or_d(pk(@K),and_v(v:@O,@H)))",
    "and_v(v:pk(@K),or_d(pk(@K),and_v(v:@A,and_v(v:@H,and_v(v:@H,@H)))))",
    "and_v(v:pk(@K),or_i(pk(@K),and_v(v:@A,@H)))",
    "and_v(v:pk(@K),and_v(v:@A,@OT))",
    "and_v(v:pk(@K),and_v(v:@AT,@O))",
    "or_d(pk(@K),and_v(v:pk(@K),and_v(v:@A,@OT)))",
    "and_v(v:pk(@K),and_v(v:@H,@H))",
];
