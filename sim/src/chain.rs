//! R2: simulated chain clock and transaction finality (BIP113 IsFinalTx, BIP68 sequence locks).
//! Kept separate from R1: R1 says whether the scripts accept, R2 says whether the tx may be mined now.

use bitcoin::Transaction;

#[derive(Clone, Debug)]
pub struct Chain {
    /// heights are `base_height + index`
    pub base_height: u32,
    pub times: Vec<u32>,
}

pub const LOCKTIME_THRESHOLD: u32 = 500_000_000;

impl Chain {
    /// A chain whose tip is at `tip_height` with 600 s spaced history ending at `tip_time`.
    pub fn new(tip_height: u32, tip_time: u32, history: u32) -> Self {
        let base_height = tip_height - history;
        let mut times = vec![];
        for i in 0..=history {
            times.push(tip_time - 600 * (history - i));
        }
        Chain { base_height, times }
    }
    pub fn tip_height(&self) -> u32 { self.base_height + self.times.len() as u32 - 1 }
    pub fn time_at(&self, h: u32) -> u32 { self.times[(h - self.base_height) as usize] }
    pub fn tip_time(&self) -> u32 { *self.times.last().unwrap() }
    /// median time past of the block at height h (median of the 11 blocks ending at h)
    pub fn mtp(&self, h: u32) -> u32 {
        let hi = (h - self.base_height) as usize;
        let lo = hi.saturating_sub(10);
        let mut v: Vec<u32> = self.times[lo..=hi].to_vec();
        v.sort();
        v[v.len() / 2]
    }
    pub fn push_block(&mut self, time: u32) {
        // consensus: timestamp must exceed MTP
        let t = time.max(self.mtp(self.tip_height()) + 1);
        self.times.push(t);
    }
    /// Remove `depth` blocks (re-org).
    pub fn reorg(&mut self, depth: u32) {
        for _ in 0..depth {
            if self.times.len() > 12 {
                self.times.pop();
            }
        }
    }

    /// May `tx` be included in the next block (height tip+1)? `conf_heights[i]` is the confirmation
    /// height of input i's UTXO.
    pub fn can_mine(&self, tx: &Transaction, conf_heights: &[u32]) -> Result<(), String> {
        let next_height = self.tip_height() + 1;
        let mtp_tip = self.mtp(self.tip_height());
        // IsFinalTx with BIP113
        let lt = tx.lock_time.to_consensus_u32();
        if lt != 0 {
            let cmp = if lt < LOCKTIME_THRESHOLD { next_height } else { mtp_tip };
            if lt >= cmp && !tx.input.iter().all(|i| i.sequence.0 == 0xFFFF_FFFF) {
                return Err(format!("non-final: nLockTime {} vs {}", lt, cmp));
            }
        }
        // BIP68
        if (tx.version.0 as u32) >= 2 {
            let mut min_height: i64 = -1;
            let mut min_time: i64 = -1;
            for (i, inp) in tx.input.iter().enumerate() {
                let seq = inp.sequence.0;
                if seq & (1 << 31) != 0 {
                    continue;
                }
                let ch = conf_heights[i];
                if ch > self.tip_height() {
                    return Err("input not confirmed".into());
                }
                if seq & (1 << 22) != 0 {
                    let coin_time = self.mtp(ch.max(self.base_height + 1) - 1) as i64;
                    min_time = min_time.max(coin_time + (((seq & 0xffff) as i64) << 9) - 1);
                } else {
                    min_height = min_height.max(ch as i64 + (seq & 0xffff) as i64 - 1);
                }
            }
            if min_height >= next_height as i64 {
                return Err(format!("BIP68 height lock: need > {} next {}", min_height, next_height));
            }
            if min_time >= mtp_tip as i64 {
                return Err(format!("BIP68 time lock: need > {} mtp {}", min_time, mtp_tip));
            }
        }
        Ok(())
    }

    /// Largest height-based nLockTime final for the next block.
    pub fn max_abs_height(&self) -> u32 { self.tip_height() }
    /// Largest time-based nLockTime final for the next block.
    pub fn max_abs_time(&self) -> u32 { self.mtp(self.tip_height()) - 1 }
    /// Largest block-based relative lock satisfied for a coin confirmed at `ch`.
    pub fn max_rel_blocks(&self, ch: u32) -> u32 { (self.tip_height() + 1).saturating_sub(ch).min(0xffff) }
    /// Largest 512-second relative lock satisfied for a coin confirmed at `ch`.
    pub fn max_rel_time(&self, ch: u32) -> u32 {
        let coin_time = self.mtp(ch.max(self.base_height + 1) - 1);
        let mtp_tip = self.mtp(self.tip_height());
        (mtp_tip.saturating_sub(coin_time) / 512).min(0xffff)
    }
}

#[cfg(test)]
mod tests {
    use super::*;
    #[test]
    fn mtp_and_bounds() {
        let c = Chain::new(1000, 1_600_000_000, 30);
        assert_eq!(c.tip_height(), 1000);
        assert_eq!(c.mtp(1000), 1_600_000_000 - 600 * 5);
        assert_eq!(c.max_rel_blocks(1000), 1);
        assert_eq!(c.max_rel_blocks(990), 11);
    }
}
