//! Deterministic PRNG (SplitMix64 -> xoshiro256**) and stateless keyed decisions.
//! No dependency on any `rand` crate version; one integer decides everything.

#[inline]
pub fn splitmix64(state: &mut u64) -> u64 {
    *state = state.wrapping_add(0x9E37_79B9_7F4A_7C15);
    let mut z = *state;
    z = (z ^ (z >> 30)).wrapping_mul(0xBF58_476D_1CE4_E5B9);
    z = (z ^ (z >> 27)).wrapping_mul(0x94D0_49BB_1331_11EB);
    z ^ (z >> 31)
}

/// FNV-1a 64 bit, used to turn labels into stream selectors.
pub fn fnv(s: &[u8]) -> u64 {
    let mut h: u64 = 0xcbf2_9ce4_8422_2325;
    for b in s {
        h ^= *b as u64;
        h = h.wrapping_mul(0x0000_0100_0000_01B3);
    }
    h
}

/// Mix several words into one seed.
pub fn mix(words: &[u64]) -> u64 {
    let mut s = 0x243F_6A88_85A3_08D3u64;
    let mut out = 0u64;
    for w in words {
        s ^= *w;
        out = splitmix64(&mut s) ^ out.rotate_left(17);
    }
    let mut t = out ^ s;
    splitmix64(&mut t)
}

#[derive(Clone, Debug)]
pub struct Rng {
    s: [u64; 4],
}

impl Rng {
    pub fn new(seed: u64) -> Self {
        let mut st = seed;
        let s = [splitmix64(&mut st), splitmix64(&mut st), splitmix64(&mut st), splitmix64(&mut st)];
        Rng { s }
    }
    /// Independent sub-stream.
    pub fn fork(&self, label: &str) -> Rng {
        Rng::new(mix(&[self.s[0], self.s[1], self.s[2], self.s[3], fnv(label.as_bytes())]))
    }
    pub fn next_u64(&mut self) -> u64 {
        let result = self.s[1].wrapping_mul(5).rotate_left(7).wrapping_mul(9);
        let t = self.s[1] << 17;
        self.s[2] ^= self.s[0];
        self.s[3] ^= self.s[1];
        self.s[1] ^= self.s[2];
        self.s[0] ^= self.s[3];
        self.s[2] ^= t;
        self.s[3] = self.s[3].rotate_left(45);
        result
    }
    /// Uniform in [0, n). n == 0 returns 0.
    pub fn below(&mut self, n: u64) -> u64 {
        if n <= 1 {
            return 0;
        }
        // Lemire-style rejection is overkill; modulo bias is irrelevant for n << 2^64.
        self.next_u64() % n
    }
    pub fn range(&mut self, lo: u64, hi_incl: u64) -> u64 { lo + self.below(hi_incl - lo + 1) }
    pub fn chance(&mut self, num: u64, den: u64) -> bool { self.below(den) < num }
    pub fn pick<'a, T>(&mut self, xs: &'a [T]) -> &'a T { &xs[self.below(xs.len() as u64) as usize] }
    pub fn bytes32(&mut self) -> [u8; 32] {
        let mut b = [0u8; 32];
        for i in 0..4 {
            b[i * 8..i * 8 + 8].copy_from_slice(&self.next_u64().to_le_bytes());
        }
        b
    }
    pub fn shuffle<T>(&mut self, xs: &mut [T]) {
        for i in (1..xs.len()).rev() {
            let j = self.below(i as u64 + 1) as usize;
            xs.swap(i, j);
        }
    }
}

#[cfg(test)]
mod tests {
    use super::*;
    #[test]
    fn deterministic() {
        let mut a = Rng::new(7);
        let mut b = Rng::new(7);
        for _ in 0..100 {
            assert_eq!(a.next_u64(), b.next_u64());
        }
        assert_ne!(Rng::new(1).next_u64(), Rng::new(2).next_u64());
    }
}
