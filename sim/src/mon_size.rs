//! C09 monitors (Z1-Z5; Z6 lives in mon_plan, Z7 in monitors::probe_input).

use bitcoin::{ScriptBuf, Sequence, TxIn, Witness};
use miniscript::descriptor::ShInner;
use miniscript::{Descriptor, Miniscript, MiniscriptKey, ScriptContext, ToPublicKey};

use crate::monitors::{raise_class, Produced};
use crate::sim::World;
use crate::vm::{self, ExecTrace};

fn varint(n: usize) -> usize {
    if n < 253 {
        1
    } else if n <= 0xffff {
        3
    } else {
        5
    }
}

fn items_size(items: &[Vec<u8>]) -> usize { items.iter().map(|i| varint(i.len()) + i.len()).sum() }

struct Figures {
    script_size: usize,
    encoded_len: usize,
    max_elems: Option<usize>,
    max_size: Option<usize>,
    ops_bound: Option<usize>,
    stack_bound: Option<usize>,
}

fn figures<Pk: MiniscriptKey + ToPublicKey, Ctx: ScriptContext>(ms: &Miniscript<Pk, Ctx>) -> Figures {
    Figures {
        script_size: ms.script_size(),
        encoded_len: ms.encode().len(),
        max_elems: ms.max_satisfaction_witness_elements().ok(),
        max_size: ms.max_satisfaction_size().ok(),
        ops_bound: ms.ext.sat_data.map(|d| ms.ext.static_ops + d.max_exec_op_count),
        stack_bound: ms.ext.sat_data.map(|d| d.max_witness_stack_count + d.max_exec_stack_count),
    }
}

pub fn check_sizes(w: &mut World, actor: &str, i: usize, p: &Produced, t: Option<&ExecTrace>) {
    let env = w.env.clone();
    let desc = &env.inputs[i].desc;
    let text = &env.inputs[i].spec.text;
    let kind = env.inputs[i].kind;
    let mut v: Vec<(String, String)> = vec![]; // (class suffix, detail)
    // Z4: weight
    let txin = TxIn { previous_output: Default::default(), script_sig: p.ss.clone(), sequence: Sequence::MAX, witness: Witness::from_slice(&p.wit) };
    let diff = txin.segwit_weight().to_wu() as i64 - TxIn::default().segwit_weight().to_wu() as i64;
    match desc.max_weight_to_satisfy() {
        Ok(mw) => {
            if diff > mw.to_wu() as i64 {
                v.push(("Z4".into(), format!("max_weight_to_satisfy {} < measured weight difference {} ({})", mw.to_wu(), diff, p.label)));
            }
        }
        Err(_) => {
            // a taproot key-path spend is not covered by the script-path figures: only report when
            // the produced satisfaction is a script-path or non-taproot one
            let key_path = matches!(kind, crate::gen::OutKind::TrScript | crate::gen::OutKind::TrKey) && p.wit.len() == 1;
            if !key_path {
                v.push(("Z4-unsat".into(), format!("max_weight_to_satisfy says unsatisfiable but {} produced a satisfaction", p.label)));
            }
        }
    }
    // per-script figures
    let (fig, items): (Option<Figures>, Vec<Vec<u8>>) = match desc {
        Descriptor::Wsh(wsh) => (Some(figures(wsh.as_inner())), p.wit[..p.wit.len().saturating_sub(1)].to_vec()),
        Descriptor::Sh(sh) => match sh.as_inner() {
            ShInner::Wsh(wsh) => (Some(figures(wsh.as_inner())), p.wit[..p.wit.len().saturating_sub(1)].to_vec()),
            ShInner::Ms(ms) => {
                let mut it = vm::parse_pushes(p.ss.as_bytes()).unwrap_or_default();
                it.pop();
                (Some(figures(ms)), it)
            }
            ShInner::Wpkh(_) => (None, vec![]),
        },
        Descriptor::Bare(b) => (Some(figures(b.as_inner())), vm::parse_pushes(p.ss.as_bytes()).unwrap_or_default()),
        Descriptor::Tr(tr) => {
            if p.wit.len() >= 2 {
                let script = &p.wit[p.wit.len() - 2];
                let mut f = None;
                for leaf in tr.leaves() {
                    if leaf.miniscript().encode().as_bytes() == &script[..] {
                        f = Some(figures(&**leaf.miniscript()));
                        break;
                    }
                }
                (f, p.wit[..p.wit.len() - 2].to_vec())
            } else {
                (None, vec![])
            }
        }
        _ => (None, vec![]),
    };
    if let Some(f) = fig {
        if f.script_size != f.encoded_len {
            v.push(("Z1".into(), format!("script_size() = {} but the encoding has {} bytes", f.script_size, f.encoded_len)));
        }
        let legacy = matches!(kind, crate::gen::OutKind::ShMs | crate::gen::OutKind::Bare);
        match f.max_elems {
            // max_satisfaction_witness_elements counts the script itself as one element
            Some(m) => {
                if items.len() + 1 > m {
                    v.push(("Z2".into(), format!("max_satisfaction_witness_elements {} < {} items + script ({})", m, items.len(), p.label)));
                }
            }
            None => v.push(("Z2-unsat".into(), format!("max_satisfaction_witness_elements says unsatisfiable but {} produced a satisfaction", p.label))),
        }
        match f.max_size {
            Some(m) => {
                let measured = if legacy {
                    // scriptSig bytes of the satisfaction part (without the redeemScript push)
                    let mut b = vec![];
                    for it in &items {
                        vm::push_data(&mut b, it);
                    }
                    b.len()
                } else {
                    items_size(&items)
                };
                if measured > m {
                    v.push(("Z3".into(), format!("max_satisfaction_size {} < measured {} bytes ({})", m, measured, p.label)));
                }
            }
            None => v.push(("Z3-unsat".into(), format!("max_satisfaction_size says unsatisfiable but {} produced a satisfaction", p.label))),
        }
        if let Some(t) = t {
            if kind != crate::gen::OutKind::TrScript {
                if let Some(b) = f.ops_bound {
                    if t.op_count > b {
                        v.push(("Z5-ops".into(), format!("static op count bound {} < executed op count {} as Core counts it ({})", b, t.op_count, p.label)));
                    }
                }
            }
            // The static stack figure (max_witness_stack_count + max_exec_stack_count) is not among the
            // figures the property lists as upper bounds; it only feeds the 1000-element limit check,
            // which Z7 monitors directly (a sane descriptor must never hit StackSize on R1).
            let _ = f.stack_bound;
        }
        w.stats.probe("z_checked");
    }
    if let Some((cls, detail)) = v.into_iter().next() {
        raise_class(w, "C09", &cls.clone(), format!("{}:{:?}", cls, kind), format!("{}: desc={}", detail, text), actor);
    }
    let _ = ScriptBuf::new();
}
