//! C09 monitors (Z1-Z6).
use crate::monitors::Produced;
use crate::sim::World;
use crate::vm::ExecTrace;
pub fn check_sizes(_w: &mut World, _actor: &str, _i: usize, _p: &Produced, _t: Option<&ExecTrace>) {}
