//! C13 monitors (V1-V4) and the Watcher actor.
use bitcoin::Transaction;
use crate::monitors::Produced;
use crate::sim::World;
use crate::vm::ExecTrace;
pub fn check_interpreter_accepts(_w: &mut World, _actor: &str, _tx: &Transaction, _i: usize, _p: &Produced, _t: &ExecTrace) {}
pub fn watcher(_w: &mut World, _tx: &Transaction, _tampered: u64) {}
