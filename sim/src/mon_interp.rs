//! C13 monitors (V1-V4) and the Watcher actor.

use std::collections::BTreeSet;

use bitcoin::sighash::Prevouts;
use bitcoin::{absolute, transaction, Sequence, Transaction, TxOut, Witness};
use miniscript::interpreter::{HashLockType, Interpreter, KeySigPair, SatisfiedConstraint};
use miniscript::policy::Liftable;

use crate::gen::OutKind;
use crate::mon_ref::{eval_policy, PolicyWorld};
use crate::monitors::{exec_spend, guard, raise_class, Produced};
use crate::rng::{fnv, mix, Rng};
use crate::sim::World;
use crate::vm::{ExecTrace, Flags};
use crate::wallet::{god_sat, lock_values};

pub enum Verdict {
    Accept(Vec<SatisfiedConstraint>),
    Reject(String),
}

/// Run the library interpreter (real signature verification) on input `i` of `t`.
pub fn interp_verdict(w: &mut World, actor: &str, t: &Transaction, i: usize) -> Option<Verdict> {
    let env = w.env.clone();
    let prevouts: Vec<TxOut> = env.inputs.iter().map(|x| x.utxo.clone()).collect();
    let spk = env.inputs[i].spk.clone();
    guard(w, "Interpreter", actor, |_| {
        let interp = match Interpreter::from_txdata(&spk, &t.input[i].script_sig, &t.input[i].witness, t.input[i].sequence, t.lock_time) {
            Ok(x) => x,
            Err(e) => return Verdict::Reject(format!("from_txdata: {}", e)),
        };
        let pv = Prevouts::All(&prevouts);
        let mut out = vec![];
        for r in interp.iter(&env.secp, t, i, &pv) {
            match r {
                Ok(c) => out.push(c),
                Err(e) => return Verdict::Reject(format!("iter: {}", e)),
            }
        }
        Verdict::Accept(out)
    })
}

fn key_sig_bytes(ks: &KeySigPair) -> (Vec<u8>, Vec<u8>) {
    match ks {
        KeySigPair::Ecdsa(pk, sig) => (pk.to_bytes(), sig.to_vec()),
        KeySigPair::Schnorr(pk, sig) => (pk.serialize().to_vec(), sig.to_vec()),
    }
}

pub fn check_interpreter_accepts(w: &mut World, actor: &str, tx: &Transaction, i: usize, p: &Produced, trace: &ExecTrace) {
    let env = w.env.clone();
    let sane = env.inputs[i].sane;
    let kind = env.inputs[i].kind;
    let text = env.inputs[i].spec.text.clone();
    let mut t = tx.clone();
    t.input[i].script_sig = p.ss.clone();
    t.input[i].witness = Witness::from_slice(&p.wit);
    let v = match interp_verdict(w, actor, &t, i) {
        Some(v) => v,
        None => return,
    };
    w.stats.oracle_calls += 1;
    match v {
        Verdict::Reject(e) => {
            if sane {
                raise_class(w, "C13", "V2", format!("V2:{:?}:{}", kind, p.label), format!("the interpreter rejects a satisfaction the library produced for a sane descriptor ({}): {} desc={}", p.label, e, text), actor);
            } else {
                w.stats.probe("v2_insane_rejected");
            }
        }
        Verdict::Accept(cons) => {
            w.stats.probe("v2_accepted");
            // V3: attribution
            let mut sigs: BTreeSet<(Vec<u8>, Vec<u8>)> = BTreeSet::new();
            let mut pre: BTreeSet<Vec<u8>> = BTreeSet::new();
            let mut abs: BTreeSet<u32> = BTreeSet::new();
            let mut rel: BTreeSet<u32> = BTreeSet::new();
            for c in &cons {
                match c {
                    SatisfiedConstraint::PublicKey { key_sig } => {
                        sigs.insert(key_sig_bytes(key_sig));
                    }
                    SatisfiedConstraint::PublicKeyHash { key_sig, .. } => {
                        sigs.insert(key_sig_bytes(key_sig));
                    }
                    SatisfiedConstraint::HashLock { preimage, hash } => {
                        let _ = matches!(hash, HashLockType::Sha256(_));
                        pre.insert(preimage.to_vec());
                    }
                    SatisfiedConstraint::AbsoluteTimelock { n } => {
                        abs.insert(n.to_consensus_u32());
                    }
                    SatisfiedConstraint::RelativeTimelock { n } => {
                        rel.insert(n.to_consensus_u32());
                    }
                }
            }
            let t_sigs: BTreeSet<(Vec<u8>, Vec<u8>)> = trace.sig_checks.iter().filter(|s| s.ok).map(|s| (s.pubkey.clone(), s.sig.clone())).collect();
            let digests: BTreeSet<Vec<u8>> = env.uni.hashes.iter().map(|h| h.digest.clone()).collect();
            let t_pre: BTreeSet<Vec<u8>> = trace.hash_checks.iter().filter(|h| h.matched && h.preimage.len() == 32 && digests.contains(&h.digest)).map(|h| h.preimage.clone()).collect();
            let t_abs: BTreeSet<u32> = trace.cltv.iter().map(|x| *x as u32).collect();
            let t_rel: BTreeSet<u32> = trace.csv.iter().map(|x| *x as u32).collect();
            let is_script = matches!(kind, OutKind::Wsh | OutKind::ShWsh | OutKind::ShMs | OutKind::TrScript | OutKind::Bare);
            if is_script || !sigs.is_empty() {
                let what = if sigs != t_sigs {
                    Some("signatures")
                } else if pre != t_pre {
                    Some("hash preimages")
                } else if abs != t_abs {
                    Some("absolute time locks")
                } else if rel != t_rel {
                    Some("relative time locks")
                } else {
                    None
                };
                if let Some(what) = what {
                    raise_class(
                        w,
                        "C13",
                        "V3",
                        format!("V3:{:?}:{}", kind, what),
                        format!("the interpreter's satisfied constraints differ from what the executed path checked ({}): reported sigs={} preimages={} abs={:?} rel={:?}; executed sigs={} preimages={} abs={:?} rel={:?}; desc={}", what, sigs.len(), pre.len(), abs, rel, t_sigs.len(), t_pre.len(), t_abs, t_rel, text),
                        actor,
                    );
                    return;
                }
            }
            // V3b: the reported set satisfies the lifted policy (a taproot key-path spend checks the
            // tweaked output key, which is not a key of the policy: skipped)
            let key_path = matches!(kind, OutKind::TrKey | OutKind::TrScript) && p.wit.len() == 1;
            if key_path {
                w.stats.probe("v3b_key_path_skipped");
            } else if let Some(Ok(pol)) = guard(w, "lift", actor, |_| env.inputs[i].desc.lift()) {
                let by_pk = env.uni.keys_by_pubkey();
                let keys: BTreeSet<usize> = sigs.iter().flat_map(|(pk, _)| by_pk.get(pk).cloned().unwrap_or_default()).collect();
                let pres: BTreeSet<usize> = env.uni.hashes.iter().filter(|h| pre.contains(&h.preimage.to_vec())).map(|h| h.id).collect();
                let pw = PolicyWorld { env: &env, keys, preimages: &pres, lock_time: t.lock_time.to_consensus_u32(), sequence: t.input[i].sequence.0, version: t.version.0 };
                if !eval_policy(&pol, &pw) {
                    raise_class(w, "C13", "V3b", format!("V3b:{:?}", kind), format!("the constraints the interpreter reports do not satisfy the lifted policy {}: desc={}", pol, text), actor);
                    return;
                }
            }
            // V4: inferred descriptor has the same scriptPubKey
            if !matches!(kind, OutKind::TrKey | OutKind::TrScript) {
                let spk = env.inputs[i].spk.clone();
                let r = guard(w, "inferred_descriptor", actor, |_| {
                    Interpreter::from_txdata(&spk, &t.input[i].script_sig, &t.input[i].witness, t.input[i].sequence, t.lock_time).ok().map(|x| x.inferred_descriptor().map(|d| d.script_pubkey()))
                });
                match r {
                    Some(Some(Ok(s))) => {
                        if s != spk {
                            raise_class(w, "C13", "V4", format!("V4:{:?}", kind), format!("inferred_descriptor has a different scriptPubKey: desc={}", text), actor);
                        }
                    }
                    Some(Some(Err(_))) => w.stats.probe("v4_inferred_unparseable"),
                    _ => {}
                }
            }
        }
    }
}

/// V1 on one candidate spend: interpreter accepts => R1 accepts under consensus rules.
fn v1(w: &mut World, actor: &str, t: &Transaction, i: usize, how: &str) {
    let env = w.env.clone();
    let v = match interp_verdict(w, actor, t, i) {
        Some(v) => v,
        None => return,
    };
    w.stats.oracle_calls += 1;
    let wit: Vec<Vec<u8>> = t.input[i].witness.iter().map(|x| x.to_vec()).collect();
    let r1 = exec_spend(w, t, i, &wit, &t.input[i].script_sig, Flags::CONSENSUS);
    let skel = crate::monitors::skeleton_hash(&env.inputs[i].spec.text);
    w.stats.nontrivial_cases.insert(mix(&[skel, fnv(how.as_bytes()), t.lock_time.to_consensus_u32() as u64, t.input[i].sequence.0 as u64, r1.is_ok() as u64]));
    match (v, r1) {
        (Verdict::Accept(_), Err(e)) => {
            let cause = if e == crate::vm::VmError::UnsatisfiedLocktime {
                if t.version.0 < 2 {
                    "csv-tx-version-1"
                } else if t.input[i].sequence.0 == 0xFFFF_FFFF {
                    "cltv-final-sequence"
                } else {
                    "other"
                }
            } else {
                "-"
            };
            raise_class(
                w,
                "C13",
                "V1",
                format!("V1:{:?}:{}:{:?}:{}", e, cause, env.inputs[i].kind, how),
                format!(
                    "the interpreter accepts a spend that real script execution rejects ({:?}) [{}]: desc={} nLockTime={} nSequence={:#x} version={} scriptSig={:x} witness={:?}",
                    e,
                    how,
                    env.inputs[i].spec.text,
                    t.lock_time.to_consensus_u32(),
                    t.input[i].sequence.0,
                    t.version.0,
                    t.input[i].script_sig,
                    wit.iter().map(|x| crate::keys::hex_of(x)).collect::<Vec<_>>()
                ),
                actor,
            );
        }
        (Verdict::Accept(_), Ok(_)) => w.stats.probe("v1_both_accept"),
        (Verdict::Reject(_), Ok(_)) => w.stats.probe("v1_interp_stricter"),
        (Verdict::Reject(_), Err(_)) => w.stats.probe("v1_both_reject"),
    }
}

/// The Watcher: sees honest transactions, relay-tampered ones and clock-faulted ones.
pub fn watcher(w: &mut World, tx: &Transaction, tampered: u64) {
    let env = w.env.clone();
    let n = tx.input.len();
    for i in 0..n {
        if env.inputs[i].foreign {
            continue;
        }
        v1(w, "watcher", tx, i, "honest");
        if !w.violations.is_empty() {
            return;
        }
    }
    let mut r = Rng::new(mix(&[env.run_seed, 0x77617463, w.stats.broadcasts, tampered]));
    // relay-tampered: multi-element mutations of each input's witness / scriptSig
    if tampered != 0 {
        for i in 0..n {
            if env.inputs[i].foreign {
                continue;
            }
            let kind = env.inputs[i].kind;
            let legacy = matches!(kind, OutKind::Bare | OutKind::Pkh | OutKind::ShMs);
            let items: Vec<Vec<u8>> = if legacy { crate::vm::parse_pushes(tx.input[i].script_sig.as_bytes()).unwrap_or_default() } else { tx.input[i].witness.iter().map(|x| x.to_vec()).collect() };
            if items.is_empty() {
                continue;
            }
            let alphabet: Vec<Vec<u8>> = vec![vec![], vec![1], vec![2], vec![0; 32], vec![0x42; 32], vec![0x42; 33], vec![0x42; 64], vec![0x42; 72]];
            for _ in 0..24 {
                let mut it = items.clone();
                for _ in 0..r.range(1, 3) {
                    match r.below(4) {
                        0 if it.len() > 1 => {
                            let k = r.below(it.len() as u64) as usize;
                            it.remove(k);
                        }
                        1 => {
                            let k = r.below(it.len() as u64) as usize;
                            let v = it[k].clone();
                            it.insert(k, v);
                        }
                        2 if it.len() > 1 => {
                            let a = r.below(it.len() as u64) as usize;
                            let b = r.below(it.len() as u64) as usize;
                            it.swap(a, b);
                        }
                        _ => {
                            let k = r.below(it.len() as u64) as usize;
                            it[k] = r.pick(&alphabet).clone();
                        }
                    }
                }
                let mut t = tx.clone();
                if legacy {
                    let mut b = vec![];
                    for x in &it {
                        crate::vm::push_data(&mut b, x);
                    }
                    t.input[i].script_sig = bitcoin::ScriptBuf::from_bytes(b);
                } else {
                    t.input[i].witness = Witness::from_slice(&it);
                }
                v1(w, "watcher", &t, i, "tampered");
                if !w.violations.is_empty() {
                    return;
                }
            }
        }
    }
    // clock-faulted: lock fields chosen by a node with a wrong clock view, re-signed by every signer
    clock_faulted(w, tx, &mut r);
}

pub fn clock_faulted(w: &mut World, tx: &Transaction, r: &mut Rng) {
    let env = w.env.clone();
    for i in 0..tx.input.len() {
        if env.inputs[i].foreign {
            continue;
        }
        let (afters, olders) = lock_values(&env.inputs[i].spec.text);
        if afters.is_empty() && olders.is_empty() {
            continue;
        }
        w.stats.probe("clock_faulted_cases");
        let mut variants: Vec<(u32, u32, i32)> = vec![];
        for a in &afters {
            for lt in [a.saturating_sub(1), *a, a + 1, if *a < 500_000_000 { 1_600_000_000 } else { 1000 }] {
                for seq in [0xFFFF_FFFEu32, 0xFFFF_FFFF] {
                    variants.push((lt, seq, 2));
                }
            }
        }
        for o in &olders {
            for seq in [o.saturating_sub(1), *o, o + 1, o ^ (1 << 22), o | (1 << 31), 0xFFFF_FFFF] {
                for ver in [1, 2] {
                    let lt = afters.first().copied().unwrap_or(0);
                    variants.push((lt, seq, ver));
                }
            }
        }
        r.shuffle(&mut variants);
        for (lt, seq, ver) in variants.into_iter().take(8) {
            let mut t = tx.clone();
            t.version = transaction::Version(ver);
            t.lock_time = absolute::LockTime::from_consensus(lt);
            t.input[i].sequence = Sequence(seq);
            t.input[i].script_sig = bitcoin::ScriptBuf::new();
            t.input[i].witness = Witness::new();
            let hashes: Vec<usize> = env.uni.hashes.iter().map(|h| h.id).collect();
            let mut sat = god_sat(&env, &t, i, &env.inputs[i].key_ids, &hashes, mix(&[env.run_seed, lt as u64, seq as u64]));
            sat.lie_locks = true;
            let desc = env.inputs[i].desc.clone();
            // drop some signatures so that time-locked arms are actually chosen
            if r.chance(1, 2) && !env.inputs[i].key_ids.is_empty() {
                let k = *r.pick(&env.inputs[i].key_ids);
                sat.ecdsa.remove(&k);
                sat.tap_key.remove(&k);
                sat.tap_script.retain(|(kk, _), _| *kk != k);
            }
            if let Some(Ok((wit, ss))) = guard(w, "get_satisfaction_mall(clock-faulted)", "watcher", |_| desc.get_satisfaction_mall(&sat)) {
                t.input[i].script_sig = ss;
                t.input[i].witness = Witness::from_slice(&wit);
                v1(w, "watcher", &t, i, "clock-faulted");
                if !w.violations.is_empty() {
                    return;
                }
            }
        }
    }
}

/// V1 on everything the reference satisfier can build when every signer has signed this very
/// transaction: satisfactions, non-canonical forms and dissatisfactions (which must fail). The
/// interpreter may never accept what R1 rejects.
pub fn reference_candidates(w: &mut World, actor: &str, tx: &Transaction, i: usize) {
    let env = w.env.clone();
    // every other attempt, decided by the run's decision source so that replay is exact
    if w.dec.choose(&format!("v1ref:{}:{}", actor, w.stats.attempts), 2) == 1 {
        return;
    }
    let hashes: Vec<usize> = env.uni.hashes.iter().map(|h| h.id).collect();
    let sat = god_sat(&env, tx, i, &env.inputs[i].key_ids, &hashes, mix(&[env.run_seed, 0x763172, w.stats.attempts]));
    let world = crate::mon_ref::ref_world(&sat, true);
    let rr = crate::mon_ref::ref_spends_ext(&env, &env.inputs[i].desc, &sat, &world, true);
    if rr.unsupported {
        return;
    }
    w.stats.probe("v1_reference_batches");
    let mut r = Rng::new(mix(&[env.run_seed, 0x763173, w.stats.attempts, i as u64]));
    let mut spends = rr.spends;
    // sample at most 40, keeping the non-canonical ones preferentially (they are the interesting ones)
    spends.sort_by_key(|s| s.canonical);
    if spends.len() > 40 {
        let keep_first = 25;
        let mut rest = spends.split_off(keep_first);
        r.shuffle(&mut rest);
        rest.truncate(15);
        spends.extend(rest);
    }
    for s in spends {
        let mut t = tx.clone();
        t.input[i].script_sig = s.ss.clone();
        t.input[i].witness = Witness::from_slice(&s.wit);
        v1(w, actor, &t, i, if s.canonical { "R3" } else { "R3-noncanonical" });
        if !w.violations.is_empty() {
            return;
        }
    }
}

/// Relay-style tampering of one library satisfaction at probe time: item mutations and, for nested
/// segwit, scriptSig mutations (extra pushes around the redeemScript push).
pub fn tamper(w: &mut World, actor: &str, tx: &Transaction, i: usize, wit: &[Vec<u8>], ss: &bitcoin::ScriptBuf) {
    let env = w.env.clone();
    let kind = env.inputs[i].kind;
    if w.dec.choose(&format!("v1tamper:{}:{}", actor, w.stats.attempts), 2) == 1 {
        return;
    }
    let mut r = Rng::new(mix(&[env.run_seed, 0x74616d, w.stats.attempts, i as u64]));
    let legacy = matches!(kind, OutKind::Bare | OutKind::Pkh | OutKind::ShMs);
    let items: Vec<Vec<u8>> = if legacy { crate::vm::parse_pushes(ss.as_bytes()).unwrap_or_default() } else { wit.to_vec() };
    let alphabet: Vec<Vec<u8>> = vec![vec![], vec![1], vec![2], vec![0; 32], vec![0x42; 32], vec![0x42; 33], vec![0x42; 64], vec![0x42; 72]];
    let mut cands: Vec<(Vec<Vec<u8>>, bitcoin::ScriptBuf)> = vec![];
    if !items.is_empty() {
        for _ in 0..16 {
            let mut it = items.clone();
            for _ in 0..r.range(1, 2) {
                match r.below(4) {
                    0 if it.len() > 1 => {
                        let k = r.below(it.len() as u64) as usize;
                        it.remove(k);
                    }
                    1 => {
                        let k = r.below(it.len() as u64) as usize;
                        let v = it[k].clone();
                        it.insert(k, v);
                    }
                    2 if it.len() > 1 => {
                        let a = r.below(it.len() as u64) as usize;
                        let b = r.below(it.len() as u64) as usize;
                        it.swap(a, b);
                    }
                    _ => {
                        let k = r.below(it.len() as u64) as usize;
                        it[k] = r.pick(&alphabet).clone();
                    }
                }
            }
            if legacy {
                let mut b = vec![];
                for x in &it {
                    crate::vm::push_data(&mut b, x);
                }
                cands.push((vec![], bitcoin::ScriptBuf::from_bytes(b)));
            } else {
                cands.push((it, ss.clone()));
            }
        }
    }
    // byte-level edits of single elements: signature length / sighash byte, and other spellings of
    // the same script (the chain commits to the script bytes, not to their meaning)
    if !items.is_empty() {
        let rebuild = |it: Vec<Vec<u8>>| -> (Vec<Vec<u8>>, bitcoin::ScriptBuf) {
            if legacy {
                let mut b = vec![];
                for x in &it {
                    crate::vm::push_data(&mut b, x);
                }
                (vec![], bitcoin::ScriptBuf::from_bytes(b))
            } else {
                (it, ss.clone())
            }
        };
        for k in 0..items.len() {
            let e = &items[k];
            let mut alts: Vec<Vec<u8>> = vec![];
            if e.len() == 64 {
                for b in [0x00u8, 0x01, 0x81] {
                    let mut v = e.clone();
                    v.push(b);
                    alts.push(v);
                }
            }
            if e.len() == 65 || (e.len() >= 70 && e.len() <= 73 && e[0] == 0x30) {
                let mut v = e.clone();
                v.pop();
                alts.push(v.clone());
                for b in [0x00u8, 0x02, 0x04, 0x80, 0x81] {
                    let mut u = v.clone();
                    u.push(b);
                    alts.push(u);
                }
            }
            for a in alts.into_iter().take(4) {
                let mut it = items.clone();
                it[k] = a;
                cands.push(rebuild(it));
            }
        }
        // the script element: last item (wsh, sh), or the one before a control block
        let n = items.len();
        let sk = if n >= 2 && items[n - 1].len() >= 33 && (items[n - 1].len() - 33) % 32 == 0 && items[n - 1][0] & 0xfe == 0xc0 { n - 2 } else { n - 1 };
        if matches!(kind, OutKind::Wsh | OutKind::ShWsh | OutKind::ShMs | OutKind::TrScript) {
            let script = items[sk].clone();
            // walk the instructions
            let mut pos = vec![];
            let mut j = 0;
            while j < script.len() {
                let op = script[j];
                let len = match op {
                    0x01..=0x4b => 1 + op as usize,
                    0x4c if j + 1 < script.len() => 2 + script[j + 1] as usize,
                    0x4d if j + 2 < script.len() => 3 + u16::from_le_bytes([script[j + 1], script[j + 2]]) as usize,
                    _ => 1,
                };
                pos.push((j, len));
                j += len;
            }
            let mut spellings: Vec<Vec<u8>> = vec![];
            for (o, l) in &pos {
                let op = script[*o];
                let two = match op {
                    0x88 => Some([0x87u8, 0x69]),
                    0x9d => Some([0x9c, 0x69]),
                    0xad => Some([0xac, 0x69]),
                    0xaf => Some([0xae, 0x69]),
                    _ => None,
                };
                if let Some(t) = two {
                    let mut v = script[..*o].to_vec();
                    v.extend_from_slice(&t);
                    v.extend_from_slice(&script[o + l..]);
                    spellings.push(v);
                }
                if (0x51..=0x60).contains(&op) {
                    // OP_n as a one-byte push
                    let mut v = script[..*o].to_vec();
                    v.extend_from_slice(&[0x01, op - 0x50]);
                    v.extend_from_slice(&script[o + l..]);
                    spellings.push(v);
                }
                if (0x01..=0x4b).contains(&op) && *l == 1 + op as usize {
                    // direct push as PUSHDATA1
                    let mut v = script[..*o].to_vec();
                    v.push(0x4c);
                    v.push(op);
                    v.extend_from_slice(&script[o + 1..]);
                    spellings.push(v);
                }
            }
            // one of each kind is enough per attempt: pick up to 6, spread over the script
            let step = (spellings.len() / 6).max(1);
            for sp in spellings.into_iter().step_by(step).take(6) {
                let mut it = items.clone();
                it[sk] = sp;
                cands.push(rebuild(it));
            }
        }
    }
    // scriptSig mutations for segwit spends (native: must stay empty; nested: exactly one push)
    if !legacy {
        let pushes = crate::vm::parse_pushes(ss.as_bytes()).unwrap_or_default();
        let mut variants: Vec<Vec<Vec<u8>>> = vec![];
        let mut a = pushes.clone();
        a.insert(0, vec![0x42; 4]);
        variants.push(a);
        let mut b = pushes.clone();
        if let Some(l) = pushes.last() {
            b.insert(0, l.clone());
        } else {
            b.push(vec![]);
        }
        variants.push(b);
        let mut c = pushes.clone();
        c.push(vec![1]);
        variants.push(c);
        for v in variants {
            let mut bytes = vec![];
            for x in &v {
                crate::vm::push_data(&mut bytes, x);
            }
            cands.push((wit.to_vec(), bitcoin::ScriptBuf::from_bytes(bytes)));
        }
        // non-minimal push of the same redeem script (PUSHDATA1)
        if let Some(l) = pushes.last() {
            if l.len() < 76 && pushes.len() == 1 {
                let mut bytes = vec![0x4c, l.len() as u8];
                bytes.extend_from_slice(l);
                cands.push((wit.to_vec(), bitcoin::ScriptBuf::from_bytes(bytes)));
            }
        }
    }
    for (wv, sv) in cands {
        let mut t = tx.clone();
        t.input[i].script_sig = sv;
        t.input[i].witness = Witness::from_slice(&wv);
        v1(w, actor, &t, i, "tampered");
        if !w.violations.is_empty() {
            return;
        }
    }
}
