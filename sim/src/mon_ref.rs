//! Monitors that need the reference satisfier R3: C02 (L1, L2), C03 (A1), C07 (P7).

use std::collections::BTreeSet;

use bitcoin::hashes::{hash160, sha256, Hash};
use bitcoin::psbt::Psbt;
use bitcoin::taproot::TapLeafHash;
use bitcoin::{ScriptBuf, Transaction};
use miniscript::descriptor::ShInner;
use miniscript::policy::{Liftable, Semantic};
use miniscript::{DefiniteDescriptorKey, Descriptor};

use crate::gen::OutKind;
use crate::keys::HashKind;
use crate::monitors::{exec_spend, guard, raise, raise_class, Produced};
use crate::refsat::{ref_taproot, Item, RefCtx, RefTaproot, RefWorld, Wit};
use crate::rng::{fnv, mix};
use crate::sim::{Env, World};
use crate::vm::{self, push_data, Flags};
use crate::wallet::{tx_satisfies_after, tx_satisfies_older, WorldSat};

pub fn ref_world(sat: &WorldSat, adversarial: bool) -> RefWorld {
    let mut sigs: BTreeSet<usize> = sat.ecdsa.keys().copied().collect();
    sigs.extend(sat.tap_key.keys().copied());
    RefWorld {
        sigs,
        leaf_sigs: sat.tap_script.keys().copied().collect(),
        preimages: sat.preimages.clone(),
        lock_time: sat.lock_time,
        sequence: sat.sequence,
        version: sat.version,
        adversarial,
    }
}

#[derive(Clone, Copy, PartialEq, Eq)]
enum KeyEnc {
    Full,
    XOnly,
}

fn concretize(env: &Env, sat: &WorldSat, w: &Wit, enc: KeyEnc, leaf: Option<TapLeafHash>) -> Option<Vec<Vec<u8>>> {
    let mut out = vec![];
    for it in &w.stack {
        out.push(match it {
            Item::Sig(k) => match leaf {
                Some(l) => sat.tap_script.get(&(*k, l))?.to_vec(),
                None => sat.ecdsa.get(k)?.to_vec(),
            },
            Item::Key(k) => match enc {
                KeyEnc::Full => env.uni.keys[*k].public.to_bytes(),
                KeyEnc::XOnly => env.uni.keys[*k].xonly.serialize().to_vec(),
            },
            Item::Pre(h) => env.uni.hashes[*h].preimage.to_vec(),
            Item::Zero32 => vec![0u8; 32],
            Item::Junk32 => vec![0x42u8; 32],
            Item::Empty => vec![],
            Item::One => vec![1],
        });
    }
    Some(out)
}

fn pushes(items: &[Vec<u8>]) -> ScriptBuf {
    let mut v = vec![];
    for i in items {
        push_data(&mut v, i);
    }
    ScriptBuf::from_bytes(v)
}

pub struct RefSpend {
    pub wit: Vec<Vec<u8>>,
    pub ss: ScriptBuf,
    pub canonical: bool,
    pub has_sig: bool,
}

pub struct RefResult {
    pub spends: Vec<RefSpend>,
    pub truncated: bool,
    pub unsupported: bool,
}

pub fn internal_key_bytes(env: &Env, tr: &miniscript::descriptor::Tr<DefiniteDescriptorKey>) -> Option<([u8; 32], Option<usize>)> {
    let s = tr.internal_key().to_string();
    if let Some(id) = env.by_expr.get(&s) {
        return Some((env.uni.keys[*id].xonly.serialize(), Some(*id)));
    }
    let b = crate::keys::unhex(&s)?;
    if b.len() == 32 {
        let mut a = [0u8; 32];
        a.copy_from_slice(&b);
        return Some((a, None));
    }
    None
}

pub fn ref_taproot_of(env: &Env, tr: &miniscript::descriptor::Tr<DefiniteDescriptorKey>) -> Option<(RefTaproot, Option<usize>)> {
    let (ik, id) = internal_key_bytes(env, tr)?;
    let leaves: Vec<(u8, Vec<u8>)> = tr.leaves().map(|l| (l.depth(), l.miniscript().encode().into_bytes())).collect();
    ref_taproot(ik, &leaves).map(|t| (t, id))
}

/// All spends R3 can build for the descriptor in `world` (bytes taken from `sat`).
pub fn ref_spends(env: &Env, desc: &Descriptor<DefiniteDescriptorKey>, sat: &WorldSat, world: &RefWorld) -> RefResult { ref_spends_ext(env, desc, sat, world, false) }

/// With `include_dis` the root dissatisfactions (witnesses that must make the script *fail*) are
/// returned as well; used to look for false accepts of the interpreter.
pub fn ref_spends_ext(env: &Env, desc: &Descriptor<DefiniteDescriptorKey>, sat: &WorldSat, world: &RefWorld, include_dis: bool) -> RefResult {
    let mut res = RefResult { spends: vec![], truncated: false, unsupported: false };
    let mut ctx = RefCtx { uni: &env.uni, by_expr: &env.by_expr, world, leaf: None, unsupported: false };
    let key_id = |k: &DefiniteDescriptorKey| env.by_expr.get(&k.to_string()).copied();
    match desc {
        Descriptor::Pkh(p) => {
            if let Some(id) = key_id(p.as_inner()) {
                if let Some(sig) = sat.ecdsa.get(&id) {
                    res.spends.push(RefSpend { wit: vec![], ss: pushes(&[sig.to_vec(), env.uni.keys[id].public.to_bytes()]), canonical: true, has_sig: true });
                }
            } else {
                res.unsupported = true;
            }
        }
        Descriptor::Wpkh(p) => {
            if let Some(id) = key_id(p.as_inner()) {
                if let Some(sig) = sat.ecdsa.get(&id) {
                    res.spends.push(RefSpend { wit: vec![sig.to_vec(), env.uni.keys[id].public.to_bytes()], ss: ScriptBuf::new(), canonical: true, has_sig: true });
                }
            } else {
                res.unsupported = true;
            }
        }
        Descriptor::Bare(b) => {
            let sd = ctx.eval(b.as_inner());
            res.truncated = sd.truncated;
            for w in sd.sat.iter().chain(sd.dis.iter().filter(|_| include_dis)) {
                if let Some(items) = concretize(env, sat, w, KeyEnc::Full, None) {
                    res.spends.push(RefSpend { wit: vec![], ss: pushes(&items), canonical: w.canonical, has_sig: w.has_sig });
                }
            }
        }
        Descriptor::Wsh(wsh) => {
            let ms = wsh.as_inner();
            let script = ms.encode().into_bytes();
            let sd = ctx.eval(ms);
            res.truncated = sd.truncated;
            for w in sd.sat.iter().chain(sd.dis.iter().filter(|_| include_dis)) {
                if let Some(mut items) = concretize(env, sat, w, KeyEnc::Full, None) {
                    items.push(script.clone());
                    res.spends.push(RefSpend { wit: items, ss: ScriptBuf::new(), canonical: w.canonical, has_sig: w.has_sig });
                }
            }
        }
        Descriptor::Sh(sh) => match sh.as_inner() {
            ShInner::Wpkh(p) => {
                if let Some(id) = key_id(p.as_inner()) {
                    if let Some(sig) = sat.ecdsa.get(&id) {
                        let pkb = env.uni.keys[id].public.to_bytes();
                        let mut redeem = vec![0x00, 0x14];
                        redeem.extend_from_slice(hash160::Hash::hash(&pkb).as_byte_array());
                        res.spends.push(RefSpend { wit: vec![sig.to_vec(), pkb], ss: pushes(&[redeem]), canonical: true, has_sig: true });
                    }
                } else {
                    res.unsupported = true;
                }
            }
            ShInner::Wsh(wsh) => {
                let ms = wsh.as_inner();
                let script = ms.encode().into_bytes();
                let mut redeem = vec![0x00, 0x20];
                redeem.extend_from_slice(sha256::Hash::hash(&script).as_byte_array());
                let sd = ctx.eval(ms);
                res.truncated = sd.truncated;
                for w in sd.sat.iter().chain(sd.dis.iter().filter(|_| include_dis)) {
                    if let Some(mut items) = concretize(env, sat, w, KeyEnc::Full, None) {
                        items.push(script.clone());
                        res.spends.push(RefSpend { wit: items, ss: pushes(&[redeem.clone()]), canonical: w.canonical, has_sig: w.has_sig });
                    }
                }
            }
            ShInner::Ms(ms) => {
                let script = ms.encode().into_bytes();
                let sd = ctx.eval(ms);
                res.truncated = sd.truncated;
                for w in sd.sat.iter().chain(sd.dis.iter().filter(|_| include_dis)) {
                    if let Some(mut items) = concretize(env, sat, w, KeyEnc::Full, None) {
                        items.push(script.clone());
                        res.spends.push(RefSpend { wit: vec![], ss: pushes(&items), canonical: w.canonical, has_sig: w.has_sig });
                    }
                }
            }
        },
        Descriptor::Tr(tr) => {
            let (rt, ik_id) = match ref_taproot_of(env, tr) {
                Some(x) => x,
                None => {
                    res.unsupported = true;
                    return res;
                }
            };
            if let Some(id) = ik_id {
                if let Some(sig) = sat.tap_key.get(&id) {
                    res.spends.push(RefSpend { wit: vec![sig.to_vec()], ss: ScriptBuf::new(), canonical: true, has_sig: true });
                }
            }
            for (li, leaf) in tr.leaves().enumerate() {
                let lh = TapLeafHash::from_byte_array(rt.leaves[li].leaf_hash);
                let mut lctx = RefCtx { uni: &env.uni, by_expr: &env.by_expr, world, leaf: Some(lh), unsupported: false };
                let sd = lctx.eval(&**leaf.miniscript());
                res.truncated |= sd.truncated;
                res.unsupported |= lctx.unsupported;
                let cb = rt.control_block(li);
                for w in sd.sat.iter().chain(sd.dis.iter().filter(|_| include_dis)) {
                    if let Some(mut items) = concretize(env, sat, w, KeyEnc::XOnly, Some(lh)) {
                        items.push(rt.leaves[li].script.clone());
                        items.push(cb.clone());
                        res.spends.push(RefSpend { wit: items, ss: ScriptBuf::new(), canonical: w.canonical, has_sig: w.has_sig });
                    }
                }
            }
        }
    }
    res.unsupported |= ctx.unsupported;
    res
}

// ---------------------------------------------------------------------------------------------
// R5: policy evaluator
// ---------------------------------------------------------------------------------------------

pub struct PolicyWorld<'a> {
    pub env: &'a Env,
    /// keys whose every signature slot is available
    pub keys: BTreeSet<usize>,
    pub preimages: &'a BTreeSet<usize>,
    pub lock_time: u32,
    pub sequence: u32,
    pub version: i32,
}

pub fn eval_policy(p: &Semantic<DefiniteDescriptorKey>, w: &PolicyWorld) -> bool {
    let hash = |kind: HashKind, d: &[u8]| w.env.uni.hashes.iter().any(|h| h.kind == kind && h.digest == d && w.preimages.contains(&h.id));
    match p {
        Semantic::Unsatisfiable => false,
        Semantic::Trivial => true,
        Semantic::Key(k) => w.env.by_expr.get(&k.to_string()).map(|id| w.keys.contains(id)).unwrap_or(false),
        Semantic::After(n) => tx_satisfies_after(w.lock_time, w.sequence, n.to_consensus_u32()),
        Semantic::Older(n) => tx_satisfies_older(w.version, w.sequence, n.to_consensus_u32()),
        Semantic::Sha256(h) => hash(HashKind::Sha256, h.as_byte_array()),
        Semantic::Hash256(h) => hash(HashKind::Hash256, h.as_byte_array()),
        Semantic::Ripemd160(h) => hash(HashKind::Ripemd160, h.as_byte_array()),
        Semantic::Hash160(h) => hash(HashKind::Hash160, h.as_byte_array()),
        Semantic::Thresh(t) => t.iter().filter(|s| eval_policy(s, w)).count() >= t.k(),
    }
}

/// `eval_policy` for a policy the library has already restricted to a sequence and lock time: the
/// locks that are left are met.
pub fn eval_policy_locks_met(p: &Semantic<DefiniteDescriptorKey>, w: &PolicyWorld) -> bool {
    match p {
        Semantic::After(_) | Semantic::Older(_) => true,
        Semantic::Thresh(t) => t.iter().filter(|s| eval_policy_locks_met(s, w)).count() >= t.k(),
        other => eval_policy(other, w),
    }
}

/// For every key of the descriptor: the signature slots it has, and whether the world holds all or
/// none of them. Returns (uniform, fully available keys).
fn key_uniformity(env: &Env, desc: &Descriptor<DefiniteDescriptorKey>, key_ids: &[usize], sat: &WorldSat) -> (bool, BTreeSet<usize>) {
    let mut full = BTreeSet::new();
    let mut uniform = true;
    match desc {
        Descriptor::Tr(tr) => {
            let ik = env.by_expr.get(&tr.internal_key().to_string()).copied();
            for k in key_ids {
                let mut slots = 0;
                let mut have = 0;
                if ik == Some(*k) {
                    slots += 1;
                    if sat.tap_key.contains_key(k) {
                        have += 1;
                    }
                }
                for leaf in tr.leaves() {
                    let mut occurs = false;
                    for pk in leaf.miniscript().iter_pk() {
                        if env.by_expr.get(&pk.to_string()) == Some(k) {
                            occurs = true;
                        }
                    }
                    if occurs {
                        slots += 1;
                        let lh = TapLeafHash::from_byte_array(vm::tapleaf_hash(0xc0, leaf.miniscript().encode().as_bytes()));
                        if sat.tap_script.contains_key(&(*k, lh)) {
                            have += 1;
                        }
                    }
                }
                if have == slots && slots > 0 {
                    full.insert(*k);
                } else if have != 0 {
                    uniform = false;
                }
            }
        }
        _ => {
            for k in key_ids {
                if sat.ecdsa.contains_key(k) {
                    full.insert(*k);
                }
            }
        }
    }
    (uniform, full)
}

fn hashes_of(env: &Env, text: &str) -> Vec<usize> { env.uni.hashes.iter().filter(|h| text.contains(&h.hex)).map(|h| h.id).collect() }

/// Does a standard spend of input `i` exist from exactly what the PSBT input holds (R3 validated by
/// R1)? None when R3 does not support the descriptor.
pub fn ref_exists_std(w: &mut World, psbt: &Psbt, i: usize) -> Option<bool> {
    let env = w.env.clone();
    let desc = env.inputs[i].desc.clone();
    let sat = WorldSat::from_psbt(&env.uni, &env.by_expr, psbt, i);
    let world = ref_world(&sat, false);
    let rr = ref_spends(&env, &desc, &sat, &world);
    if rr.unsupported {
        return None;
    }
    let tx = psbt.unsigned_tx.clone();
    let mut order: Vec<usize> = (0..rr.spends.len()).collect();
    order.sort_by_key(|k| (!rr.spends[*k].canonical, rr.spends[*k].wit.iter().map(|x| x.len()).sum::<usize>() + rr.spends[*k].ss.len()));
    for k in order.iter().take(12) {
        let s = &rr.spends[*k];
        w.stats.oracle_calls += 1;
        if exec_spend(w, &tx, i, &s.wit, &s.ss, Flags::STANDARD).is_ok() {
            return Some(true);
        }
    }
    Some(false)
}

pub fn check_reference(w: &mut World, actor: &str, psbt: &Psbt, i: usize, produced: &[Produced], ok: [bool; 6]) {
    let env = w.env.clone();
    let desc = env.inputs[i].desc.clone();
    let sat = WorldSat::from_psbt(&env.uni, &env.by_expr, psbt, i);
    let world = ref_world(&sat, false);
    let rr = ref_spends(&env, &desc, &sat, &world);
    if rr.unsupported {
        w.stats.probe("r3_unsupported");
        return;
    }
    let tx = psbt.unsigned_tx.clone();
    // ground truth: some R3 witness that R1 accepts (consensus rules: "makes the script succeed")
    let mut exists = false;
    let mut exists_std = false;
    let mut rejected = 0;
    let mut order: Vec<usize> = (0..rr.spends.len()).collect();
    order.sort_by_key(|k| (!rr.spends[*k].canonical, rr.spends[*k].wit.iter().map(|x| x.len()).sum::<usize>() + rr.spends[*k].ss.len()));
    for k in order.iter().take(12) {
        let s = &rr.spends[*k];
        w.stats.oracle_calls += 1;
        match exec_spend(w, &tx, i, &s.wit, &s.ss, Flags::CONSENSUS) {
            Ok(_) => {
                exists = true;
                if exec_spend(w, &tx, i, &s.wit, &s.ss, Flags::STANDARD).is_ok() {
                    exists_std = true;
                    break;
                }
            }
            Err(_) => rejected += 1,
        }
    }
    if rejected > 0 {
        w.stats.probe("r3_witness_rejected_by_r1");
    }
    let candidates = !rr.spends.is_empty();
    let sane = env.inputs[i].sane;
    let text = env.inputs[i].spec.text.clone();
    let kind = env.inputs[i].kind;
    let skel = crate::monitors::skeleton_hash(&text);
    let wc = crate::monitors::world_class(&sat);
    w.stats.cases.insert(mix(&[skel, wc, 0x5233]));
    if matches!(kind, OutKind::Wsh | OutKind::ShWsh | OutKind::ShMs | OutKind::TrScript) {
        w.stats.nontrivial_cases.insert(mix(&[skel, wc, 0x5233, exists as u64]));
    }
    if exists {
        w.stats.probe("r3_exists");
    } else {
        w.stats.probe("r3_none");
    }

    if w.mon.on("C02") {
        if exists_std {
            if !ok[1] {
                raise_class(w, "C02", "L2-mall", format!("L2-mall:{:?}:get_satisfaction_mall", kind), format!("a witness from the caller's assets exists (R3, accepted by R1) but get_satisfaction_mall failed: {}", text), actor);
            } else if !ok[3] {
                raise_class(w, "C02", "L2-mall", format!("L2-mall:{:?}:into_plan_mall", kind), format!("a witness from the caller's assets exists (R3, accepted by R1) but into_plan_mall/satisfy failed: {}", text), actor);
            } else if !ok[5] {
                raise_class(w, "C02", "L2-mall", format!("L2-mall:{:?}:psbt_satisfier", kind), format!("a witness from the signatures, preimages and locks in the PSBT exists (R3, accepted by R1) but get_satisfaction_mall over PsbtInputSatisfier failed (nLockTime={} nSequence={:#x}): {}", sat.lock_time, sat.sequence, text), actor);
            }
            let all_pre = hashes_of(&env, &text).iter().all(|h| sat.preimages.contains(h));
            if sane && all_pre {
                w.stats.probe("l2_nonmall_applicable");
                if !ok[0] {
                    raise_class(w, "C02", "L2-nonmall", format!("L2-nonmall:{:?}:get_satisfaction", kind), format!("sane descriptor, all preimages known, a witness exists (R3, accepted by R1) but get_satisfaction failed: {}", text), actor);
                } else if !ok[2] {
                    raise_class(w, "C02", "L2-nonmall", format!("L2-nonmall:{:?}:into_plan", kind), format!("sane descriptor, all preimages known, a witness exists but into_plan/satisfy failed: {}", text), actor);
                } else if !ok[4] {
                    raise_class(w, "C02", "L2-nonmall", format!("L2-nonmall:{:?}:psbt_satisfier", kind), format!("sane descriptor, all preimages known, a witness exists but get_satisfaction over PsbtInputSatisfier failed (nLockTime={} nSequence={:#x}): {}", sat.lock_time, sat.sequence, text), actor);
                }
            }
        }
    }

    if w.mon.on("C07") {
        // compare only in worlds where each key's signatures are all-or-nothing and R3's verdict is firm
        let (uniform, full) = key_uniformity(&env, &desc, &env.inputs[i].key_ids, &sat);
        let firm = exists || !candidates;
        if uniform && firm {
            let lifted = guard(w, "lift", actor, |_| desc.lift());
            if let Some(Ok(pol)) = lifted {
                let pw = PolicyWorld { env: &env, keys: full, preimages: &sat.preimages, lock_time: sat.lock_time, sequence: sat.sequence, version: sat.version };
                let pv = eval_policy(&pol, &pw);
                w.stats.probe(if pv { "p7_policy_true" } else { "p7_policy_false" });
                if pv != exists {
                    raise_class(
                        w,
                        "C07",
                        "P7",
                        format!("P7:{:?}:policy={}:exists={}", kind, pv, exists),
                        format!("lifted policy evaluates to {} but a witness from these assets {} (R3+R1): desc={} policy={}", pv, if exists { "exists" } else { "does not exist" }, text, pol),
                        actor,
                    );
                }
                // P7-filter: the same question put through the library's own way of evaluating a
                // policy at a given sequence and lock time (`at_age`, `at_lock_time`): what is left
                // after the restriction holds no unmet lock, so its locks count as met
                if w.violations.is_empty() {
                    let age = if (sat.version as u32) >= 2 { bitcoin::Sequence(sat.sequence).to_relative_lock_time().unwrap_or(bitcoin::relative::LockTime::ZERO) } else { bitcoin::relative::LockTime::ZERO };
                    let lt = if sat.sequence != 0xffff_ffff { bitcoin::absolute::LockTime::from_consensus(sat.lock_time) } else { bitcoin::absolute::LockTime::ZERO };
                    let p2 = pol.clone();
                    if let Some(restricted) = guard(w, "at_age/at_lock_time", actor, |_| p2.at_age(age).at_lock_time(lt)) {
                        let pw = PolicyWorld { env: &env, keys: key_uniformity(&env, &desc, &env.inputs[i].key_ids, &sat).1, preimages: &sat.preimages, lock_time: sat.lock_time, sequence: sat.sequence, version: sat.version };
                        let pf = eval_policy_locks_met(&restricted, &pw);
                        w.stats.probe(if pf { "p7_filtered_true" } else { "p7_filtered_false" });
                        if pf != exists {
                            raise_class(
                                w,
                                "C07",
                                "P7-filter",
                                format!("P7-filter:{:?}:policy={}:exists={}", kind, pf, exists),
                                format!("the lifted policy restricted with at_age({}) and at_lock_time({}) evaluates to {} but a witness from these assets {} (R3+R1): desc={} policy={} restricted={}", age, lt, pf, if exists { "exists" } else { "does not exist" }, text, pol, restricted),
                                actor,
                            );
                        }
                    }
                }
            } else {
                w.stats.probe("p7_lift_refused");
            }
        } else {
            w.stats.probe("p7_skipped");
        }
    }

    if w.mon.on("C03") && sane && ok[0] {
        if let Some(orig) = produced.iter().find(|p| p.label == "get_satisfaction") {
            attack(w, actor, &tx, i, &sat, &orig.wit, &orig.ss);
        }
    }
}

fn stack_items_of(kind: OutKind, wit: &[Vec<u8>], ss: &ScriptBuf) -> Option<(Vec<Vec<u8>>, usize)> {
    // (mutable items, number of trailing committed items)
    match kind {
        OutKind::Bare | OutKind::Pkh => vm::parse_pushes(ss.as_bytes()).map(|v| (v, 0)),
        OutKind::ShMs => vm::parse_pushes(ss.as_bytes()).map(|v| (v, 1)),
        OutKind::Wpkh | OutKind::ShWpkh => Some((wit.to_vec(), 0)),
        OutKind::Wsh | OutKind::ShWsh => Some((wit.to_vec(), 1)),
        OutKind::TrKey => Some((wit.to_vec(), 0)),
        OutKind::TrScript => Some((wit.to_vec(), if wit.len() >= 2 { 2 } else { 0 })),
    }
}

fn rebuild(kind: OutKind, items: Vec<Vec<u8>>, orig_ss: &ScriptBuf) -> (Vec<Vec<u8>>, ScriptBuf) {
    match kind {
        OutKind::Bare | OutKind::Pkh | OutKind::ShMs => (vec![], pushes(&items)),
        _ => (items, orig_ss.clone()),
    }
}

/// A1: search for a different witness a third party could get accepted.
fn attack(w: &mut World, actor: &str, tx: &Transaction, i: usize, sat: &WorldSat, orig_wit: &[Vec<u8>], orig_ss: &ScriptBuf) {
    let env = w.env.clone();
    let kind = env.inputs[i].kind;
    let desc = env.inputs[i].desc.clone();
    let text = env.inputs[i].spec.text.clone();
    let (orig_items, committed) = match stack_items_of(kind, orig_wit, orig_ss) {
        Some(x) => x,
        None => return,
    };
    let visible = |b: &[u8]| orig_items.iter().any(|it| it == b);
    // adversary's assets: signatures visible in the original, every preimage, every public key
    let mut adv = sat.clone();
    adv.ecdsa.retain(|_, s| visible(&s.to_vec()));
    adv.tap_key.retain(|_, s| visible(&s.to_vec()));
    adv.tap_script.retain(|_, s| visible(&s.to_vec()));
    adv.preimages = env.uni.hashes.iter().filter(|h| h.usable).map(|h| h.id).collect();
    let world = ref_world(&adv, true);
    let mut candidates: Vec<(Vec<Vec<u8>>, ScriptBuf, &'static str)> = vec![];
    // (a) everything R3 can build from the adversary's assets
    let rr = ref_spends(&env, &desc, &adv, &world);
    for s in rr.spends {
        candidates.push((s.wit, s.ss, "R3"));
    }
    // (c) the library's own malleable satisfier run with the adversary's assets
    if let Some(Ok((wit, ss))) = guard(w, "get_satisfaction_mall(adversary)", actor, |_| desc.get_satisfaction_mall(&adv)) {
        candidates.push((wit, ss, "lib-mall"));
    }
    // (b) seeded structural mutations of the original
    let n_mut = orig_items.len() - committed;
    let mut alphabet: Vec<Vec<u8>> = vec![vec![], vec![1], vec![2], vec![1, 0], vec![0; 32], vec![0x42; 20], vec![0x42; 32], vec![0x42; 33], vec![0x42; 64], vec![0x42; 65], vec![0x42; 72], vec![0x42; 1]];
    for h in &env.uni.hashes {
        alphabet.push(h.preimage.to_vec());
    }
    for k in &env.inputs[i].key_ids {
        alphabet.push(env.uni.keys[*k].public.to_bytes());
        alphabet.push(env.uni.keys[*k].xonly.serialize().to_vec());
    }
    // signature variants: other sighash byte, high-S form
    for it in &orig_items[..n_mut] {
        if it.len() >= 64 && it.len() <= 73 {
            let mut v = it.clone();
            let l = v.len();
            v[l - 1] ^= 0x80;
            alphabet.push(v);
            if it.len() == 64 {
                let mut v = it.clone();
                v.push(1);
                alphabet.push(v);
            }
            if it.len() == 65 {
                alphabet.push(it[..64].to_vec());
            }
            if it[0] == 0x30 {
                if let Some(h) = high_s_variant(it) {
                    alphabet.push(h);
                }
            }
        }
    }
    if n_mut > 0 || !orig_items.is_empty() {
        let seed = mix(&[env.run_seed, fnv(actor.as_bytes()), w.stats.attempts, i as u64]);
        let mut r = crate::rng::Rng::new(seed);
        let budget = 160;
        for _ in 0..budget {
            let mut items: Vec<Vec<u8>> = orig_items[..n_mut].to_vec();
            let ops = r.range(1, 3);
            for _ in 0..ops {
                match r.below(5) {
                    0 if !items.is_empty() => {
                        let k = r.below(items.len() as u64) as usize;
                        items.remove(k);
                    }
                    1 if !items.is_empty() => {
                        let k = r.below(items.len() as u64) as usize;
                        let v = items[k].clone();
                        items.insert(k, v);
                    }
                    2 if items.len() >= 2 => {
                        let a = r.below(items.len() as u64) as usize;
                        let b = r.below(items.len() as u64) as usize;
                        items.swap(a, b);
                    }
                    3 => {
                        let k = r.below(items.len() as u64 + 1) as usize;
                        items.insert(k, r.pick(&alphabet).clone());
                    }
                    _ if !items.is_empty() => {
                        let k = r.below(items.len() as u64) as usize;
                        items[k] = r.pick(&alphabet).clone();
                    }
                    _ => {}
                }
            }
            items.extend(orig_items[n_mut..].iter().cloned());
            let (wit, ss) = rebuild(kind, items, orig_ss);
            candidates.push((wit, ss, "mutation"));
        }
    }
    w.stats.probe("a1_cases");
    let skel = crate::monitors::skeleton_hash(&text);
    w.stats.nontrivial_cases.insert(mix(&[skel, crate::monitors::world_class(sat), 0xa1]));
    let mut seen: BTreeSet<u64> = BTreeSet::new();
    for (wit, ss, how) in candidates {
        if wit == orig_wit && ss == *orig_ss {
            continue;
        }
        let mut d = fnv(ss.as_bytes());
        for x in &wit {
            d = mix(&[d, fnv(x), x.len() as u64]);
        }
        if !seen.insert(d) {
            continue;
        }
        w.stats.oracle_calls += 1;
        if exec_spend(w, tx, i, &wit, &ss, Flags::STANDARD).is_ok() {
            let dup_leaf = kind == OutKind::TrScript
                && wit.len() == orig_wit.len()
                && wit.len() >= 2
                && wit[..wit.len() - 1] == orig_wit[..orig_wit.len() - 1]
                && wit[wit.len() - 1] != orig_wit[orig_wit.len() - 1];
            // one key under two names in the script (parity prefixes of one x-only key in tapscript,
            // compressed / uncompressed serialization before segwit): the duplicate-key rule compares
            // key expressions, the script compares keys
            let ids = &env.inputs[i].key_ids;
            let same_key_two_names = ids.iter().enumerate().any(|(a, ka)| {
                ids[..a].iter().any(|kb| {
                    ka != kb
                        && if kind == OutKind::TrScript {
                            env.uni.keys[*ka].xonly == env.uni.keys[*kb].xonly
                        } else {
                            env.uni.keys[*ka].public.inner == env.uni.keys[*kb].public.inner
                        }
                })
            });
            let how = if dup_leaf {
                "dup-leaf-control-block"
            } else if same_key_two_names {
                "same-key-two-names"
            } else {
                how
            };
            raise_class(
                w,
                "C03",
                "A1",
                format!("A1:{:?}:{}", kind, how),
                format!(
                    "a third party can replace the non-malleable satisfaction ({}): desc={} original witness={:?} scriptSig={:x} alternative witness={:?} scriptSig={:x}",
                    how,
                    text,
                    orig_wit.iter().map(|x| crate::keys::hex_of(x)).collect::<Vec<_>>(),
                    orig_ss,
                    wit.iter().map(|x| crate::keys::hex_of(x)).collect::<Vec<_>>(),
                    ss
                ),
                actor,
            );
            return;
        }
    }
}

fn high_s_variant(sig: &[u8]) -> Option<Vec<u8>> {
    use bitcoin::secp256k1::ecdsa::Signature;
    let ht = *sig.last()?;
    let s = Signature::from_der(&sig[..sig.len() - 1]).ok()?;
    let c = s.serialize_compact();
    let n: [u8; 32] = [0xFF, 0xFF, 0xFF, 0xFF, 0xFF, 0xFF, 0xFF, 0xFF, 0xFF, 0xFF, 0xFF, 0xFF, 0xFF, 0xFF, 0xFF, 0xFE, 0xBA, 0xAE, 0xDC, 0xE6, 0xAF, 0x48, 0xA0, 0x3B, 0xBF, 0xD2, 0x5E, 0x8C, 0xD0, 0x36, 0x41, 0x41];
    let mut out = [0u8; 32];
    let mut borrow = 0i32;
    for i in (0..32).rev() {
        let d = n[i] as i32 - c[32 + i] as i32 - borrow;
        if d < 0 {
            out[i] = (d + 256) as u8;
            borrow = 1;
        } else {
            out[i] = d as u8;
            borrow = 0;
        }
    }
    let enc = |v: &[u8]| {
        let mut v = v.to_vec();
        while v.len() > 1 && v[0] == 0 && v[1] & 0x80 == 0 {
            v.remove(0);
        }
        if v[0] & 0x80 != 0 {
            v.insert(0, 0);
        }
        v
    };
    let r = enc(&c[..32]);
    let sv = enc(&out);
    let mut der = vec![0x30, (4 + r.len() + sv.len()) as u8, 0x02, r.len() as u8];
    der.extend_from_slice(&r);
    der.push(0x02);
    der.push(sv.len() as u8);
    der.extend_from_slice(&sv);
    der.push(ht);
    Some(der)
}

/// The Byzantine relay on an actual broadcast: only applicable when every input was satisfied in
/// non-malleable mode on a sane descriptor; the probe-time attack above covers the general case.
pub fn relay_attack(w: &mut World, tx: &Transaction, _tampered: u64) {
    w.stats.probe("relay_saw_broadcast");
    let _ = tx;
}

/// L1/L3 bookkeeping at the end of a run.
pub fn liveness(w: &mut World) {
    if w.dec.quiesced {
        if w.stats.confirmed {
            w.stats.probe("l3_confirmed");
        } else {
            w.stats.probe("l3_not_confirmed");
        }
    }
}
