//! Monitors that need the reference satisfier R3: C02 (L2, L3), C03 (A1), C07 (P7).
use bitcoin::psbt::Psbt;
use bitcoin::Transaction;
use crate::monitors::Produced;
use crate::sim::World;
pub fn check_reference(_w: &mut World, _actor: &str, _psbt: &Psbt, _i: usize, _produced: &[Produced], _ok: [bool; 4]) {}
pub fn relay_attack(_w: &mut World, _tx: &Transaction, _tampered: u64) {}
pub fn liveness(_w: &mut World) {}
