//! R1: an independent Bitcoin Script interpreter (reference model).
//!
//! Written from BIP 16/65/66/68/112/141/143/147/341/342 and the documented behaviour of
//! Bitcoin Core's EvalScript / VerifyScript / policy.cpp. It does not use any code from
//! rust-miniscript. Trusted base: `bitcoin::sighash::SighashCache` (digests), `secp256k1`
//! (signature verification, tweak check), `bitcoin::hashes` (hash functions).

use bitcoin::hashes::{hash160, ripemd160, sha1, sha256, sha256d, Hash, HashEngine};
use bitcoin::secp256k1::{self, Secp256k1, VerifyOnly};
use bitcoin::sighash::{Annex, Prevouts, SighashCache};
use bitcoin::taproot::TapLeafHash;
use bitcoin::{Amount, Script, ScriptBuf, Transaction, TxOut};

pub const MAX_SCRIPT_ELEMENT_SIZE: usize = 520;
pub const MAX_OPS_PER_SCRIPT: usize = 201;
pub const MAX_PUBKEYS_PER_MULTISIG: i64 = 20;
pub const MAX_SCRIPT_SIZE: usize = 10_000;
pub const MAX_STACK_SIZE: usize = 1000;
pub const VALIDATION_WEIGHT_PER_SIGOP_PASSED: i64 = 50;
pub const VALIDATION_WEIGHT_OFFSET: i64 = 50;
pub const MAX_STANDARD_P2WSH_STACK_ITEMS: usize = 100;
pub const MAX_STANDARD_P2WSH_STACK_ITEM_SIZE: usize = 80;
pub const MAX_STANDARD_TAPSCRIPT_STACK_ITEM_SIZE: usize = 80;
pub const MAX_STANDARD_P2WSH_SCRIPT_SIZE: usize = 3600;
pub const MAX_STANDARD_SCRIPTSIG_SIZE: usize = 1650;
pub const MAX_P2SH_SIGOPS: usize = 15;

#[derive(Clone, Copy, Debug, PartialEq, Eq)]
pub struct Flags {
    // consensus
    pub p2sh: bool,
    pub dersig: bool,
    pub nulldummy: bool,
    pub cltv: bool,
    pub csv: bool,
    pub witness: bool,
    pub taproot: bool,
    // policy
    pub strictenc: bool,
    pub low_s: bool,
    pub sigpushonly: bool,
    pub minimaldata: bool,
    pub minimalif: bool,
    pub nullfail: bool,
    pub cleanstack: bool,
    pub witness_pubkeytype: bool,
    pub const_scriptcode: bool,
    pub discourage_upgradable_nops: bool,
    pub discourage_upgradable_witness_program: bool,
    pub discourage_upgradable_taproot_version: bool,
    pub discourage_op_success: bool,
    pub discourage_upgradable_pubkeytype: bool,
    /// policy.cpp input standardness limits (not script flags in Core, but part of
    /// "standardness rules of that output type").
    pub input_standardness: bool,
}

impl Flags {
    pub const CONSENSUS: Flags = Flags {
        p2sh: true,
        dersig: true,
        nulldummy: true,
        cltv: true,
        csv: true,
        witness: true,
        taproot: true,
        strictenc: false,
        low_s: false,
        sigpushonly: false,
        minimaldata: false,
        minimalif: false,
        nullfail: false,
        cleanstack: false,
        witness_pubkeytype: false,
        const_scriptcode: false,
        discourage_upgradable_nops: false,
        discourage_upgradable_witness_program: false,
        discourage_upgradable_taproot_version: false,
        discourage_op_success: false,
        discourage_upgradable_pubkeytype: false,
        input_standardness: false,
    };
    pub const STANDARD: Flags = Flags {
        p2sh: true,
        dersig: true,
        nulldummy: true,
        cltv: true,
        csv: true,
        witness: true,
        taproot: true,
        strictenc: true,
        low_s: true,
        sigpushonly: true,
        minimaldata: true,
        minimalif: true,
        nullfail: true,
        cleanstack: true,
        witness_pubkeytype: true,
        const_scriptcode: true,
        discourage_upgradable_nops: true,
        discourage_upgradable_witness_program: true,
        discourage_upgradable_taproot_version: true,
        discourage_op_success: true,
        discourage_upgradable_pubkeytype: true,
        input_standardness: true,
    };
}

#[derive(Clone, Debug, PartialEq, Eq)]
pub enum VmError {
    ScriptSize,
    PushSize,
    OpCount,
    StackSize,
    BadOpcode(u8),
    DisabledOpcode(u8),
    UnbalancedConditional,
    InvalidStackOperation,
    InvalidAltstackOperation,
    Verify,
    EqualVerify,
    NumEqualVerify,
    CheckSigVerify,
    CheckMultisigVerify,
    OpReturn,
    EvalFalse,
    ScriptNumOverflow,
    ScriptNumNonMinimal,
    MinimalData,
    MinimalIf,
    SigDer,
    SigHighS,
    SigHashType,
    PubkeyType,
    WitnessPubkeyType,
    NullFail,
    NullDummy,
    SigPushOnly,
    SigCount,
    PubkeyCount,
    NegativeLocktime,
    UnsatisfiedLocktime,
    CleanStack,
    DiscourageUpgradableNops,
    DiscourageUpgradableWitnessProgram,
    DiscourageUpgradableTaprootVersion,
    DiscourageOpSuccess,
    DiscourageUpgradablePubkeyType,
    WitnessProgramWrongLength,
    WitnessProgramWitnessEmpty,
    WitnessProgramMismatch,
    WitnessMalleated,
    WitnessMalleatedP2sh,
    WitnessUnexpected,
    TaprootWrongControlSize,
    TaprootCommitmentMismatch,
    SchnorrSigSize,
    SchnorrSigHashType,
    SchnorrSig,
    TapscriptValidationWeight,
    TapscriptCheckMultisig,
    TapscriptEmptyPubkey,
    SigFindAndDelete,
    SighashError(String),
    // standardness (policy.cpp)
    StdScriptSigSize,
    StdWitnessScriptSize,
    StdWitnessStackItems,
    StdWitnessStackItemSize,
    StdTapscriptStackItemSize,
    StdAnnex,
    StdP2shSigops,
    BadInputIndex,
}

#[derive(Clone, Debug, PartialEq, Eq)]
pub struct SigCheck {
    pub pubkey: Vec<u8>,
    pub sig: Vec<u8>,
    pub ok: bool,
}

#[derive(Clone, Debug, PartialEq, Eq)]
pub struct HashCheck {
    pub op: u8,
    pub preimage: Vec<u8>,
    pub digest: Vec<u8>,
    /// a later EQUAL / EQUALVERIFY compared this digest with an equal value (the script's committed
    /// hash): only then has the path "checked a preimage"
    pub matched: bool,
}

/// What happened during the execution of the last (innermost) script.
#[derive(Clone, Debug, Default, PartialEq, Eq)]
pub struct ExecTrace {
    /// opcode count the way Core counts it for the innermost script (all non-push opcodes
    /// seen, plus the key count of every executed CHECKMULTISIG)
    pub op_count: usize,
    /// peak (stack + altstack) size seen during the innermost script, including initial stack
    pub max_stack: usize,
    /// number of non-push opcodes actually executed (inside taken branches)
    pub executed_ops: usize,
    pub sig_checks: Vec<SigCheck>,
    pub hash_checks: Vec<HashCheck>,
    pub cltv: Vec<i64>,
    pub csv: Vec<i64>,
    pub sigops_passed: usize,
    /// which kind of spend was verified
    pub kind: SpendKind,
    /// the initial stack size handed to the innermost script
    pub initial_stack: usize,
}

#[derive(Clone, Copy, Debug, Default, PartialEq, Eq)]
pub enum SpendKind {
    #[default]
    Bare,
    P2sh,
    P2wpkh,
    P2wsh,
    P2shP2wpkh,
    P2shP2wsh,
    TapKey,
    TapScript,
    UnknownWitness,
}

#[derive(Clone, Copy, PartialEq, Eq, Debug)]
enum SigVersion {
    Base,
    WitnessV0,
    Tapscript,
}

pub struct TxCtx<'a> {
    pub tx: &'a Transaction,
    pub index: usize,
    pub prevouts: &'a [TxOut],
    pub secp: &'a Secp256k1<VerifyOnly>,
}

struct ExecData {
    tapleaf_hash: Option<TapLeafHash>,
    codesep_pos: u32,
    annex: Option<Vec<u8>>,
    validation_weight_left: i64,
    validation_weight_init: bool,
}

// ---------------------------------------------------------------------------------------------
// script parsing
// ---------------------------------------------------------------------------------------------

#[derive(Clone, Debug, PartialEq, Eq)]
pub struct Instr<'a> {
    pub opcode: u8,
    pub data: Option<&'a [u8]>,
    pub pos: usize,
}

/// Decode next instruction at `pc`. Returns None on a truncated push.
pub fn next_instr<'a>(script: &'a [u8], pc: &mut usize) -> Option<Instr<'a>> {
    let pos = *pc;
    let opcode = script[*pc];
    *pc += 1;
    let len = match opcode {
        0x01..=0x4b => opcode as usize,
        0x4c => {
            if *pc + 1 > script.len() {
                return None;
            }
            let l = script[*pc] as usize;
            *pc += 1;
            l
        }
        0x4d => {
            if *pc + 2 > script.len() {
                return None;
            }
            let l = u16::from_le_bytes([script[*pc], script[*pc + 1]]) as usize;
            *pc += 2;
            l
        }
        0x4e => {
            if *pc + 4 > script.len() {
                return None;
            }
            let l = u32::from_le_bytes([script[*pc], script[*pc + 1], script[*pc + 2], script[*pc + 3]]) as usize;
            *pc += 4;
            l
        }
        _ => return Some(Instr { opcode, data: None, pos }),
    };
    if *pc + len > script.len() {
        return None;
    }
    let d = &script[*pc..*pc + len];
    *pc += len;
    Some(Instr { opcode, data: Some(d), pos })
}

pub fn is_push_only(script: &[u8]) -> bool {
    let mut pc = 0;
    while pc < script.len() {
        match next_instr(script, &mut pc) {
            None => return false,
            Some(i) => {
                if i.opcode > 0x60 {
                    return false;
                }
            }
        }
    }
    true
}

fn is_op_success(op: u8) -> bool {
    op == 80
        || op == 98
        || (126..=129).contains(&op)
        || (131..=134).contains(&op)
        || (137..=138).contains(&op)
        || (141..=142).contains(&op)
        || (149..=153).contains(&op)
        || (187..=254).contains(&op)
}

/// (version, program) if the script is a witness program.
pub fn witness_program(spk: &[u8]) -> Option<(u8, &[u8])> {
    if spk.len() < 4 || spk.len() > 42 {
        return None;
    }
    let v = spk[0];
    if v != 0 && !(0x51..=0x60).contains(&v) {
        return None;
    }
    if spk[1] as usize + 2 == spk.len() && (2..=40).contains(&(spk[1] as usize)) {
        let ver = if v == 0 { 0 } else { v - 0x50 };
        Some((ver, &spk[2..]))
    } else {
        None
    }
}

pub fn is_p2sh(spk: &[u8]) -> bool { spk.len() == 23 && spk[0] == 0xa9 && spk[1] == 0x14 && spk[22] == 0x87 }

/// Build the minimal push of `data`.
pub fn push_data(out: &mut Vec<u8>, data: &[u8]) {
    let n = data.len();
    if n == 0 {
        out.push(0x00);
    } else if n == 1 && (1..=16).contains(&data[0]) {
        out.push(0x50 + data[0]);
    } else if n == 1 && data[0] == 0x81 {
        out.push(0x4f);
    } else if n <= 75 {
        out.push(n as u8);
        out.extend_from_slice(data);
    } else if n <= 255 {
        out.push(0x4c);
        out.push(n as u8);
        out.extend_from_slice(data);
    } else if n <= 65535 {
        out.push(0x4d);
        out.extend_from_slice(&(n as u16).to_le_bytes());
        out.extend_from_slice(data);
    } else {
        out.push(0x4e);
        out.extend_from_slice(&(n as u32).to_le_bytes());
        out.extend_from_slice(data);
    }
}

/// Parse a push-only script into its stack items (used by mutators, not by the VM itself).
pub fn parse_pushes(script: &[u8]) -> Option<Vec<Vec<u8>>> {
    let mut out = vec![];
    let mut pc = 0;
    while pc < script.len() {
        let i = next_instr(script, &mut pc)?;
        match i.opcode {
            0x00 => out.push(vec![]),
            0x01..=0x4e => out.push(i.data.unwrap().to_vec()),
            0x4f => out.push(vec![0x81]),
            0x51..=0x60 => out.push(vec![i.opcode - 0x50]),
            _ => return None,
        }
    }
    Some(out)
}

// ---------------------------------------------------------------------------------------------
// script numbers / booleans
// ---------------------------------------------------------------------------------------------

fn cast_to_bool(v: &[u8]) -> bool {
    for (i, b) in v.iter().enumerate() {
        if *b != 0 {
            // negative zero
            if i == v.len() - 1 && *b == 0x80 {
                return false;
            }
            return true;
        }
    }
    false
}

fn script_num(v: &[u8], require_minimal: bool, max_size: usize) -> Result<i64, VmError> {
    if v.len() > max_size {
        return Err(VmError::ScriptNumOverflow);
    }
    if require_minimal && !v.is_empty() {
        if v[v.len() - 1] & 0x7f == 0 {
            if v.len() <= 1 || v[v.len() - 2] & 0x80 == 0 {
                return Err(VmError::ScriptNumNonMinimal);
            }
        }
    }
    if v.is_empty() {
        return Ok(0);
    }
    let mut result: i64 = 0;
    for (i, b) in v.iter().enumerate() {
        result |= (*b as i64) << (8 * i);
    }
    if v[v.len() - 1] & 0x80 != 0 {
        Ok(-(result & !(0x80i64 << (8 * (v.len() - 1)))))
    } else {
        Ok(result)
    }
}

pub fn num_to_vec(n: i64) -> Vec<u8> {
    if n == 0 {
        return vec![];
    }
    let neg = n < 0;
    let mut abs = n.unsigned_abs();
    let mut out = vec![];
    while abs > 0 {
        out.push((abs & 0xff) as u8);
        abs >>= 8;
    }
    if out[out.len() - 1] & 0x80 != 0 {
        out.push(if neg { 0x80 } else { 0 });
    } else if neg {
        let l = out.len();
        out[l - 1] |= 0x80;
    }
    out
}

fn check_minimal_push(data: &[u8], opcode: u8) -> bool {
    if data.is_empty() {
        return opcode == 0x00;
    }
    if data.len() == 1 && (1..=16).contains(&data[0]) {
        return false; // should have used OP_1..OP_16
    }
    if data.len() == 1 && data[0] == 0x81 {
        return false; // should have used OP_1NEGATE
    }
    if data.len() <= 75 {
        return opcode as usize == data.len();
    }
    if data.len() <= 255 {
        return opcode == 0x4c;
    }
    if data.len() <= 65535 {
        return opcode == 0x4d;
    }
    true
}

// ---------------------------------------------------------------------------------------------
// signature encoding checks
// ---------------------------------------------------------------------------------------------

fn is_valid_signature_encoding(sig: &[u8]) -> bool {
    // Format: 0x30 [total-length] 0x02 [R-length] [R] 0x02 [S-length] [S] [sighash]
    if sig.len() < 9 || sig.len() > 73 {
        return false;
    }
    if sig[0] != 0x30 {
        return false;
    }
    if sig[1] as usize != sig.len() - 3 {
        return false;
    }
    let len_r = sig[3] as usize;
    if 5 + len_r >= sig.len() {
        return false;
    }
    let len_s = sig[5 + len_r] as usize;
    if len_r + len_s + 7 != sig.len() {
        return false;
    }
    if sig[2] != 0x02 {
        return false;
    }
    if len_r == 0 {
        return false;
    }
    if sig[4] & 0x80 != 0 {
        return false;
    }
    if len_r > 1 && sig[4] == 0x00 && sig[5] & 0x80 == 0 {
        return false;
    }
    if sig[len_r + 4] != 0x02 {
        return false;
    }
    if len_s == 0 {
        return false;
    }
    if sig[len_r + 6] & 0x80 != 0 {
        return false;
    }
    if len_s > 1 && sig[len_r + 6] == 0x00 && sig[len_r + 7] & 0x80 == 0 {
        return false;
    }
    true
}

fn is_low_der_signature(sig: &[u8]) -> Result<bool, VmError> {
    if !is_valid_signature_encoding(sig) {
        return Err(VmError::SigDer);
    }
    let der = &sig[..sig.len() - 1];
    let parsed = secp256k1::ecdsa::Signature::from_der_lax(der).map_err(|_| VmError::SigDer)?;
    let mut norm = parsed;
    norm.normalize_s();
    Ok(norm == parsed)
}

fn is_defined_hashtype(sig: &[u8]) -> bool {
    if sig.is_empty() {
        return false;
    }
    let t = sig[sig.len() - 1] & !0x80;
    (1..=3).contains(&t)
}

fn check_signature_encoding(sig: &[u8], flags: &Flags) -> Result<(), VmError> {
    if sig.is_empty() {
        return Ok(());
    }
    if (flags.dersig || flags.low_s || flags.strictenc) && !is_valid_signature_encoding(sig) {
        return Err(VmError::SigDer);
    }
    if flags.low_s && !is_low_der_signature(sig)? {
        return Err(VmError::SigHighS);
    }
    if flags.strictenc && !is_defined_hashtype(sig) {
        return Err(VmError::SigHashType);
    }
    Ok(())
}

fn is_compressed_or_uncompressed_pubkey(pk: &[u8]) -> bool {
    if pk.len() < 33 {
        return false;
    }
    match pk[0] {
        0x04 => pk.len() == 65,
        0x02 | 0x03 => pk.len() == 33,
        _ => false,
    }
}

fn is_compressed_pubkey(pk: &[u8]) -> bool { pk.len() == 33 && (pk[0] == 0x02 || pk[0] == 0x03) }

fn check_pubkey_encoding(pk: &[u8], flags: &Flags, sv: SigVersion) -> Result<(), VmError> {
    if flags.strictenc && !is_compressed_or_uncompressed_pubkey(pk) {
        return Err(VmError::PubkeyType);
    }
    if flags.witness_pubkeytype && sv == SigVersion::WitnessV0 && !is_compressed_pubkey(pk) {
        return Err(VmError::WitnessPubkeyType);
    }
    Ok(())
}

// ---------------------------------------------------------------------------------------------
// the evaluator
// ---------------------------------------------------------------------------------------------

fn find_and_delete(script: &[u8], pattern: &[u8]) -> (Vec<u8>, usize) {
    // Core's FindAndDelete works at opcode boundaries.
    if pattern.is_empty() {
        return (script.to_vec(), 0);
    }
    let mut out = Vec::with_capacity(script.len());
    let mut found = 0;
    let mut pc = 0;
    let mut last = 0;
    loop {
        out.extend_from_slice(&script[last..pc]);
        while script.len() - pc >= pattern.len() && &script[pc..pc + pattern.len()] == pattern {
            pc += pattern.len();
            found += 1;
        }
        last = pc;
        if pc >= script.len() {
            break;
        }
        if next_instr(script, &mut pc).is_none() {
            // undecodable tail: copy rest
            pc = script.len();
            out.extend_from_slice(&script[last..pc]);
            break;
        }
    }
    (out, found)
}

struct Evaluator<'a, 'b> {
    ctx: &'a TxCtx<'b>,
    flags: Flags,
    sv: SigVersion,
    exec: &'a mut ExecData,
    trace: &'a mut ExecTrace,
}

impl<'a, 'b> Evaluator<'a, 'b> {
    fn check_ecdsa(&mut self, sig: &[u8], pk: &[u8], script_code: &[u8]) -> Result<bool, VmError> {
        // CheckECDSASignature
        let ok = (|| -> Result<bool, VmError> {
            if sig.is_empty() {
                return Ok(false);
            }
            let pubkey = match secp256k1::PublicKey::from_slice(pk) {
                Ok(p) => p,
                Err(_) => return Ok(false),
            };
            // hybrid keys (0x06/0x07) parse in libsecp; Core's CPubKey accepts them too unless STRICTENC
            let hashtype = sig[sig.len() - 1] as u32;
            let der = &sig[..sig.len() - 1];
            let mut parsed = match secp256k1::ecdsa::Signature::from_der_lax(der) {
                Ok(s) => s,
                Err(_) => return Ok(false),
            };
            parsed.normalize_s();
            let cache = SighashCache::new(self.ctx.tx);
            let digest: [u8; 32] = match self.sv {
                SigVersion::Base => {
                    let sc = Script::from_bytes(script_code);
                    match cache.legacy_signature_hash(self.ctx.index, sc, hashtype) {
                        Ok(h) => h.to_byte_array(),
                        Err(e) => return Err(VmError::SighashError(format!("{e}"))),
                    }
                }
                SigVersion::WitnessV0 => {
                    let sc = Script::from_bytes(script_code);
                    let value: Amount = self.ctx.prevouts[self.ctx.index].value;
                    segwit_v0_sighash(self.ctx.tx, self.ctx.index, sc, value, hashtype)
                }
                SigVersion::Tapscript => unreachable!(),
            };
            let msg = secp256k1::Message::from_digest(digest);
            Ok(self.ctx.secp.verify_ecdsa(&msg, &parsed, &pubkey).is_ok())
        })()?;
        self.trace.sig_checks.push(SigCheck { pubkey: pk.to_vec(), sig: sig.to_vec(), ok });
        if ok {
            self.trace.sigops_passed += 1;
        }
        Ok(ok)
    }

    fn check_schnorr(&mut self, sig: &[u8], pk: &[u8], key_path: bool) -> Result<(), VmError> {
        // CheckSchnorrSignature: returns Err on any failure (hard failure)
        if sig.len() != 64 && sig.len() != 65 {
            return Err(VmError::SchnorrSigSize);
        }
        let mut hashtype = 0u8;
        if sig.len() == 65 {
            hashtype = sig[64];
            if hashtype == 0 {
                return Err(VmError::SchnorrSigHashType);
            }
        }
        if !(hashtype <= 0x03 || (0x81..=0x83).contains(&hashtype)) {
            return Err(VmError::SchnorrSigHashType);
        }
        let ty = bitcoin::sighash::TapSighashType::from_consensus_u8(hashtype).map_err(|_| VmError::SchnorrSigHashType)?;
        let mut cache = SighashCache::new(self.ctx.tx);
        let prevouts = Prevouts::All(self.ctx.prevouts);
        let annex = match &self.exec.annex {
            Some(a) => Some(Annex::new(a).map_err(|e| VmError::SighashError(format!("{e}")))?),
            None => None,
        };
        let leaf = if key_path { None } else { Some((self.exec.tapleaf_hash.expect("leaf hash set"), self.exec.codesep_pos)) };
        let h = cache
            .taproot_signature_hash(self.ctx.index, &prevouts, annex, leaf, ty)
            .map_err(|e| VmError::SighashError(format!("{e}")))?;
        let msg = secp256k1::Message::from_digest(h.to_byte_array());
        let xpk = secp256k1::XOnlyPublicKey::from_slice(pk).map_err(|_| VmError::SchnorrSig)?;
        let s = secp256k1::schnorr::Signature::from_slice(&sig[..64]).map_err(|_| VmError::SchnorrSig)?;
        let ok = self.ctx.secp.verify_schnorr(&s, &msg, &xpk).is_ok();
        self.trace.sig_checks.push(SigCheck { pubkey: pk.to_vec(), sig: sig.to_vec(), ok });
        if !ok {
            return Err(VmError::SchnorrSig);
        }
        self.trace.sigops_passed += 1;
        Ok(())
    }

    /// EvalChecksig for all sig versions. Returns success flag.
    fn eval_checksig(&mut self, sig: &[u8], pk: &[u8], script: &[u8], codesep_begin: usize) -> Result<bool, VmError> {
        match self.sv {
            SigVersion::Base | SigVersion::WitnessV0 => {
                let mut script_code = script[codesep_begin..].to_vec();
                if self.sv == SigVersion::Base {
                    let mut pat = vec![];
                    push_data(&mut pat, sig);
                    // Core serialises the signature with a plain push (CScript() << vchSig), which for
                    // 1-byte values differs from push_data's OP_N form, but signatures are never 1 byte
                    // with value 1..16 in any case that matters.
                    let (sc, found) = find_and_delete(&script_code, &pat);
                    if found > 0 && self.flags.const_scriptcode {
                        return Err(VmError::SigFindAndDelete);
                    }
                    script_code = sc;
                }
                check_signature_encoding(sig, &self.flags)?;
                check_pubkey_encoding(pk, &self.flags, self.sv)?;
                let ok = self.check_ecdsa(sig, pk, &script_code)?;
                if !ok && self.flags.nullfail && !sig.is_empty() {
                    return Err(VmError::NullFail);
                }
                Ok(ok)
            }
            SigVersion::Tapscript => {
                let success = !sig.is_empty();
                if success {
                    self.exec.validation_weight_left -= VALIDATION_WEIGHT_PER_SIGOP_PASSED;
                    if self.exec.validation_weight_left < 0 {
                        return Err(VmError::TapscriptValidationWeight);
                    }
                }
                if pk.is_empty() {
                    return Err(VmError::TapscriptEmptyPubkey);
                } else if pk.len() == 32 {
                    if success {
                        self.check_schnorr(sig, pk, false)?;
                    }
                } else if self.flags.discourage_upgradable_pubkeytype {
                    return Err(VmError::DiscourageUpgradablePubkeyType);
                }
                Ok(success)
            }
        }
    }

    fn eval(&mut self, script: &[u8], stack: &mut Vec<Vec<u8>>) -> Result<(), VmError> {
        let flags = self.flags;
        let sv = self.sv;
        if (sv == SigVersion::Base || sv == SigVersion::WitnessV0) && script.len() > MAX_SCRIPT_SIZE {
            return Err(VmError::ScriptSize);
        }
        let require_minimal = flags.minimaldata;
        let mut altstack: Vec<Vec<u8>> = vec![];
        let mut vf_exec: Vec<bool> = vec![];
        let mut op_count: usize = 0;
        let mut executed_ops: usize = 0;
        let mut codesep_begin: usize = 0;
        let mut pc = 0usize;
        let mut opcode_pos: u32 = 0;
        self.exec.codesep_pos = 0xFFFF_FFFF;
        self.trace.initial_stack = stack.len();
        let mut max_stack = stack.len();

        macro_rules! pop {
            () => {
                stack.pop().ok_or(VmError::InvalidStackOperation)?
            };
        }
        macro_rules! top {
            ($i:expr) => {{
                let n: usize = $i;
                if stack.len() < n {
                    return Err(VmError::InvalidStackOperation);
                }
                &stack[stack.len() - n]
            }};
        }

        while pc < script.len() {
            let f_exec = vf_exec.iter().all(|b| *b);
            let instr = next_instr(script, &mut pc).ok_or(VmError::BadOpcode(0xff))?;
            let opcode = instr.opcode;
            if let Some(d) = instr.data {
                if d.len() > MAX_SCRIPT_ELEMENT_SIZE {
                    return Err(VmError::PushSize);
                }
            }
            if sv == SigVersion::Base || sv == SigVersion::WitnessV0 {
                if opcode > 0x60 {
                    op_count += 1;
                    if op_count > MAX_OPS_PER_SCRIPT {
                        return Err(VmError::OpCount);
                    }
                }
            } else if opcode > 0x60 {
                op_count += 1;
            }
            // disabled opcodes
            match opcode {
                0x7e | 0x7f | 0x80 | 0x81 | 0x83 | 0x84 | 0x85 | 0x86 | 0x8d | 0x8e | 0x95 | 0x96 | 0x97 | 0x98 | 0x99 => {
                    return Err(VmError::DisabledOpcode(opcode));
                }
                _ => {}
            }
            if opcode == 0xab && sv == SigVersion::Base && flags.const_scriptcode {
                return Err(VmError::SigFindAndDelete);
            }

            if f_exec && opcode <= 0x4e {
                let d = instr.data.unwrap_or(&[]);
                if require_minimal && !check_minimal_push(d, opcode) {
                    return Err(VmError::MinimalData);
                }
                stack.push(d.to_vec());
            } else if f_exec || (0x63..=0x68).contains(&opcode) {
                if f_exec && opcode > 0x60 {
                    executed_ops += 1;
                }
                match opcode {
                    0x4f => stack.push(vec![0x81]),
                    0x51..=0x60 => stack.push(vec![opcode - 0x50]),
                    0x61 => {} // NOP
                    0xb1 => {
                        // CLTV
                        if !flags.cltv {
                            if flags.discourage_upgradable_nops {
                                return Err(VmError::DiscourageUpgradableNops);
                            }
                        } else {
                            let n = script_num(top!(1), require_minimal, 5)?;
                            if n < 0 {
                                return Err(VmError::NegativeLocktime);
                            }
                            self.trace.cltv.push(n);
                            if !check_lock_time(self.ctx, n) {
                                return Err(VmError::UnsatisfiedLocktime);
                            }
                        }
                    }
                    0xb2 => {
                        // CSV
                        if !flags.csv {
                            if flags.discourage_upgradable_nops {
                                return Err(VmError::DiscourageUpgradableNops);
                            }
                        } else {
                            let n = script_num(top!(1), require_minimal, 5)?;
                            if n < 0 {
                                return Err(VmError::NegativeLocktime);
                            }
                            self.trace.csv.push(n);
                            if (n as u64) & (1u64 << 31) == 0 && !check_sequence(self.ctx, n) {
                                return Err(VmError::UnsatisfiedLocktime);
                            }
                        }
                    }
                    0xb0 | 0xb3..=0xb9 => {
                        if flags.discourage_upgradable_nops {
                            return Err(VmError::DiscourageUpgradableNops);
                        }
                    }
                    0x63 | 0x64 => {
                        // IF / NOTIF
                        let mut value = false;
                        if f_exec {
                            let v = pop!();
                            if sv == SigVersion::Tapscript {
                                if v.len() > 1 || (v.len() == 1 && v[0] != 1) {
                                    return Err(VmError::MinimalIf);
                                }
                            }
                            if sv == SigVersion::WitnessV0 && flags.minimalif {
                                if v.len() > 1 || (v.len() == 1 && v[0] != 1) {
                                    return Err(VmError::MinimalIf);
                                }
                            }
                            value = cast_to_bool(&v);
                            if opcode == 0x64 {
                                value = !value;
                            }
                        }
                        vf_exec.push(value);
                    }
                    0x67 => {
                        let l = vf_exec.len();
                        if l == 0 {
                            return Err(VmError::UnbalancedConditional);
                        }
                        vf_exec[l - 1] = !vf_exec[l - 1];
                    }
                    0x68 => {
                        if vf_exec.pop().is_none() {
                            return Err(VmError::UnbalancedConditional);
                        }
                    }
                    0x65 | 0x66 => return Err(VmError::BadOpcode(opcode)), // VERIF/VERNOTIF (always invalid)
                    0x69 => {
                        let v = pop!();
                        if !cast_to_bool(&v) {
                            return Err(VmError::Verify);
                        }
                    }
                    0x6a => return Err(VmError::OpReturn),
                    0x6b => {
                        let v = pop!();
                        altstack.push(v);
                    }
                    0x6c => {
                        let v = altstack.pop().ok_or(VmError::InvalidAltstackOperation)?;
                        stack.push(v);
                    }
                    0x6d => {
                        pop!();
                        pop!();
                    }
                    0x6e => {
                        let a = top!(2).clone();
                        let b = top!(1).clone();
                        stack.push(a);
                        stack.push(b);
                    }
                    0x6f => {
                        let a = top!(3).clone();
                        let b = top!(2).clone();
                        let c = top!(1).clone();
                        stack.push(a);
                        stack.push(b);
                        stack.push(c);
                    }
                    0x70 => {
                        let a = top!(4).clone();
                        let b = top!(3).clone();
                        stack.push(a);
                        stack.push(b);
                    }
                    0x71 => {
                        if stack.len() < 6 {
                            return Err(VmError::InvalidStackOperation);
                        }
                        let l = stack.len();
                        let a = stack.remove(l - 6);
                        let b = stack.remove(l - 6);
                        stack.push(a);
                        stack.push(b);
                    }
                    0x72 => {
                        if stack.len() < 4 {
                            return Err(VmError::InvalidStackOperation);
                        }
                        let l = stack.len();
                        stack.swap(l - 4, l - 2);
                        stack.swap(l - 3, l - 1);
                    }
                    0x73 => {
                        let v = top!(1).clone();
                        if cast_to_bool(&v) {
                            stack.push(v);
                        }
                    }
                    0x74 => {
                        let n = stack.len() as i64;
                        stack.push(num_to_vec(n));
                    }
                    0x75 => {
                        pop!();
                    }
                    0x76 => {
                        let v = top!(1).clone();
                        stack.push(v);
                    }
                    0x77 => {
                        if stack.len() < 2 {
                            return Err(VmError::InvalidStackOperation);
                        }
                        let l = stack.len();
                        stack.remove(l - 2);
                    }
                    0x78 => {
                        let v = top!(2).clone();
                        stack.push(v);
                    }
                    0x79 | 0x7a => {
                        if stack.len() < 2 {
                            return Err(VmError::InvalidStackOperation);
                        }
                        let n = script_num(&pop!(), require_minimal, 4)?;
                        if n < 0 || n as usize >= stack.len() {
                            return Err(VmError::InvalidStackOperation);
                        }
                        let idx = stack.len() - 1 - n as usize;
                        let v = stack[idx].clone();
                        if opcode == 0x7a {
                            stack.remove(idx);
                        }
                        stack.push(v);
                    }
                    0x7b => {
                        if stack.len() < 3 {
                            return Err(VmError::InvalidStackOperation);
                        }
                        let l = stack.len();
                        let v = stack.remove(l - 3);
                        stack.push(v);
                    }
                    0x7c => {
                        if stack.len() < 2 {
                            return Err(VmError::InvalidStackOperation);
                        }
                        let l = stack.len();
                        stack.swap(l - 2, l - 1);
                    }
                    0x7d => {
                        if stack.len() < 2 {
                            return Err(VmError::InvalidStackOperation);
                        }
                        let v = top!(1).clone();
                        let l = stack.len();
                        stack.insert(l - 2, v);
                    }
                    0x82 => {
                        let n = top!(1).len() as i64;
                        stack.push(num_to_vec(n));
                    }
                    0x87 | 0x88 => {
                        let a = pop!();
                        let b = pop!();
                        let eq = a == b;
                        if eq {
                            if let Some(h) = self.trace.hash_checks.iter_mut().rev().find(|h| !h.matched && h.digest == a) {
                                h.matched = true;
                            }
                        }
                        if opcode == 0x88 {
                            if !eq {
                                return Err(VmError::EqualVerify);
                            }
                        } else {
                            stack.push(if eq { vec![1] } else { vec![] });
                        }
                    }
                    0x8b | 0x8c | 0x8f | 0x90 | 0x91 | 0x92 => {
                        let mut n = script_num(&pop!(), require_minimal, 4)?;
                        match opcode {
                            0x8b => n += 1,
                            0x8c => n -= 1,
                            0x8f => n = -n,
                            0x90 => n = n.abs(),
                            0x91 => n = (n == 0) as i64,
                            0x92 => n = (n != 0) as i64,
                            _ => unreachable!(),
                        }
                        stack.push(num_to_vec(n));
                    }
                    0x93 | 0x94 | 0x9a..=0xa4 => {
                        if stack.len() < 2 {
                            return Err(VmError::InvalidStackOperation);
                        }
                        let b = script_num(&pop!(), require_minimal, 4)?;
                        let a = script_num(&pop!(), require_minimal, 4)?;
                        let r = match opcode {
                            0x93 => a + b,
                            0x94 => a - b,
                            0x9a => (a != 0 && b != 0) as i64,
                            0x9b => (a != 0 || b != 0) as i64,
                            0x9c | 0x9d => (a == b) as i64,
                            0x9e => (a != b) as i64,
                            0x9f => (a < b) as i64,
                            0xa0 => (a > b) as i64,
                            0xa1 => (a <= b) as i64,
                            0xa2 => (a >= b) as i64,
                            0xa3 => a.min(b),
                            0xa4 => a.max(b),
                            _ => unreachable!(),
                        };
                        if opcode == 0x9d {
                            if r == 0 {
                                return Err(VmError::NumEqualVerify);
                            }
                        } else {
                            stack.push(num_to_vec(r));
                        }
                    }
                    0xa5 => {
                        if stack.len() < 3 {
                            return Err(VmError::InvalidStackOperation);
                        }
                        let max = script_num(&pop!(), require_minimal, 4)?;
                        let min = script_num(&pop!(), require_minimal, 4)?;
                        let x = script_num(&pop!(), require_minimal, 4)?;
                        stack.push(if min <= x && x < max { vec![1] } else { vec![] });
                    }
                    0xa6..=0xaa => {
                        let v = pop!();
                        let h: Vec<u8> = match opcode {
                            0xa6 => ripemd160::Hash::hash(&v).to_byte_array().to_vec(),
                            0xa7 => sha1::Hash::hash(&v).to_byte_array().to_vec(),
                            0xa8 => sha256::Hash::hash(&v).to_byte_array().to_vec(),
                            0xa9 => hash160::Hash::hash(&v).to_byte_array().to_vec(),
                            0xaa => sha256d::Hash::hash(&v).to_byte_array().to_vec(),
                            _ => unreachable!(),
                        };
                        self.trace.hash_checks.push(HashCheck { op: opcode, preimage: v, digest: h.clone(), matched: false });
                        stack.push(h);
                    }
                    0xab => {
                        codesep_begin = pc;
                        self.exec.codesep_pos = opcode_pos;
                    }
                    0xac | 0xad => {
                        if stack.len() < 2 {
                            return Err(VmError::InvalidStackOperation);
                        }
                        let pk = pop!();
                        let sig = pop!();
                        let ok = self.eval_checksig(&sig, &pk, script, codesep_begin)?;
                        if opcode == 0xad {
                            if !ok {
                                return Err(VmError::CheckSigVerify);
                            }
                        } else {
                            stack.push(if ok { vec![1] } else { vec![] });
                        }
                    }
                    0xba => {
                        // CHECKSIGADD
                        if sv != SigVersion::Tapscript {
                            return Err(VmError::BadOpcode(opcode));
                        }
                        if stack.len() < 3 {
                            return Err(VmError::InvalidStackOperation);
                        }
                        let pk = pop!();
                        let n = script_num(&pop!(), require_minimal, 4)?;
                        let sig = pop!();
                        let ok = self.eval_checksig(&sig, &pk, script, codesep_begin)?;
                        stack.push(num_to_vec(n + ok as i64));
                    }
                    0xae | 0xaf => {
                        if sv == SigVersion::Tapscript {
                            return Err(VmError::TapscriptCheckMultisig);
                        }
                        let mut i: usize = 1;
                        if stack.len() < i {
                            return Err(VmError::InvalidStackOperation);
                        }
                        let nkeys = script_num(&stack[stack.len() - i], require_minimal, 4)?;
                        if !(0..=MAX_PUBKEYS_PER_MULTISIG).contains(&nkeys) {
                            return Err(VmError::PubkeyCount);
                        }
                        op_count += nkeys as usize;
                        if op_count > MAX_OPS_PER_SCRIPT {
                            return Err(VmError::OpCount);
                        }
                        i += 1;
                        let mut ikey = i;
                        let mut ikey2 = nkeys as usize + 2;
                        i += nkeys as usize;
                        if stack.len() < i {
                            return Err(VmError::InvalidStackOperation);
                        }
                        let nsigs = script_num(&stack[stack.len() - i], require_minimal, 4)?;
                        if nsigs < 0 || nsigs > nkeys {
                            return Err(VmError::SigCount);
                        }
                        i += 1;
                        let mut isig = i;
                        i += nsigs as usize;
                        if stack.len() < i {
                            return Err(VmError::InvalidStackOperation);
                        }
                        let mut script_code = script[codesep_begin..].to_vec();
                        if sv == SigVersion::Base {
                            for k in 0..nsigs as usize {
                                let sig = &stack[stack.len() - isig - k];
                                let mut pat = vec![];
                                push_data(&mut pat, sig);
                                let (sc, found) = find_and_delete(&script_code, &pat);
                                if found > 0 && flags.const_scriptcode {
                                    return Err(VmError::SigFindAndDelete);
                                }
                                script_code = sc;
                            }
                        }
                        let mut success = true;
                        let mut nsigs_left = nsigs;
                        let mut nkeys_left = nkeys;
                        while success && nsigs_left > 0 {
                            let sig = stack[stack.len() - isig].clone();
                            let pk = stack[stack.len() - ikey].clone();
                            check_signature_encoding(&sig, &flags)?;
                            check_pubkey_encoding(&pk, &flags, sv)?;
                            let ok = self.check_ecdsa(&sig, &pk, &script_code)?;
                            if ok {
                                isig += 1;
                                nsigs_left -= 1;
                            }
                            ikey += 1;
                            nkeys_left -= 1;
                            if nsigs_left > nkeys_left {
                                success = false;
                            }
                        }
                        // clean up
                        let mut ii = i;
                        while ii > 1 {
                            if !success && flags.nullfail && ikey2 == 0 && !stack[stack.len() - 1].is_empty() {
                                return Err(VmError::NullFail);
                            }
                            if ikey2 > 0 {
                                ikey2 -= 1;
                            }
                            stack.pop();
                            ii -= 1;
                        }
                        if stack.is_empty() {
                            return Err(VmError::InvalidStackOperation);
                        }
                        if flags.nulldummy && !stack[stack.len() - 1].is_empty() {
                            return Err(VmError::NullDummy);
                        }
                        stack.pop();
                        if opcode == 0xaf {
                            if !success {
                                return Err(VmError::CheckMultisigVerify);
                            }
                        } else {
                            stack.push(if success { vec![1] } else { vec![] });
                        }
                    }
                    _ => return Err(VmError::BadOpcode(opcode)),
                }
            }
            if stack.len() + altstack.len() > MAX_STACK_SIZE {
                return Err(VmError::StackSize);
            }
            max_stack = max_stack.max(stack.len() + altstack.len());
            opcode_pos += 1;
        }
        if !vf_exec.is_empty() {
            return Err(VmError::UnbalancedConditional);
        }
        self.trace.op_count = op_count;
        self.trace.executed_ops = executed_ops;
        self.trace.max_stack = max_stack;
        Ok(())
    }
}

fn check_lock_time(ctx: &TxCtx, n: i64) -> bool {
    let tx_lock = ctx.tx.lock_time.to_consensus_u32() as i64;
    const THRESHOLD: i64 = 500_000_000;
    if !((tx_lock < THRESHOLD && n < THRESHOLD) || (tx_lock >= THRESHOLD && n >= THRESHOLD)) {
        return false;
    }
    if n > tx_lock {
        return false;
    }
    if ctx.tx.input[ctx.index].sequence.0 == 0xFFFF_FFFF {
        return false;
    }
    true
}

fn check_sequence(ctx: &TxCtx, n: i64) -> bool {
    let tx_seq = ctx.tx.input[ctx.index].sequence.0 as i64;
    if (ctx.tx.version.0 as u32) < 2 {
        return false;
    }
    const DISABLE: i64 = 1 << 31;
    const TYPE_FLAG: i64 = 1 << 22;
    const MASK: i64 = 0x0000_ffff;
    if tx_seq & DISABLE != 0 {
        return false;
    }
    let lock_mask = TYPE_FLAG | MASK;
    let tx_m = tx_seq & lock_mask;
    let n_m = n & lock_mask;
    if !((tx_m < TYPE_FLAG && n_m < TYPE_FLAG) || (tx_m >= TYPE_FLAG && n_m >= TYPE_FLAG)) {
        return false;
    }
    n_m <= tx_m
}

/// BIP143 digest, written out by hand (does not use SighashCache::p2wsh_signature_hash so that the
/// hashtype byte can be arbitrary, as in Core).
fn segwit_v0_sighash(tx: &Transaction, index: usize, script_code: &Script, value: Amount, hashtype: u32) -> [u8; 32] {
    use bitcoin::consensus::Encodable;
    let anyone = hashtype & 0x80 != 0;
    let base = hashtype & 0x1f;
    let zero = [0u8; 32];
    let hash_prevouts = if !anyone {
        let mut e = sha256d::Hash::engine();
        for i in &tx.input {
            i.previous_output.consensus_encode(&mut e).unwrap();
        }
        sha256d::Hash::from_engine(e).to_byte_array()
    } else {
        zero
    };
    let hash_sequence = if !anyone && base != 2 && base != 3 {
        let mut e = sha256d::Hash::engine();
        for i in &tx.input {
            i.sequence.consensus_encode(&mut e).unwrap();
        }
        sha256d::Hash::from_engine(e).to_byte_array()
    } else {
        zero
    };
    let hash_outputs = if base != 2 && base != 3 {
        let mut e = sha256d::Hash::engine();
        for o in &tx.output {
            o.consensus_encode(&mut e).unwrap();
        }
        sha256d::Hash::from_engine(e).to_byte_array()
    } else if base == 3 && index < tx.output.len() {
        let mut e = sha256d::Hash::engine();
        tx.output[index].consensus_encode(&mut e).unwrap();
        sha256d::Hash::from_engine(e).to_byte_array()
    } else {
        zero
    };
    let mut e = sha256d::Hash::engine();
    tx.version.consensus_encode(&mut e).unwrap();
    e.input(&hash_prevouts);
    e.input(&hash_sequence);
    tx.input[index].previous_output.consensus_encode(&mut e).unwrap();
    script_code.consensus_encode(&mut e).unwrap();
    value.consensus_encode(&mut e).unwrap();
    tx.input[index].sequence.consensus_encode(&mut e).unwrap();
    e.input(&hash_outputs);
    tx.lock_time.consensus_encode(&mut e).unwrap();
    hashtype.consensus_encode(&mut e).unwrap();
    sha256d::Hash::from_engine(e).to_byte_array()
}

fn tagged_hash(tag: &str, parts: &[&[u8]]) -> [u8; 32] {
    let t = sha256::Hash::hash(tag.as_bytes()).to_byte_array();
    let mut e = sha256::Hash::engine();
    e.input(&t);
    e.input(&t);
    for p in parts {
        e.input(p);
    }
    sha256::Hash::from_engine(e).to_byte_array()
}

fn compact_size(n: usize) -> Vec<u8> {
    if n < 253 {
        vec![n as u8]
    } else if n <= 0xffff {
        let mut v = vec![253];
        v.extend_from_slice(&(n as u16).to_le_bytes());
        v
    } else {
        let mut v = vec![254];
        v.extend_from_slice(&(n as u32).to_le_bytes());
        v
    }
}

pub fn tapleaf_hash(leaf_version: u8, script: &[u8]) -> [u8; 32] {
    tagged_hash("TapLeaf", &[&[leaf_version], &compact_size(script.len()), script])
}

pub fn tapbranch_hash(a: &[u8; 32], b: &[u8; 32]) -> [u8; 32] {
    if a <= b {
        tagged_hash("TapBranch", &[a, b])
    } else {
        tagged_hash("TapBranch", &[b, a])
    }
}

pub fn taptweak_hash(internal: &[u8; 32], merkle_root: Option<&[u8; 32]>) -> [u8; 32] {
    match merkle_root {
        Some(r) => tagged_hash("TapTweak", &[internal, r]),
        None => tagged_hash("TapTweak", &[internal]),
    }
}

/// Checks that `output_key` == internal + H_tweak(internal || root) * G with the given parity.
pub fn check_taproot_commitment(
    secp: &Secp256k1<VerifyOnly>,
    control: &[u8],
    program: &[u8],
    leaf_hash: &[u8; 32],
) -> bool {
    let internal: [u8; 32] = control[1..33].try_into().unwrap();
    let mut k = *leaf_hash;
    let path_len = (control.len() - 33) / 32;
    for i in 0..path_len {
        let node: [u8; 32] = control[33 + 32 * i..65 + 32 * i].try_into().unwrap();
        k = tapbranch_hash(&k, &node);
    }
    let t = taptweak_hash(&internal, Some(&k));
    let p = match secp256k1::XOnlyPublicKey::from_slice(&internal) {
        Ok(p) => p,
        Err(_) => return false,
    };
    let q = match secp256k1::XOnlyPublicKey::from_slice(program) {
        Ok(q) => q,
        Err(_) => return false,
    };
    let tweak = match secp256k1::Scalar::from_be_bytes(t) {
        Ok(s) => s,
        Err(_) => return false,
    };
    let parity = if control[0] & 1 == 1 { secp256k1::Parity::Odd } else { secp256k1::Parity::Even };
    p.tweak_add_check(secp, &q, parity, tweak)
}

fn witness_serialized_size(w: &[Vec<u8>]) -> usize {
    compact_size(w.len()).len() + w.iter().map(|i| compact_size(i.len()).len() + i.len()).sum::<usize>()
}

fn count_sigops_accurate(script: &[u8]) -> usize {
    let mut n = 0;
    let mut pc = 0;
    let mut last = 0xffu8;
    while pc < script.len() {
        let i = match next_instr(script, &mut pc) {
            Some(i) => i,
            None => break,
        };
        match i.opcode {
            0xac | 0xad => n += 1,
            0xae | 0xaf => {
                if (0x51..=0x60).contains(&last) {
                    n += (last - 0x50) as usize;
                } else {
                    n += 20;
                }
            }
            _ => {}
        }
        last = i.opcode;
    }
    n
}

/// Verify one input of `tx` against `prevouts[index].script_pubkey` under `flags`.
pub fn verify_input(ctx: &TxCtx, flags: Flags) -> Result<ExecTrace, VmError> {
    if ctx.index >= ctx.tx.input.len() || ctx.prevouts.len() != ctx.tx.input.len() {
        return Err(VmError::BadInputIndex);
    }
    let txin = &ctx.tx.input[ctx.index];
    let script_sig = txin.script_sig.as_bytes();
    let spk = ctx.prevouts[ctx.index].script_pubkey.as_bytes();
    let witness: Vec<Vec<u8>> = txin.witness.iter().map(|w| w.to_vec()).collect();
    let mut trace = ExecTrace::default();
    let mut exec = ExecData { tapleaf_hash: None, codesep_pos: 0xFFFF_FFFF, annex: None, validation_weight_left: 0, validation_weight_init: false };

    if flags.input_standardness && script_sig.len() > MAX_STANDARD_SCRIPTSIG_SIZE {
        return Err(VmError::StdScriptSigSize);
    }
    if flags.sigpushonly && !is_push_only(script_sig) {
        return Err(VmError::SigPushOnly);
    }
    // Core's IsStandardTx also requires push-only scriptSig
    if flags.input_standardness && !is_push_only(script_sig) {
        return Err(VmError::SigPushOnly);
    }

    let mut stack: Vec<Vec<u8>> = vec![];
    {
        let mut ev = Evaluator { ctx, flags, sv: SigVersion::Base, exec: &mut exec, trace: &mut trace };
        ev.eval(script_sig, &mut stack)?;
    }
    let stack_copy = if flags.p2sh { stack.clone() } else { vec![] };
    trace = ExecTrace::default();
    {
        let mut ev = Evaluator { ctx, flags, sv: SigVersion::Base, exec: &mut exec, trace: &mut trace };
        ev.eval(spk, &mut stack)?;
    }
    if stack.is_empty() || !cast_to_bool(&stack[stack.len() - 1]) {
        return Err(VmError::EvalFalse);
    }
    trace.kind = SpendKind::Bare;

    let mut had_witness = false;
    if flags.witness {
        if let Some((ver, prog)) = witness_program(spk) {
            had_witness = true;
            if !script_sig.is_empty() {
                return Err(VmError::WitnessMalleated);
            }
            trace = verify_witness_program(ctx, &witness, ver, prog, flags, false, &mut exec)?;
            stack.truncate(1);
        }
    }

    if flags.p2sh && is_p2sh(spk) {
        if !is_push_only(script_sig) {
            return Err(VmError::SigPushOnly);
        }
        let mut st = stack_copy;
        // stack cannot be empty here since spk eval succeeded
        let redeem = st.pop().ok_or(VmError::InvalidStackOperation)?;
        if flags.input_standardness && count_sigops_accurate(&redeem) > MAX_P2SH_SIGOPS {
            // only applies when the redeem script is not itself a witness program (Core checks
            // GetSigOpCount on the subscript for TxoutType::SCRIPTHASH)
            if witness_program(&redeem).is_none() {
                return Err(VmError::StdP2shSigops);
            }
        }
        trace = ExecTrace::default();
        {
            let mut ev = Evaluator { ctx, flags, sv: SigVersion::Base, exec: &mut exec, trace: &mut trace };
            ev.eval(&redeem, &mut st)?;
        }
        if st.is_empty() || !cast_to_bool(&st[st.len() - 1]) {
            return Err(VmError::EvalFalse);
        }
        trace.kind = SpendKind::P2sh;
        stack = st;
        if flags.witness {
            if let Some((ver, prog)) = witness_program(&redeem) {
                had_witness = true;
                let mut expect = vec![];
                // exactly a single push of the redeem script
                let n = redeem.len();
                expect.push(n as u8); // witness programs are <= 42 bytes: direct push
                expect.extend_from_slice(&redeem);
                if script_sig != &expect[..] {
                    return Err(VmError::WitnessMalleatedP2sh);
                }
                trace = verify_witness_program(ctx, &witness, ver, prog, flags, true, &mut exec)?;
                stack.truncate(1);
            }
        }
    }

    if flags.cleanstack && stack.len() != 1 {
        return Err(VmError::CleanStack);
    }
    if flags.witness && !had_witness && !witness.is_empty() {
        return Err(VmError::WitnessUnexpected);
    }
    Ok(trace)
}

fn execute_witness_script(
    ctx: &TxCtx,
    mut stack: Vec<Vec<u8>>,
    script: &[u8],
    flags: Flags,
    sv: SigVersion,
    exec: &mut ExecData,
) -> Result<ExecTrace, VmError> {
    let mut trace = ExecTrace::default();
    if sv == SigVersion::Tapscript {
        // OP_SUCCESSx pre-scan
        let mut pc = 0;
        while pc < script.len() {
            let i = next_instr(script, &mut pc).ok_or(VmError::BadOpcode(0xff))?;
            if is_op_success(i.opcode) {
                if flags.discourage_op_success {
                    return Err(VmError::DiscourageOpSuccess);
                }
                return Ok(trace);
            }
        }
        if stack.len() > MAX_STACK_SIZE {
            return Err(VmError::StackSize);
        }
    }
    for e in &stack {
        if e.len() > MAX_SCRIPT_ELEMENT_SIZE {
            return Err(VmError::PushSize);
        }
    }
    {
        let mut ev = Evaluator { ctx, flags, sv, exec, trace: &mut trace };
        ev.eval(script, &mut stack)?;
    }
    if stack.len() != 1 {
        return Err(VmError::CleanStack);
    }
    if !cast_to_bool(&stack[0]) {
        return Err(VmError::EvalFalse);
    }
    Ok(trace)
}

fn verify_witness_program(
    ctx: &TxCtx,
    witness: &[Vec<u8>],
    ver: u8,
    prog: &[u8],
    flags: Flags,
    is_p2sh: bool,
    exec: &mut ExecData,
) -> Result<ExecTrace, VmError> {
    let mut stack: Vec<Vec<u8>> = witness.to_vec();
    if ver == 0 {
        if prog.len() == 32 {
            if stack.is_empty() {
                return Err(VmError::WitnessProgramWitnessEmpty);
            }
            let script = stack.pop().unwrap();
            if sha256::Hash::hash(&script).to_byte_array()[..] != prog[..] {
                return Err(VmError::WitnessProgramMismatch);
            }
            if flags.input_standardness {
                if script.len() > MAX_STANDARD_P2WSH_SCRIPT_SIZE {
                    return Err(VmError::StdWitnessScriptSize);
                }
                if stack.len() > MAX_STANDARD_P2WSH_STACK_ITEMS {
                    return Err(VmError::StdWitnessStackItems);
                }
                if stack.iter().any(|e| e.len() > MAX_STANDARD_P2WSH_STACK_ITEM_SIZE) {
                    return Err(VmError::StdWitnessStackItemSize);
                }
            }
            let mut t = execute_witness_script(ctx, stack, &script, flags, SigVersion::WitnessV0, exec)?;
            t.kind = if is_p2sh { SpendKind::P2shP2wsh } else { SpendKind::P2wsh };
            Ok(t)
        } else if prog.len() == 20 {
            if stack.len() != 2 {
                return Err(VmError::WitnessProgramMismatch);
            }
            let mut script = vec![0x76, 0xa9, 0x14];
            script.extend_from_slice(prog);
            script.push(0x88);
            script.push(0xac);
            let mut t = execute_witness_script(ctx, stack, &script, flags, SigVersion::WitnessV0, exec)?;
            t.kind = if is_p2sh { SpendKind::P2shP2wpkh } else { SpendKind::P2wpkh };
            Ok(t)
        } else {
            Err(VmError::WitnessProgramWrongLength)
        }
    } else if ver == 1 && prog.len() == 32 && !is_p2sh {
        if !flags.taproot {
            return Ok(ExecTrace { kind: SpendKind::UnknownWitness, ..Default::default() });
        }
        if stack.is_empty() {
            return Err(VmError::WitnessProgramWitnessEmpty);
        }
        if stack.len() >= 2 && !stack[stack.len() - 1].is_empty() && stack[stack.len() - 1][0] == 0x50 {
            let annex = stack.pop().unwrap();
            if flags.input_standardness {
                return Err(VmError::StdAnnex);
            }
            exec.annex = Some(annex);
        } else {
            exec.annex = None;
        }
        if stack.len() == 1 {
            let mut trace = ExecTrace::default();
            {
                let mut ev = Evaluator { ctx, flags, sv: SigVersion::Tapscript, exec, trace: &mut trace };
                ev.check_schnorr(&stack[0], prog, true)?;
            }
            trace.kind = SpendKind::TapKey;
            trace.initial_stack = 1;
            trace.max_stack = 1;
            Ok(trace)
        } else {
            let control = stack.pop().unwrap();
            let script = stack.pop().unwrap();
            if control.len() < 33 || control.len() > 33 + 32 * 128 || (control.len() - 33) % 32 != 0 {
                return Err(VmError::TaprootWrongControlSize);
            }
            let leaf_ver = control[0] & 0xfe;
            let lh = tapleaf_hash(leaf_ver, &script);
            if !check_taproot_commitment(ctx.secp, &control, prog, &lh) {
                return Err(VmError::TaprootCommitmentMismatch);
            }
            exec.tapleaf_hash = Some(TapLeafHash::from_byte_array(lh));
            if leaf_ver == 0xc0 {
                // validation weight budget: serialized size of the *whole* witness (incl. annex)
                exec.validation_weight_left = witness_serialized_size(witness) as i64 + VALIDATION_WEIGHT_OFFSET;
                exec.validation_weight_init = true;
                if flags.input_standardness && stack.iter().any(|e| e.len() > MAX_STANDARD_TAPSCRIPT_STACK_ITEM_SIZE) {
                    return Err(VmError::StdTapscriptStackItemSize);
                }
                let mut t = execute_witness_script(ctx, stack, &script, flags, SigVersion::Tapscript, exec)?;
                t.kind = SpendKind::TapScript;
                return Ok(t);
            }
            if flags.discourage_upgradable_taproot_version {
                return Err(VmError::DiscourageUpgradableTaprootVersion);
            }
            Ok(ExecTrace { kind: SpendKind::UnknownWitness, ..Default::default() })
        }
    } else {
        if flags.discourage_upgradable_witness_program {
            return Err(VmError::DiscourageUpgradableWitnessProgram);
        }
        Ok(ExecTrace { kind: SpendKind::UnknownWitness, ..Default::default() })
    }
}

/// Execute a raw script fragment on a given stack in a given sig version context, for fragment-level
/// checks (e.g. executing a library dissatisfaction). The tx context still supplies digests.
pub fn eval_fragment(
    ctx: &TxCtx,
    script: &[u8],
    mut stack: Vec<Vec<u8>>,
    flags: Flags,
    tapscript: bool,
    segwit_v0: bool,
) -> Result<(Vec<Vec<u8>>, ExecTrace), VmError> {
    let mut trace = ExecTrace::default();
    let mut exec = ExecData {
        tapleaf_hash: Some(TapLeafHash::from_byte_array(tapleaf_hash(0xc0, script))),
        codesep_pos: 0xFFFF_FFFF,
        annex: None,
        validation_weight_left: 1_000_000,
        validation_weight_init: true,
    };
    let sv = if tapscript { SigVersion::Tapscript } else if segwit_v0 { SigVersion::WitnessV0 } else { SigVersion::Base };
    {
        let mut ev = Evaluator { ctx, flags, sv, exec: &mut exec, trace: &mut trace };
        ev.eval(script, &mut stack)?;
    }
    Ok((stack, trace))
}

pub fn script_from(bytes: Vec<u8>) -> ScriptBuf { ScriptBuf::from_bytes(bytes) }
