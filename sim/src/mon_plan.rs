//! C17 monitors (T1-T6).
use bitcoin::psbt::Psbt;
use miniscript::plan::Assets;
use crate::monitors::Produced;
use crate::sim::World;
pub fn check_plan_vs_satisfier(_w: &mut World, _actor: &str, _psbt: &Psbt, _i: usize, _produced: &[Produced], _ok: [bool; 4]) {}
pub fn check_plan_from_assets(_w: &mut World, _i: usize, _assets: &Assets) {}
