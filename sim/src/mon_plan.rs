//! C17 monitors (T1-T6) and C09's Z6 (plan sizes).

use std::collections::BTreeSet;

use bitcoin::bip32::{DerivationPath, Fingerprint};
use bitcoin::hashes::Hash;
use bitcoin::psbt::Psbt;
use bitcoin::{absolute, transaction, Amount, ScriptBuf, Sequence, Transaction, TxIn, TxOut, Witness};
use miniscript::plan::{Assets, Plan};
use miniscript::DefiniteDescriptorKey;

use crate::gen::OutKind;
use crate::keys::HashKind;
use crate::monitors::{exec_spend, guard, raise_class, Produced};
use crate::rng::{fnv, mix};
use crate::sim::{Env, World};
use crate::vm::{Flags, VmError};
use crate::wallet::{god_sat_slots, WorldSat};

/// The documented capability rule of `Assets::keys`, written independently: a key source
/// (fingerprint, path) can sign for a key whose origin fingerprint matches and whose full derivation
/// path equals `path` or extends it by exactly one step.
pub fn model_can_sign(key_origin: &(Fingerprint, DerivationPath), src: &(Fingerprint, DerivationPath)) -> bool {
    if key_origin.0 != src.0 {
        return false;
    }
    let kp: Vec<_> = key_origin.1.into_iter().cloned().collect();
    let sp: Vec<_> = src.1.into_iter().cloned().collect();
    if kp == sp {
        return true;
    }
    !kp.is_empty() && kp[..kp.len() - 1] == sp[..]
}

fn cap_keys(env: &Env, i: usize, assets: &Assets) -> Vec<usize> {
    let mut out = vec![];
    for k in &env.inputs[i].key_ids {
        let origin = &env.uni.keys[*k].origin;
        if assets.keys.iter().any(|(src, _)| model_can_sign(origin, src)) {
            out.push(*k);
        }
    }
    out
}

/// Independent model of `CanSign`: may key `k` produce the signature `slot` according to `assets`?
fn model_slot(env: &Env, assets: &Assets, k: usize, slot: crate::wallet::Slot) -> bool {
    use miniscript::plan::TaprootAvailableLeaves as L;
    let origin = &env.uni.keys[k].origin;
    assets.keys.iter().any(|(src, cs)| {
        model_can_sign(origin, src)
            && match slot {
                crate::wallet::Slot::Ecdsa => cs.ecdsa,
                crate::wallet::Slot::TapKey => cs.taproot.key_spend,
                crate::wallet::Slot::TapLeaf(l) => match &cs.taproot.script_spend {
                    L::None => false,
                    L::Any => true,
                    L::Single(x) => *x == l,
                    L::Many(v) => v.contains(&l),
                },
            }
    })
}

fn asset_hashes(env: &Env, assets: &Assets) -> Vec<usize> {
    let mut out = vec![];
    for h in &env.uni.hashes {
        let have = match h.kind {
            HashKind::Sha256 => assets.sha256_preimages.iter().any(|x| x.as_byte_array()[..] == h.digest[..]),
            HashKind::Hash256 => assets.hash256_preimages.iter().any(|x| x.as_byte_array()[..] == h.digest[..]),
            HashKind::Ripemd160 => assets.ripemd160_preimages.iter().any(|x| x.as_byte_array()[..] == h.digest[..]),
            HashKind::Hash160 => assets.hash160_preimages.iter().any(|x| x.as_byte_array()[..] == h.digest[..]),
        };
        if have {
            out.push(h.id);
        }
    }
    out
}

fn tx_with(env: &Env, i: usize, lock: u32, seq: u32, version: i32) -> Transaction {
    let n = env.inputs.len();
    let total: u64 = env.inputs.iter().map(|x| x.utxo.value.to_sat()).sum();
    Transaction {
        version: transaction::Version(version),
        lock_time: absolute::LockTime::from_consensus(lock),
        input: (0..n)
            .map(|k| TxIn { previous_output: env.inputs[k].outpoint, script_sig: ScriptBuf::new(), sequence: Sequence(if k == i { seq } else { 0xFFFF_FFFE }), witness: Witness::new() })
            .collect(),
        output: vec![TxOut { value: Amount::from_sat(total.saturating_sub(1500)), script_pubkey: env.dest_spk.clone() }],
    }
}

fn varint(n: usize) -> usize {
    if n < 253 {
        1
    } else if n <= 0xffff {
        3
    } else {
        5
    }
}

fn check_sizes(w: &mut World, actor: &str, i: usize, plan: &Plan<DefiniteDescriptorKey>, wit: &[Vec<u8>], ss: &ScriptBuf, how: &str) {
    let env = w.env.clone();
    let kind = env.inputs[i].kind;
    let text = &env.inputs[i].spec.text;
    let real_wit = if wit.is_empty() { 0 } else { varint(wit.len()) + wit.iter().map(|x| varint(x.len()) + x.len()).sum::<usize>() };
    let real_ss = varint(ss.len()) + ss.len();
    let mut bad: Option<(String, String)> = None;
    if plan.witness_size() < real_wit {
        // the exact omission of the trailing witness-script item is a recorded finding; anything
        // beyond that is a different violation class
        let script_item = if matches!(kind, OutKind::Wsh | OutKind::ShWsh) { wit.last().map(|s| varint(s.len()) + s.len()).unwrap_or(0) } else { 0 };
        let what = if script_item > 0 && plan.witness_size() + script_item >= real_wit { "witness_size:script-item-omitted" } else { "witness_size" };
        bad = Some((what.into(), format!("Plan::witness_size {} < serialized witness {} bytes", plan.witness_size(), real_wit)));
    } else if plan.scriptsig_size() < real_ss {
        bad = Some(("scriptsig_size".into(), format!("Plan::scriptsig_size {} < serialized scriptSig {} bytes", plan.scriptsig_size(), real_ss)));
    } else if plan.satisfaction_weight() < real_wit + 4 * real_ss {
        // unreachable when the two parts are bounds, kept as a cross-check
        bad = Some(("satisfaction_weight".into(), format!("Plan::satisfaction_weight {} < real {}", plan.satisfaction_weight(), real_wit + 4 * real_ss)));
    }
    w.stats.probe("plan_sizes_checked");
    if let Some((what, detail)) = bad {
        let cls = format!("{}:{:?}", what, kind);
        if w.mon.on("C17") {
            raise_class(w, "C17", "T6", format!("T6:{}", cls), format!("{} ({}): desc={}", detail, how, text), actor);
        }
        if w.mon.on("C09") {
            raise_class(w, "C09", "Z6", format!("Z6:{}", cls), format!("{} ({}): desc={}", detail, how, text), actor);
        }
    }
}

/// Probe-time checks with the PSBT-derived satisfier: plan (provider = the satisfier itself) vs satisfier.
pub fn check_plan_vs_satisfier(w: &mut World, actor: &str, psbt: &Psbt, i: usize, produced: &[Produced], ok: [bool; 6]) {
    let env = w.env.clone();
    let kind = env.inputs[i].kind;
    let text = env.inputs[i].spec.text.clone();
    if ok[0] != ok[2] {
        raise_class(w, "C17", "T1", format!("T1:{:?}:nonmall", kind), format!("get_satisfaction ok={} but into_plan(+satisfy) ok={} with the same satisfier: {}", ok[0], ok[2], text), actor);
        return;
    }
    if ok[1] != ok[3] {
        raise_class(w, "C17", "T1", format!("T1:{:?}:mall", kind), format!("get_satisfaction_mall ok={} but into_plan_mall(+satisfy) ok={} with the same satisfier: {}", ok[1], ok[3], text), actor);
        return;
    }
    let find = |l: &str| produced.iter().find(|p| p.label == l);
    for (a, b) in [("get_satisfaction", "plan.satisfy"), ("get_satisfaction_mall", "plan_mall.satisfy")] {
        if let (Some(x), Some(y)) = (find(a), find(b)) {
            if x.wit != y.wit || x.ss != y.ss {
                raise_class(w, "C17", "T2", format!("T2:{:?}:{}", kind, b), format!("{} and {} return different satisfactions for the same satisfier: {} | {:x} {:?} vs {:x} {:?}", a, b, text, x.ss, x.wit.len(), y.ss, y.wit.len()), actor);
                return;
            }
        }
    }
    // sizes (T6 / Z6) on the plan completed from the PSBT
    let sat = WorldSat::from_psbt(&env.uni, &env.by_expr, psbt, i);
    let desc = env.inputs[i].desc.clone();
    for mall in [false, true] {
        let plan = guard(w, "into_plan", actor, |_| if mall { desc.clone().into_plan_mall(&sat).ok() } else { desc.clone().into_plan(&sat).ok() });
        if let Some(Some(plan)) = plan {
            if let Some(Ok((wit, ss))) = guard(w, "Plan::satisfy", actor, |_| plan.satisfy(&sat)) {
                check_sizes(w, actor, i, &plan, &wit, &ss, if mall { "plan_mall" } else { "plan" });
            }
        }
        if !w.violations.is_empty() {
            return;
        }
    }
}

/// Epoch-time checks with the coordinator's `Assets`.
pub fn check_plan_from_assets(w: &mut World, i: usize, assets: &Assets) {
    let env = w.env.clone();
    let desc = env.inputs[i].desc.clone();
    let kind = env.inputs[i].kind;
    let text = env.inputs[i].spec.text.clone();
    let keys = cap_keys(&env, i, assets);
    let hashes = asset_hashes(&env, assets);
    let lock = assets.absolute_timelock.map(|l| l.to_consensus_u32()).unwrap_or(0);
    let seq = assets.relative_timelock.map(|l| l.to_sequence().0).unwrap_or(0xFFFF_FFFE);
    let tx_max = tx_with(&env, i, lock, seq, 2);
    let allow = |k: usize, slot: crate::wallet::Slot| model_slot(&env, assets, k, slot);
    let sat_max = god_sat_slots(&env, &tx_max, i, &keys, &hashes, mix(&[env.run_seed, 0x7431, i as u64]), &allow);
    let skel = crate::monitors::skeleton_hash(&text);
    for mall in [false, true] {
        let plan = match guard(w, "into_plan(assets)", "coord", |_| if mall { desc.clone().into_plan_mall(assets) } else { desc.clone().into_plan(assets) }) {
            Some(p) => p,
            None => return,
        };
        if !w.mon.on("C17") && !w.mon.on("C01") {
            continue;
        }
        let sat_r = guard(w, "get_satisfaction(assets world)", "coord", |_| if mall { desc.get_satisfaction_mall(&sat_max) } else { desc.get_satisfaction(&sat_max) });
        let sat_r = match sat_r {
            Some(r) => r,
            None => return,
        };
        w.stats.oracle_calls += 1;
        w.stats.cases.insert(mix(&[skel, fnv(format!("{:?}", keys).as_bytes()), lock as u64, seq as u64, mall as u64]));
        if matches!(kind, OutKind::Wsh | OutKind::ShWsh | OutKind::ShMs | OutKind::TrScript) {
            w.stats.nontrivial_cases.insert(mix(&[skel, fnv(format!("{:?}{:?}", keys, hashes).as_bytes()), lock as u64, seq as u64, mall as u64, plan.is_ok() as u64]));
        }
        // T1: existence
        if plan.is_ok() != sat_r.is_ok() {
            raise_class(
                w,
                "C17",
                "T1",
                format!("T1:{:?}:assets:{}:plan={}", kind, if mall { "mall" } else { "nonmall" }, plan.is_ok()),
                format!(
                    "into_plan{}(assets) {} but the satisfier with real signatures for exactly those capabilities {}: desc={} capable keys={:?} preimages={:?} after={:?} older={:?} asset key sources={}",
                    if mall { "_mall" } else { "" },
                    if plan.is_ok() { "succeeds" } else { "fails" },
                    if sat_r.is_ok() { "succeeds" } else { "fails" },
                    text,
                    keys,
                    hashes,
                    assets.absolute_timelock,
                    assets.relative_timelock,
                    assets.keys.len()
                ),
                "coord",
            );
            return;
        }
        let plan = match plan {
            Ok(p) => p,
            Err(_) => {
                w.stats.probe("t1_both_fail");
                continue;
            }
        };
        w.stats.probe("t1_both_succeed");
        let (s_wit, s_ss) = sat_r.unwrap();
        // T2: completing the plan with the same satisfier gives byte-for-byte the satisfier's result
        let comp = match guard(w, "Plan::satisfy", "coord", |_| plan.satisfy(&sat_max)) {
            Some(c) => c,
            None => return,
        };
        match comp {
            Ok((p_wit, p_ss)) => {
                if p_wit != s_wit || p_ss != s_ss {
                    raise_class(w, "C17", "T2", format!("T2:{:?}:assets:{}", kind, if mall { "mall" } else { "nonmall" }), format!("completed plan differs from the satisfier's result for the same assets: desc={}", text), "coord");
                    return;
                }
            }
            Err(e) => {
                raise_class(w, "C17", "T2", format!("T2:{:?}:assets-incomplete", kind), format!("every named signer answered but Plan::satisfy failed ({}): desc={}", e, text), "coord");
                return;
            }
        }
        // T3: with one answer missing the plan must fail, never panic, never return a witness
        let used: Vec<usize> = keys
            .iter()
            .copied()
            .filter(|k| {
                let b1 = sat_max.ecdsa.get(k).map(|s| s.to_vec());
                let in_wit = |b: &Vec<u8>| s_wit.iter().any(|x| x == b) || crate::vm::parse_pushes(s_ss.as_bytes()).map(|v| v.iter().any(|x| x == b)).unwrap_or(false);
                b1.map(|b| in_wit(&b)).unwrap_or(false) || sat_max.tap_key.get(k).map(|s| in_wit(&s.to_vec())).unwrap_or(false) || sat_max.tap_script.iter().any(|((kk, _), s)| kk == k && in_wit(&s.to_vec()))
            })
            .collect();
        // (one key under two names: the other name's signature is a signature of the same key)
        let twins = env.uni.has_twins(&env.inputs[i].key_ids, matches!(kind, OutKind::TrKey | OutKind::TrScript));
        if let Some(k) = used.first().filter(|_| !twins) {
            let mut partial = sat_max.clone();
            partial.ecdsa.remove(k);
            partial.tap_key.remove(k);
            partial.tap_script.retain(|(kk, _), _| kk != k);
            match guard(w, "Plan::satisfy(partial)", "coord", |_| plan.satisfy(&partial)) {
                Some(Ok(_)) => {
                    raise_class(w, "C17", "T3", format!("T3:{:?}", kind), format!("Plan::satisfy returned a witness although the signature of key {} is missing: desc={}", k, text), "coord");
                    return;
                }
                Some(Err(_)) => w.stats.probe("t3_partial_refused"),
                None => return,
            }
        }
        // T4: sufficiency of the reported locks
        let p_lock = plan.absolute_timelock.map(|l| l.to_consensus_u32()).unwrap_or(0);
        let p_seq = plan.relative_timelock.map(|l| l.to_sequence().0).unwrap_or(0xFFFF_FFFE);
        let tx_p = tx_with(&env, i, p_lock, p_seq, 2);
        let sat_p = god_sat_slots(&env, &tx_p, i, &keys, &hashes, mix(&[env.run_seed, 0x7434, i as u64]), &allow);
        let fill = |w: &mut World, s: &WorldSat| guard(w, "Plan::satisfy", "coord", |_| plan.satisfy(s));
        match fill(w, &sat_p) {
            Some(Ok((wit, ss))) => {
                w.stats.oracle_calls += 1;
                if let Err(e) = exec_spend(w, &tx_p, i, &wit, &ss, Flags::STANDARD) {
                    if !env.inputs[i].sane && crate::monitors::is_resource_error(&e) {
                        w.stats.probe("insane_descriptor_exceeds_resource_limit");
                        return;
                    }
                    // the plan's own witness under the locks it reported
                    let known_fd = e == VmError::SigFindAndDelete;
                    raise_class(
                        w,
                        "C17",
                        "T4",
                        format!("T4:{:?}:{:?}{}", e, kind, if known_fd { ":fd" } else { "" }),
                        format!("the completed plan does not validate with the locks it reports (nLockTime={} nSequence={:#x}): {:?} desc={}", p_lock, p_seq, e, text),
                        "coord",
                    );
                    // the same fact is C01's "by completing a spending plan ... in a transaction whose lock
                    // time and sequence meet the time locks the library reported"
                    raise_class(
                        w,
                        "C01",
                        "S1-plan",
                        format!("S1:{:?}:{:?}:plan-with-reported-locks", e, kind),
                        format!("completing the plan in a transaction built from the locks it reports (nLockTime={} nSequence={:#x}) gives a spend that R1 rejects ({:?}): desc={}", p_lock, p_seq, e, text),
                        "coord",
                    );
                    return;
                }
                check_sizes(w, "coord", i, &plan, &wit, &ss, if mall { "assets plan_mall" } else { "assets plan" });
                if !w.violations.is_empty() {
                    return;
                }
                // T5: necessity — any smaller value or the other unit makes the witness fail
                let mut variants: Vec<(u32, u32, &'static str)> = vec![];
                if let Some(a) = plan.absolute_timelock {
                    let a = a.to_consensus_u32();
                    if a > 1 && a != 500_000_000 {
                        variants.push((a - 1, p_seq, "abs-1"));
                    }
                    variants.push((if a < 500_000_000 { a + 1_000_000_000 } else { a - 1_000_000_000 }, p_seq, "abs-other-unit"));
                    variants.push((0, p_seq, "abs-zero"));
                    if plan.relative_timelock.is_none() {
                        variants.push((a, 0xFFFF_FFFF, "abs-final-sequence"));
                    }
                }
                if let Some(r) = plan.relative_timelock {
                    let s = r.to_sequence().0;
                    if s & 0xffff > 0 {
                        variants.push((p_lock, s - 1, "rel-1"));
                    }
                    variants.push((p_lock, s ^ (1 << 22), "rel-other-unit"));
                    variants.push((p_lock, s | (1 << 31), "rel-disabled"));
                }
                for (lt, sq, what) in variants {
                    let tx_v = tx_with(&env, i, lt, sq, 2);
                    let sat_v = god_sat_slots(&env, &tx_v, i, &keys, &hashes, mix(&[env.run_seed, 0x7435, lt as u64, sq as u64]), &allow);
                    if let Some(Ok((wv, sv))) = fill(w, &sat_v) {
                        w.stats.oracle_calls += 1;
                        if exec_spend(w, &tx_v, i, &wv, &sv, Flags::CONSENSUS).is_ok() {
                            raise_class(
                                w,
                                "C17",
                                "T5",
                                format!("T5:{:?}:{}", kind, what),
                                format!("the plan's witness also validates with weaker lock fields ({}: nLockTime={} nSequence={:#x}); reported abs={:?} rel={:?}: desc={}", what, lt, sq, plan.absolute_timelock, plan.relative_timelock, text),
                                "coord",
                            );
                            return;
                        }
                        w.stats.probe("t5_weaker_rejected");
                    }
                }
            }
            Some(Err(_)) => {}
            None => return,
        }
    }
    let _: BTreeSet<u8> = BTreeSet::new();
}
