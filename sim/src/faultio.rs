//! Engine C `faultio`: storage/transport corruption at every data seam.
//! "storage" mode decides C10 (round trips, checksum detects corruption); "wire" mode decides the
//! fault half of C11 (no input produced by truncation, bit flips, duplication, splicing, nesting
//! amplification or a hostile peer can crash or hang the library).

use std::collections::{BTreeMap, BTreeSet};
use std::panic::{catch_unwind, AssertUnwindSafe};
use std::str::FromStr;

use bitcoin::psbt::Psbt;
use bitcoin::sighash::SighashCache;
use bitcoin::{absolute, ScriptBuf, Sequence, Witness};
use miniscript::descriptor::{DescriptorSecretKey, WalletPolicy};
use miniscript::policy::{Concrete, Liftable, Semantic};
use miniscript::psbt::PsbtExt;
use miniscript::{Descriptor, DescriptorPublicKey, Interpreter, Miniscript};

use crate::gen::{Gen, LockCfg, ALL_KINDS};
use crate::keys::{hex_of, KeyForm, KeyUniverse};
use crate::rng::{fnv, mix, Rng};

// ---------------------------------------------------------------------------------------------
// seed artefacts
// ---------------------------------------------------------------------------------------------

pub fn gen_descriptor_text(rng: &mut Rng, uni: &mut KeyUniverse) -> Option<String> {
    let locks = LockCfg { height_base: 1000, time_base: 1_600_000_000 };
    for _ in 0..30 {
        let kind = *rng.pick(&ALL_KINDS);
        let spec = {
            let mut g = Gen::new(rng, uni, locks);
            g.descriptor(kind)
        };
        if Descriptor::<DescriptorPublicKey>::from_str(&spec.text).is_ok() {
            return Some(spec.text);
        }
    }
    None
}

fn multipath_key(uni: &KeyUniverse, rng: &mut Rng) -> String {
    // a multipath xpub expression derived from an existing xpub expression
    for k in &uni.keys {
        if k.form == KeyForm::XpubOriginWild {
            return k.expr.replace("/0/*", &format!("/<{};{}>/*", rng.below(5), 5 + rng.below(5)));
        }
    }
    String::new()
}

/// Objects whose text form must round-trip: (kind, text).
pub fn storage_objects(seed: u64, n: u64) -> Vec<(&'static str, String)> {
    let mut out = vec![];
    let mut rng = Rng::new(mix(&[seed, 0x73746f]));
    let mut uni = KeyUniverse::new(mix(&[seed, 0x756e]), 3, rng.below(40) as u32);
    let locks = LockCfg { height_base: 1000, time_base: 1_600_000_000 };
    if let Some(d) = gen_descriptor_text(&mut rng, &mut uni) {
        out.push(("descriptor", d.clone()));
        let mp = multipath_key(&uni, &mut rng);
        if !mp.is_empty() && n % 3 == 0 {
            out.push(("descriptor", format!("wsh(pk({}))", mp)));
            out.push(("descriptor-to-walletpolicy", format!("wsh(pk({}))", mp)));
            // key expressions outside the BIP388 shape (no multipath step, extra fixed step, three
            // alternatives, descending alternatives, hardened wildcard, no wildcard): the conversion
            // may refuse them; what it accepts must print a template its own parser reads
            if let (Some(a), Some(b)) = (mp.find("/<"), mp.rfind("/*")) {
                let (head, _) = mp.split_at(a);
                let _ = b;
                for tail in ["/*", "/5/<0;1>/*", "/<0;1;2>/*", "/<1;0>/*", "/<0;1>/*h", "/<0;1>", "/0/*"] {
                    out.push(("descriptor-to-walletpolicy", format!("wpkh({}{})", head, tail)));
                }
            }
            out.push(("pubkey", mp));
        }
    }
    // hardened wildcard / xprv forms
    {
        let root = &uni.roots[0];
        let secp = &uni.secp;
        let acct = root.master.derive_priv(secp, &[bitcoin::bip32::ChildNumber::from_hardened_idx(84).unwrap()]).unwrap();
        out.push(("secretkey", format!("[{}/84']{}/0/*", root.fingerprint, acct)));
        out.push(("secretkey", format!("{}/1'/*'", acct)));
        out.push(("secretkey", format!("{}/<0;1>/*", acct)));
        let xpub = bitcoin::bip32::Xpub::from_priv(secp, &acct);
        out.push(("pubkey", format!("[{}/84']{}/0/*", root.fingerprint, xpub)));
        out.push(("pubkey", format!("{}/7/*h", xpub)));
        // unusually long origins (deep derivation) in front of xpubs and single keys
        let long: String = (0..(6 + rng.below(10))).map(|i| format!("/{}'", 40 + i)).collect();
        out.push(("pubkey", format!("[{}{}]{}/0/*", root.fingerprint, long, xpub)));
        out.push(("pubkey", format!("[{}{}]{}", root.fingerprint, long, bitcoin::PublicKey::new(xpub.public_key))));
        out.push(("pubkey", format!("{}", xpub)));
        let sk = bitcoin::PrivateKey::new(acct.private_key, bitcoin::NetworkKind::Test);
        out.push(("secretkey", sk.to_wif()));
        out.push(("secretkey", format!("[{}/1/2h]{}", root.fingerprint, sk.to_wif())));
    }
    for k in &uni.keys {
        out.push(("pubkey", k.expr.clone()));
    }
    // raw key hashes (what the script decoder produces for `DUP HASH160 <h> EQUALVERIFY`), as text
    // and object-first from decoded scripts
    if uni.keys.len() >= 2 {
        use bitcoin::hashes::{hash160, Hash};
        let h = hash160::Hash::hash(&uni.keys[0].public.to_bytes());
        out.push(("descriptor", format!("wsh(c:expr_raw_pkh({}))", h)));
        out.push(("descriptor", format!("sh(and_v(vc:expr_raw_pkh({}),pk({})))", h, uni.keys[1 % uni.keys.len()].expr)));
        out.push(("ms-segwit", format!("or_d(c:expr_raw_pkh({}),pk({}))", h, uni.keys[1 % uni.keys.len()].expr)));
    }
    if uni.keys.len() >= 2 {
        let a = bitcoin::PublicKey::new(uni.keys[0].public.inner);
        let b = bitcoin::PublicKey::new(uni.keys[1 % uni.keys.len()].public.inner);
        out.push(("decoded-from-script", format!("wsh(or_d(pkh({}),and_v(v:pkh({}),older({}))))", a, b, 1 + rng.below(100))));
        out.push(("decoded-from-script", format!("wsh(and_v(v:pkh({}),pk({})))", a, b)));
    }
    // multipath steps with repeated alternatives (accepted by the parser)
    {
        let mp = multipath_key(&uni, &mut rng);
        if !mp.is_empty() {
            if let (Some(a), Some(b)) = (mp.find('<'), mp.find('>')) {
                let x = rng.below(4);
                for alt in [format!("<{};{}>", x, x), format!("<{};{};{}>", x, x, x + 1), format!("<{};{};{}>", x, x + 1, x)] {
                    // a parser may refuse these (BIP389 wants distinct indexes); if it accepts one,
                    // the key must survive printing
                    out.push(("pubkey-optional", format!("{}{}{}", &mp[..a], alt, &mp[b + 1..])));
                }
            }
        }
    }
    // miniscripts with string keys in each context, policies
    {
        let mut g = Gen::new(&mut rng, &mut uni, locks);
        for _ in 0..3 {
            let d = g.descriptor(crate::gen::OutKind::Wsh);
            if let Some(inner) = d.text.strip_prefix("wsh(").and_then(|s| s.strip_suffix(")")) {
                out.push(("ms-segwit", inner.to_string()));
            }
            let d = g.descriptor(crate::gen::OutKind::ShMs);
            if let Some(inner) = d.text.strip_prefix("sh(").and_then(|s| s.strip_suffix(")")) {
                out.push(("ms-legacy", inner.to_string()));
            }
            let d = g.descriptor(crate::gen::OutKind::TrScript);
            out.push(("descriptor", d.text));
        }
    }
    // concrete / semantic policies over string keys
    let mut pr = Rng::new(mix(&[seed, 0x706f6c]));
    for _ in 0..3 {
        let p = gen_policy(&mut pr, 3);
        out.push(("concrete", p.clone()));
        if let Ok(c) = Concrete::<String>::from_str(&p) {
            if let Ok(s) = c.lift() {
                out.push(("semantic", s.to_string()));
            }
        }
    }
    out.push(("walletpolicy-with-keys", "wpkh(@0/**)".to_string()));
    out.push(("walletpolicy-with-keys", format!("wsh(sortedmulti(2,@0/**,@1/<{};{}>/*))", 2 + rng.below(3), 5 + rng.below(5))));
    out.push(("walletpolicy-with-keys", "tr(@0/**,{pk(@1/**),pk(@2/<2;3>/*)})".to_string()));
    out.push(("walletpolicy", "wsh(multi(2,@0/**,@1/**))".to_string()));
    out.push(("walletpolicy", "tr(@0/**,{pk(@1/**),and_v(v:pk(@2/<2;3>/*),older(12))})".to_string()));
    out.push(("walletpolicy", "sh(wsh(or_d(pk(@0/**),and_v(v:pkh(@1/**),after(1000)))))".to_string()));
    {
        let a = rng.below(20);
        let b = a + 1 + rng.below(30);
        out.push(("walletpolicy", format!("wpkh(@0/<{};{}>/*)", a, b)));
        out.push(("walletpolicy", format!("wsh(multi(2,@0/<{};{}>/*,@1/**))", a, b)));
        out.push(("walletpolicy", format!("tr(@0/<{};{}>/*,pk(@1/<{};{}>/*))", a, b, b + 1, b + 7)));
    }
    out
}

fn gen_policy(r: &mut Rng, d: u32) -> String {
    if d == 0 || r.chance(1, 4) {
        return match r.below(8) {
            0..=3 => format!("pk(K{})", r.below(9)),
            4 => format!("older({})", 1 + r.below(1000)),
            5 => format!("after({})", 1 + r.below(100000)),
            6 => format!("sha256({:064x})", r.next_u64()),
            _ => format!("hash160({:040x})", r.next_u64()),
        };
    }
    match r.below(3) {
        0 => format!("and({},{})", gen_policy(r, d - 1), gen_policy(r, d - 1)),
        1 => format!("or({}@{},{}@{})", 1 + r.below(9), gen_policy(r, d - 1), 1 + r.below(9), gen_policy(r, d - 1)),
        _ => {
            let n = r.range(2, 4);
            let k = r.range(1, n);
            let mut s = format!("thresh({}", k);
            for _ in 0..n {
                s.push(',');
                s.push_str(&gen_policy(r, d - 1));
            }
            s.push(')');
            s
        }
    }
}

/// parse + print in the type the kind says. Returns Ok(printed) or Err.
pub fn roundtrip(kind: &str, s: &str) -> Result<(String, String), String> {
    // returns (display of parsed, display of reparsed) and checks equality of objects
    macro_rules! rt {
        ($ty:ty) => {{
            let a = <$ty>::from_str(s).map_err(|e| format!("parse: {}", e))?;
            let sa = a.to_string();
            let b = <$ty>::from_str(&sa).map_err(|e| format!("re-parse of own output failed: {} [{}]", e, sa))?;
            if a != b {
                return Err(format!("parse(print(x)) != x [{}]", sa));
            }
            Ok((sa, b.to_string()))
        }};
    }
    match kind {
        "descriptor" => rt!(Descriptor<DescriptorPublicKey>),
        "pubkey" | "pubkey-optional" => rt!(DescriptorPublicKey),
        "secretkey" => rt!(DescriptorSecretKey),
        "ms-segwit" => {
            let a = Miniscript::<DescriptorPublicKey, miniscript::Segwitv0>::from_str_insane(s).map_err(|e| format!("parse: {}", e))?;
            let sa = a.to_string();
            let b = Miniscript::<DescriptorPublicKey, miniscript::Segwitv0>::from_str_insane(&sa).map_err(|e| format!("re-parse of own output failed: {} [{}]", e, sa))?;
            if a != b {
                return Err(format!("parse(print(x)) != x [{}]", sa));
            }
            Ok((sa, b.to_string()))
        }
        "ms-legacy" => {
            let p = miniscript::ValidationParams::CONSENSUS;
            let a = Miniscript::<DescriptorPublicKey, miniscript::Legacy>::from_str_with_validation_params(s, &p).map_err(|e| format!("parse: {}", e))?;
            let sa = a.to_string();
            let b = Miniscript::<DescriptorPublicKey, miniscript::Legacy>::from_str_with_validation_params(&sa, &p).map_err(|e| format!("re-parse of own output failed: {} [{}]", e, sa))?;
            if a != b {
                return Err(format!("parse(print(x)) != x [{}]", sa));
            }
            Ok((sa, b.to_string()))
        }
        "concrete" => rt!(Concrete<String>),
        "semantic" => rt!(Semantic<String>),
        "decoded-from-script" => {
            // object-first: the miniscript the script decoder returns for the script of `s`
            // (key hashes come back raw) -> text -> parse -> same object, same script
            let d = Descriptor::<bitcoin::PublicKey>::from_str(s).map_err(|e| format!("parse: {}", e))?;
            let script = d.explicit_script().map_err(|e| format!("parse: {}", e))?;
            let ms = Miniscript::<bitcoin::PublicKey, miniscript::Segwitv0>::decode_consensus(&script).map_err(|e| format!("parse: decode {}", e))?;
            let text = ms.to_string();
            let back = Miniscript::<bitcoin::PublicKey, miniscript::Segwitv0>::from_str_with_validation_params(&text, &miniscript::ValidationParams::MAX)
                .map_err(|e| format!("re-parse of own output failed: {} [{}]", e, text))?;
            if back != ms || back.encode() != script {
                return Err(format!("parse(print(x)) != x [{}]", text));
            }
            Ok((text, back.to_string()))
        }
        "descriptor-to-walletpolicy" => {
            // object-first: descriptor -> wallet policy -> text -> wallet policy -> descriptor
            let d = Descriptor::<DescriptorPublicKey>::from_str(s).map_err(|e| format!("parse: {}", e))?;
            let wp = WalletPolicy::from_descriptor(&d).map_err(|e| format!("parse: from_descriptor: {:?}", e))?;
            let text = wp.to_string();
            let back = WalletPolicy::from_str(&text).map_err(|e| format!("re-parse of own output failed: {:?} [{}]", e, text))?;
            if back.to_string() != text {
                return Err(format!("wallet policy template is not a fixed point [{}]", text));
            }
            let d2 = wp.clone().into_descriptor().map_err(|e| format!("re-parse of own output failed: into_descriptor {:?}", e))?;
            if d2 != d {
                return Err(format!("parse(print(x)) != x [{} vs {}]", d2, d));
            }
            Ok((text.clone(), text))
        }
        "walletpolicy-with-keys" => {
            // BIP388 flow: template + key information (origin and xpub, no derivation) -> descriptor ->
            // template again; the derivation written in the template must arrive in the descriptor
            let mut wp = WalletPolicy::from_str(s).map_err(|e| format!("parse: {:?}", e))?;
            const KEYS: [&str; 3] = [
                "[6738736c/48'/0'/0']tpubD6NzVbkrYhZ4WaWSyoBvQwbpLkojyoTZPRsgXELWz3Popb3qkjcJyJUGLnL4qHHoQvao8ESaAstxYSnhyswJ76uZPStJRJCTKvosUCJZL5B",
                "[b2b1f0cf/48'/0'/1']tpubDBrgjcxBxnXyL575sHdkpKohWu5qHKoQ7TJXKNrYznh5fVEGBv89hA8ENW7A8MFVpFUSvgLqc4Nj1WZcpePX6rrxviVtPowvMuGF5rdT2Vi",
                "[a666a867/48'/0'/2']tpubD6NzVbkrYhZ4XgiXtGrdW5XDAPFCL9h7we1vwNCpn8tGbBcgfVYjXyhWo4E1xkh56hjod1RhGjxbaTLV3X4FyWuejifB9jusQ46QzG87VKp",
            ];
            let n = (0..8).filter(|i| s.contains(&format!("@{}", i))).count();
            let keys: Vec<DescriptorPublicKey> = KEYS.iter().take(n).filter_map(|k| DescriptorPublicKey::from_str(k).ok()).collect();
            if keys.len() != n || n == 0 || n > 3 {
                return Err("parse: not enough host keys".into());
            }
            wp.set_key_info(&keys).map_err(|e| format!("parse: set_key_info {:?}", e))?;
            let d = wp.into_descriptor().map_err(|e| format!("re-parse of own output failed: into_descriptor {:?}", e))?;
            let back = WalletPolicy::from_descriptor(&d).map_err(|e| format!("re-parse of own output failed: from_descriptor {:?} [{}]", e, d))?;
            if back.to_string() != s {
                return Err(format!("parse(print(x)) != x [template {} became {} via {}]", s, back, d));
            }
            Ok((s.to_string(), back.to_string()))
        }
        "walletpolicy" => {
            let a = WalletPolicy::from_str(s).map_err(|e| format!("parse: {:?}", e))?;
            let sa = a.to_string();
            let b = WalletPolicy::from_str(&sa).map_err(|e| format!("re-parse of own output failed: {:?} [{}]", e, sa))?;
            if a != b {
                return Err(format!("parse(print(x)) != x [{}]", sa));
            }
            Ok((sa, b.to_string()))
        }
        _ => Err("unknown kind".into()),
    }
}

/// Sugar / alias pairs that must parse to equal objects.
pub const ALIASES: &[(&str, &str)] = &[
    ("pk(A)", "c:pk_k(A)"),
    ("pkh(A)", "c:pk_h(A)"),
    ("and_n(pk(A),pk(B))", "andor(pk(A),pk(B),0)"),
    ("t:or_c(pk(A),v:pk(B))", "and_v(or_c(pk(A),v:pk(B)),1)"),
    ("l:pk(A)", "or_i(0,pk(A))"),
    ("u:pk(A)", "or_i(pk(A),0)"),
    ("or_d(pk(A),and_v(v:pk(B),older(5)))", "or_d(c:pk_k(A),and_v(vc:pk_k(B),older(5)))"),
    ("thresh(2,pk(A),s:pk(B),sln:older(9))", "thresh(2,c:pk_k(A),sc:pk_k(B),s:or_i(0,n:older(9)))"),
];

/// Pairs of different objects (different text, different script).
pub const DISTINCT: &[(&str, &str)] = &[
    ("thresh(1,pk(A),s:pk(B),s:pk(C))", "thresh(2,pk(A),s:pk(B),s:pk(C))"),
    ("thresh(2,pk(A),s:pk(B),s:pk(C))", "thresh(2,pk(A),s:pk(B))"),
    ("thresh(1,pk(A),s:pk(B))", "thresh(1,pk(A),s:pk(B),s:pk(C))"),
    ("multi(1,A,B)", "multi(1,A,B,C)"),
    ("multi(1,A,B)", "multi(2,A,B)"),
    ("or_b(multi(1,A),s:pk(B))", "or_b(multi(1,A,B),s:pk(C))"),
    ("and_v(v:pk(A),thresh(1,pk(B),s:pk(C)))", "and_v(v:pk(A),thresh(2,pk(B),s:pk(C)))"),
    ("or_d(pk(A),older(5))", "or_d(pk(A),older(6))"),
    ("andor(pk(A),pk(B),pk(C))", "andor(pk(A),pk(C),pk(B))"),
];

pub const INPUT_CHARSET: &str = "0123456789()[],'/*abcdefgh@:$%{}IJKLMNOPQRSTUVWXYZ&+-.;<=>?!^_|~ijklmnopqrstuvwxyzABCDEFGH`#\"\\ ";

pub struct StorageResult {
    pub objects: u64,
    pub roundtrips: u64,
    pub corrupted_parses: u64,
    pub strings_exhaustive: u64,
    pub by_kind: BTreeMap<String, u64>,
    pub by_fault: BTreeMap<String, u64>,
    pub distinct: BTreeSet<u64>,
    pub violation: Option<(String, String)>,
    pub samples: Vec<String>,
}

fn parses(s: &str) -> bool { catch_unwind(AssertUnwindSafe(|| Descriptor::<DescriptorPublicKey>::from_str(s).is_ok())).unwrap_or(true) }

/// One storage-mode run: returns the first violation (class, detail) if any.
pub fn storage_run(seed: u64, run: u64, doubles: u64, res: &mut StorageResult) {
    let objs = storage_objects(mix(&[seed, run]), run);
    let mut rng = Rng::new(mix(&[seed, run, 0x666c74]));
    for (kind, text) in &objs {
        res.objects += 1;
        *res.by_kind.entry(kind.to_string()).or_insert(0) += 1;
        // fault-free baseline: persist, restart = parse
        let r = catch_unwind(AssertUnwindSafe(|| roundtrip(kind, text)));
        match r {
            Err(_) => {
                res.violation.get_or_insert(("roundtrip-panic".into(), format!("{} parser/printer panicked on {}", kind, text)));
                return;
            }
            Ok(Err(e)) => {
                if e.starts_with("parse:") {
                    // strings that are valid by construction (the library's own documented syntax) must
                    // parse; miniscript bodies cut out of unfiltered generator output need not
                    if matches!(*kind, "concrete" | "semantic" | "pubkey" | "secretkey" | "walletpolicy") && !e.contains("from_descriptor") {
                        res.violation.get_or_insert((format!("valid-text-refused:{}", kind), format!("{}: a string in the library's own syntax does not parse: {} ({})", kind, text, e)));
                        return;
                    }
                    *res.by_fault.entry("unparseable_seed".into()).or_insert(0) += 1;
                    continue;
                }
                res.violation.get_or_insert((format!("roundtrip:{}", kind), format!("{}: {} (input {})", kind, e, text)));
                return;
            }
            Ok(Ok((once, twice))) => {
                res.roundtrips += 1;
                if once != twice {
                    res.violation.get_or_insert((format!("fixpoint:{}", kind), format!("{}: printing is not a fixed point after one round trip: {} vs {}", kind, once, twice)));
                    return;
                }
                res.distinct.insert(mix(&[fnv(kind.as_bytes()), crate::monitors::skeleton_hash(&once)]));
            }
        }
        if *kind != "descriptor" {
            continue;
        }
        // checksum: what the library prints is what it accepts; without checksum still parses
        let d = match Descriptor::<DescriptorPublicKey>::from_str(text) {
            Ok(d) => d,
            Err(_) => continue,
        };
        let with = d.to_string();
        let without = format!("{:#}", d);
        if !with.contains('#') || !parses(&with) {
            res.violation.get_or_insert(("checksum-own".into(), format!("the library does not accept the checksum it prints: {}", with)));
            return;
        }
        if !parses(&without) {
            res.violation.get_or_insert(("checksum-none".into(), format!("descriptor without checksum does not parse: {}", without)));
            return;
        }
        if res.samples.len() < 3 {
            res.samples.push(with.clone());
        }
        // corruption faults on the stored string
        let chars: Vec<char> = with.chars().collect();
        if chars.len() > 520 {
            continue;
        }
        let alphabet: Vec<char> = INPUT_CHARSET.chars().collect();
        let exhaustive = res.strings_exhaustive < 2 || run % 8 == 0;
        if exhaustive {
            res.strings_exhaustive += 1;
            for pos in 0..chars.len() {
                for c in &alphabet {
                    if *c == chars[pos] {
                        continue;
                    }
                    let mut v = chars.clone();
                    v[pos] = *c;
                    let s: String = v.iter().collect();
                    res.corrupted_parses += 1;
                    if parses(&s) {
                        res.violation.get_or_insert(("checksum-1sub".into(), format!("a single substituted character is not detected: position {} '{}' -> '{}' in {}", pos, chars[pos], c, with)));
                        return;
                    }
                }
            }
            *res.by_fault.entry("single_substitution_exhaustive_strings".into()).or_insert(0) += 1;
        }
        for _ in 0..doubles {
            // double substitution anywhere
            let mut v = chars.clone();
            let a = rng.below(v.len() as u64) as usize;
            let mut b = rng.below(v.len() as u64) as usize;
            if b == a {
                b = (a + 1) % v.len();
            }
            for p in [a, b] {
                let mut c = *rng.pick(&alphabet);
                while c == v[p] {
                    c = *rng.pick(&alphabet);
                }
                v[p] = c;
            }
            let s: String = v.iter().collect();
            res.corrupted_parses += 1;
            *res.by_fault.entry("double_substitution".into()).or_insert(0) += 1;
            if parses(&s) {
                res.violation.get_or_insert(("checksum-2sub".into(), format!("two substituted characters are not detected: {} -> {}", with, s)));
                return;
            }
            // up to four substitutions inside the first character group
            let group0: Vec<char> = INPUT_CHARSET.chars().take(32).collect();
            let g0pos: Vec<usize> = (0..chars.len()).filter(|i| group0.contains(&chars[*i])).collect();
            if g0pos.len() >= 4 {
                let mut v = chars.clone();
                let k = rng.range(3, 4);
                let mut used = BTreeSet::new();
                while (used.len() as u64) < k {
                    used.insert(*rng.pick(&g0pos));
                }
                for p in used {
                    let mut c = *rng.pick(&group0);
                    while c == v[p] {
                        c = *rng.pick(&group0);
                    }
                    v[p] = c;
                }
                let s: String = v.iter().collect();
                res.corrupted_parses += 1;
                *res.by_fault.entry("in_group_3_4_substitutions".into()).or_insert(0) += 1;
                if parses(&s) {
                    res.violation.get_or_insert(("checksum-4sub".into(), format!("3-4 in-group substitutions are not detected: {} -> {}", with, s)));
                    return;
                }
            }
        }
    }
    // object-first round trips: the object is built by the library (lift / translation), printed, parsed
    for (kind, text) in &objs {
        if *kind != "concrete" {
            continue;
        }
        let r = catch_unwind(AssertUnwindSafe(|| -> Result<(), String> {
            let c = Concrete::<String>::from_str(text).map_err(|_| String::new())?;
            let sem = c.lift().map_err(|_| String::new())?;
            for obj in [sem.clone(), sem.clone().normalized(), sem.clone().normalized().sorted()] {
                let printed = obj.to_string();
                match Semantic::<String>::from_str(&printed) {
                    Ok(back) => {
                        if back != obj {
                            return Err(format!("semantic policy object != parse(print(object)): printed {} re-printed {}", printed, back));
                        }
                    }
                    Err(e) => return Err(format!("semantic policy does not parse its own output {}: {}", printed, e)),
                }
            }
            // concrete object: parse(print(c)) == c
            let printed = c.to_string();
            match Concrete::<String>::from_str(&printed) {
                Ok(back) if back == c => Ok(()),
                Ok(back) => Err(format!("concrete policy object != parse(print(object)): {} vs {}", printed, back)),
                Err(e) => Err(format!("concrete policy does not parse its own output {}: {}", printed, e)),
            }
        }));
        res.roundtrips += 1;
        match r {
            Ok(Ok(())) => {}
            Ok(Err(e)) if e.is_empty() => {}
            Ok(Err(e)) => {
                res.violation.get_or_insert(("object-roundtrip:policy".into(), e));
                return;
            }
            Err(_) => {
                res.violation.get_or_insert(("roundtrip-panic".into(), format!("policy printer/parser panicked on {}", text)));
                return;
            }
        }
    }
    // the equality the round-trip checks rest on: objects with different text (different threshold,
    // different number of children, one tree a prefix of the other) must not compare equal, and
    // ==, cmp and Hash must agree
    if run % 16 == 1 {
        use std::hash::{Hash, Hasher};
        let h = |m: &Miniscript<String, miniscript::Segwitv0>| {
            let mut s = std::collections::hash_map::DefaultHasher::new();
            m.hash(&mut s);
            s.finish()
        };
        for (a, b) in DISTINCT {
            let pa = Miniscript::<String, miniscript::Segwitv0>::from_str_insane(a);
            let pb = Miniscript::<String, miniscript::Segwitv0>::from_str_insane(b);
            if let (Ok(x), Ok(y)) = (pa, pb) {
                let eq = x == y;
                let ord = catch_unwind(AssertUnwindSafe(|| x.cmp(&y)));
                let bad = match ord {
                    Err(_) => Some("cmp panics".to_string()),
                    Ok(o) if eq || o == std::cmp::Ordering::Equal || h(&x) == h(&y) => Some(format!("== is {}, cmp is {:?}, hashes {}", eq, o, if h(&x) == h(&y) { "equal" } else { "differ" })),
                    _ => None,
                };
                if let Some(d) = bad {
                    res.violation.get_or_insert(("equality".into(), format!("{} and {} are different objects with different text, but {}", a, b, d)));
                    return;
                }
            }
        }
    }
    // aliases
    if run % 16 == 0 {
        for (a, b) in ALIASES {
            let pa = Miniscript::<String, miniscript::Segwitv0>::from_str_insane(a);
            let pb = Miniscript::<String, miniscript::Segwitv0>::from_str_insane(b);
            match (pa, pb) {
                (Ok(x), Ok(y)) => {
                    if x != y {
                        res.violation.get_or_insert(("alias".into(), format!("{} and {} parse to different objects", a, b)));
                        return;
                    }
                }
                (x, y) => {
                    res.violation.get_or_insert(("alias".into(), format!("alias pair does not parse: {} -> {:?} ; {} -> {:?}", a, x.err().map(|e| e.to_string()), b, y.err().map(|e| e.to_string()))));
                    return;
                }
            }
        }
    }
}

// ---------------------------------------------------------------------------------------------
// wire mode
// ---------------------------------------------------------------------------------------------

#[derive(Clone, Debug)]
pub struct WireCase {
    pub kind: &'static str,
    pub fault: &'static str,
    pub data: Vec<u8>,
    pub aux: Vec<u8>,
}

pub const WIRE_KINDS: [&str; 8] = ["descriptor", "miniscript", "policy", "key", "script", "txdata", "psbt", "walletpolicy"];

fn mutate(r: &mut Rng, base: &[u8], other: &[u8]) -> (Vec<u8>, &'static str) {
    let mut b = base.to_vec();
    if b.is_empty() {
        return (b, "none");
    }
    match r.below(10) {
        0 => {
            let i = r.below(b.len() as u64) as usize;
            b.truncate(i);
            (b, "truncate")
        }
        9 => {
            // EOF right at, or a few bytes after, a structural boundary
            let marks: Vec<usize> = (0..b.len()).filter(|i| matches!(b[*i], b']' | b'(' | b',' | b'/' | b'#' | b'{' | b'[' | b')' | b'@' | b'<' | b';')).collect();
            if marks.is_empty() {
                let i = r.below(b.len() as u64) as usize;
                b.truncate(i);
            } else {
                let m = *r.pick(&marks);
                let keep = (m + 1 + r.below(5) as usize).min(b.len());
                b.truncate(keep);
            }
            (b, "truncate_at_boundary")
        }
        1 => {
            for _ in 0..r.range(1, 3) {
                let i = r.below(b.len() as u64) as usize;
                b[i] ^= 1 << r.below(8);
            }
            (b, "bitflip")
        }
        2 => {
            let i = r.below(b.len() as u64 + 1) as usize;
            b.insert(i, r.below(256) as u8);
            (b, "insert")
        }
        3 => {
            let i = r.below(b.len() as u64) as usize;
            b.remove(i);
            (b, "delete")
        }
        4 => {
            let i = r.below(b.len() as u64) as usize;
            let j = (i + 1 + r.below(64) as usize).min(b.len());
            let seg: Vec<u8> = b[i..j].to_vec();
            let times = r.range(1, 8);
            for _ in 0..times {
                let at = i;
                for (k, x) in seg.iter().enumerate() {
                    b.insert(at + k, *x);
                }
            }
            (b, "duplicate_segment")
        }
        5 if !other.is_empty() => {
            let i = r.below(b.len() as u64) as usize;
            let j = r.below(other.len() as u64) as usize;
            let mut v = b[..i].to_vec();
            v.extend_from_slice(&other[j..]);
            (v, "splice")
        }
        6 => {
            let i = r.below(b.len() as u64) as usize;
            let j = r.below(b.len() as u64) as usize;
            b.swap(i, j);
            (b, "swap")
        }
        7 => {
            let i = r.below(b.len() as u64) as usize;
            b[i] = *r.pick(&[0x00u8, 0xff, 0x7f, 0x80, b'(', b')', b',', b'{', b'}', b'#', b'/', b'*', b'\'', b'[', b']', b'<', b';', b'@']);
            (b, "replace_special")
        }
        _ => {
            let i = r.below(b.len() as u64) as usize;
            let j = (i + r.below(32) as usize).min(b.len());
            b.drain(i..j);
            (b, "delete_segment")
        }
    }
}

/// Structure-aware script damage: numbers a peer controls (thresholds, key counts, lock values)
/// are replaced by extreme ones, or an extreme count is put in front of / behind a counting opcode.
fn script_numbers(r: &mut Rng, base: &[u8]) -> (Vec<u8>, &'static str) {
    // split into instructions: (offset, length, is small number)
    let mut ins: Vec<(usize, usize, bool)> = vec![];
    let mut i = 0;
    while i < base.len() {
        let op = base[i];
        let (len, num) = match op {
            0x00 | 0x4f | 0x51..=0x60 => (1, true),
            0x01..=0x4b => (1 + op as usize, op <= 4),
            0x4c if i + 1 < base.len() => (2 + base[i + 1] as usize, false),
            0x4d if i + 2 < base.len() => (3 + u16::from_le_bytes([base[i + 1], base[i + 2]]) as usize, false),
            _ => (1, false),
        };
        if i + len > base.len() {
            break;
        }
        ins.push((i, len, num));
        i += len;
    }
    const BIG: [&[u8]; 8] = [&[0x04, 0xff, 0xff, 0xff, 0x7f], &[0x04, 0x00, 0x00, 0x00, 0x40], &[0x04, 0x01, 0x00, 0x00, 0x08], &[0x03, 0xa0, 0x86, 0x01], &[0x03, 0xff, 0xff, 0x7f], &[0x02, 0xe8, 0x03], &[0x02, 0xff, 0x7f], &[0x05, 0xff, 0xff, 0xff, 0xff, 0x7f]];
    let big = *r.pick(&BIG);
    let nums: Vec<usize> = (0..ins.len()).filter(|k| ins[*k].2).collect();
    match r.below(3) {
        0 if !nums.is_empty() => {
            let k = *r.pick(&nums);
            let (o, l, _) = ins[k];
            let mut v = base[..o].to_vec();
            v.extend_from_slice(big);
            v.extend_from_slice(&base[o + l..]);
            (v, "script_number_extreme")
        }
        1 => {
            // the script now ends in <count> <counting opcode>
            let mut v = base.to_vec();
            let tail = *r.pick(&[0x9cu8, 0xae, 0xaf, 0x87, 0xb1, 0xb2, 0xa2]);
            if matches!(v.last(), Some(0x9c | 0xae | 0xaf | 0x87 | 0xac | 0xba)) && r.chance(1, 2) {
                v.pop();
            }
            v.extend_from_slice(big);
            v.push(tail);
            (v, "script_extreme_count_tail")
        }
        _ => {
            let mut v = big.to_vec();
            v.push(*r.pick(&[0x9cu8, 0xae, 0x87, 0xb1, 0xb2]));
            if r.chance(1, 2) {
                let mut w = base.to_vec();
                w.extend_from_slice(&v);
                v = w;
            }
            (v, "script_extreme_count_only")
        }
    }
}

fn amplify(r: &mut Rng, leaf: &str) -> (String, &'static str) {
    match r.below(7) {
        6 => {
            // derivation paths at and beyond the BIP32 depth limit (the depth byte of an xpub is a u8)
            let y = "tpubD6NzVbkrYhZ4WaWSyoBvQwbpLkojyoTZPRsgXELWz3Popb3qkjcJyJUGLnL4qHHoQvao8ESaAstxYSnhyswJ76uZPStJRJCTKvosUCJZL5B";
            let n = *r.pick(&[250u64, 254, 255, 256, 257, 300, 1000]);
            let mut k = String::from(y);
            for i in 0..n {
                k.push_str(if i % 7 == 3 { "/1" } else { "/0" });
            }
            if r.chance(1, 2) {
                k.push_str("/*");
            }
            let s = match r.below(4) {
                0 => format!("wpkh({})", k),
                1 => format!("wsh(pk({}))", k),
                2 => format!("tr({})", k),
                _ => format!("sh(multi(1,{},{}/5))", k, y),
            };
            (s, "derivation_depth")
        }
        5 => {
            // near-valid: multipath keys with different numbers of alternatives in one descriptor
            let x = "tpubDBrgjcxBxnXyL575sHdkpKohWu5qHKoQ7TJXKNrYznh5fVEGBv89hA8ENW7A8MFVpFUSvgLqc4Nj1WZcpePX6rrxviVtPowvMuGF5rdT2Vi";
            let y = "tpubD6NzVbkrYhZ4WaWSyoBvQwbpLkojyoTZPRsgXELWz3Popb3qkjcJyJUGLnL4qHHoQvao8ESaAstxYSnhyswJ76uZPStJRJCTKvosUCJZL5B";
            let a = 2 + r.below(3);
            let b = 2 + r.below(4);
            let alt = |n: u64| (0..n).map(|i| i.to_string()).collect::<Vec<_>>().join(";");
            let s = match r.below(4) {
                0 => format!("tr({}/<{}>/*,pk({}/<{}>/*))", x, alt(a), y, alt(b)),
                1 => format!("tr({}/<{}>/*,{{pk({}/<{}>/*),pk({}/9/<{}>/*)}})", x, alt(a), y, alt(b), y, alt(a)),
                2 => format!("wsh(multi(2,{}/<{}>/*,{}/<{}>/*))", x, alt(a), y, alt(b)),
                _ => format!("sh(wsh(or_d(pk({}/<{}>/*),pk({}/<{}>/*))))", x, alt(a), y, alt(b)),
            };
            (s, "multipath_uneven")
        }
        0 => {
            // deep nesting of and_v beyond the 402 limit
            let d = *r.pick(&[50u64, 200, 401, 402, 403, 1000, 5000]);
            let mut s = String::new();
            for _ in 0..d {
                s.push_str("and_v(v:pk(A),");
            }
            s.push_str(leaf);
            for _ in 0..d {
                s.push(')');
            }
            (s, "nest_deep")
        }
        1 => {
            let n = *r.pick(&[21u64, 100, 1000, 20000]);
            let mut s = format!("thresh({}", 1 + r.below(n));
            for i in 0..n {
                s.push_str(if i == 0 { ",pk(A)" } else { ",s:pk(A)" });
            }
            s.push(')');
            (s, "wide_thresh")
        }
        2 => {
            let d = *r.pick(&[10u64, 128, 129, 500, 3000]);
            let mut s = String::from("tr(A,");
            for _ in 0..d {
                s.push_str("{pk(B),");
            }
            s.push_str("pk(C)");
            for _ in 0..d {
                s.push('}');
            }
            s.push(')');
            (s, "taptree_deep")
        }
        3 => {
            let d = *r.pick(&[100u64, 1000, 100000]);
            let mut s = String::new();
            for _ in 0..d {
                s.push_str(*r.pick(&["(", "{", "[", "<"]));
            }
            (s, "open_brackets")
        }
        _ => {
            let d = *r.pick(&[50u64, 500, 5000]);
            let mut s = String::new();
            for _ in 0..d {
                s.push_str(*r.pick(&["a", "s", "c", "d", "v", "j", "n", "t", "l", "u"]));
            }
            s.push(':');
            s.push_str(leaf);
            (s, "wrapper_chain")
        }
    }
}

pub struct WireSeeds {
    pub descriptors: Vec<String>,
    pub miniscripts: Vec<String>,
    pub policies: Vec<String>,
    pub keys: Vec<String>,
    pub scripts: Vec<Vec<u8>>,
    pub txdata: Vec<(Vec<u8>, Vec<u8>, Vec<Vec<u8>>)>,
    pub psbts: Vec<Vec<u8>>,
    pub wallet_policies: Vec<String>,
    pub definite: Vec<String>,
}

/// Valid artefacts of every kind, harvested from fault-free engine-A runs and the generators.
pub fn wire_seeds(seed: u64, shard: u64) -> WireSeeds {
    let mut ws = WireSeeds { descriptors: vec![], miniscripts: vec![], policies: vec![], keys: vec![], scripts: vec![], txdata: vec![], psbts: vec![], wallet_policies: vec![], definite: vec![] };
    for k in 0..6u64 {
        for (kind, text) in storage_objects(mix(&[seed, shard, k]), k) {
            match kind {
                "descriptor" => ws.descriptors.push(text),
                "ms-segwit" | "ms-legacy" => ws.miniscripts.push(text),
                "concrete" | "semantic" => ws.policies.push(text),
                "pubkey" | "secretkey" => ws.keys.push(text),
                "walletpolicy" => ws.wallet_policies.push(text),
                _ => {}
            }
        }
    }
    // PSBTs and transactions from fault-free simulated runs
    let mon = crate::monitors::MonCfg::default();
    let bias = crate::scenario::GenBias { fault_free: true, ..Default::default() };
    for k in 0..3u64 {
        let (sc, uni) = crate::scenario::Scenario::generate(mix(&[seed, shard]), "C11-seeds", k, &bias);
        if let Ok(mut w) = crate::sim::World::new(&sc, uni, &mon, "C11-seeds") {
            w.collect_artifacts = true;
            for i in &w.env.inputs {
                ws.scripts.push(i.spk.as_bytes().to_vec());
                if let Ok(s) = i.desc.explicit_script() {
                    ws.scripts.push(s.into_bytes());
                }
                ws.definite.push(i.desc.to_string());
            }
            let spks: Vec<Vec<u8>> = w.env.inputs.iter().map(|i| i.spk.as_bytes().to_vec()).collect();
            let r = w.run();
            for (kind, bytes) in r.artifacts {
                if kind == "psbt" {
                    if ws.psbts.len() < 24 {
                        ws.psbts.push(bytes);
                    }
                } else if let Ok(tx) = bitcoin::consensus::deserialize::<bitcoin::Transaction>(&bytes) {
                    for (i, inp) in tx.input.iter().enumerate() {
                        if i < spks.len() {
                            ws.txdata.push((spks[i].clone(), inp.script_sig.as_bytes().to_vec(), inp.witness.iter().map(|x| x.to_vec()).collect()));
                        }
                    }
                }
            }
        }
    }
    ws
}

pub fn wire_case(ws: &WireSeeds, r: &mut Rng) -> WireCase {
    let kind = *r.pick(&WIRE_KINDS);
    let pick_s = |r: &mut Rng, v: &Vec<String>| -> Vec<u8> {
        if v.is_empty() {
            b"pk(A)".to_vec()
        } else {
            r.pick(v).as_bytes().to_vec()
        }
    };
    match kind {
        "descriptor" | "miniscript" | "policy" | "key" | "walletpolicy" => {
            let pool = match kind {
                "descriptor" => &ws.descriptors,
                "miniscript" => &ws.miniscripts,
                "policy" => &ws.policies,
                "key" => &ws.keys,
                _ => &ws.wallet_policies,
            };
            if r.chance(1, 6) && kind != "key" {
                let (s, f) = amplify(r, "pk(A)");
                let s = if kind == "descriptor" && !s.starts_with("tr(") && !s.starts_with("wsh(") && !s.starts_with("sh(") && !s.starts_with("wpkh(") { format!("wsh({})", s) } else { s };
                return WireCase { kind, fault: f, data: s.into_bytes(), aux: vec![] };
            }
            let base = pick_s(r, pool);
            let other = pick_s(r, pool);
            let (mut data, mut fault) = mutate(r, &base, &other);
            if r.chance(1, 4) {
                let (d2, f2) = mutate(r, &data, &other);
                data = d2;
                fault = f2;
            }
            // a stale or hostile peer re-computes the checksum over its damaged descriptor, so the
            // damage is not stopped at the checksum gate and reaches the parsers behind it
            if kind == "descriptor" && r.chance(1, 2) {
                if let Ok(s) = std::str::from_utf8(&data) {
                    let body = s.split('#').next().unwrap_or("").to_string();
                    // the checksum engine is library code: if it panics here the same body is handed to
                    // wire_exec, which calls it again under the panic guard and reports it
                    let r = catch_unwind(AssertUnwindSafe(|| {
                        let mut eng = miniscript::descriptor::checksum::Engine::new();
                        eng.input(&body).ok().map(|_| eng.checksum())
                    }));
                    match r {
                        Ok(Some(c)) => data = format!("{}#{}", body, c).into_bytes(),
                        Ok(None) => {}
                        Err(_) => data = body.into_bytes(),
                    }
                }
            }
            WireCase { kind, fault, data, aux: vec![] }
        }
        "script" => {
            let base = if ws.scripts.is_empty() { vec![0x51] } else { r.pick(&ws.scripts).clone() };
            let other = if ws.scripts.is_empty() { vec![0x51] } else { r.pick(&ws.scripts).clone() };
            let (data, fault) = if r.chance(1, 4) { script_numbers(r, &base) } else { mutate(r, &base, &other) };
            WireCase { kind, fault, data, aux: vec![] }
        }
        "txdata" => {
            if ws.txdata.is_empty() {
                return WireCase { kind, fault: "none", data: vec![0x51], aux: vec![] };
            }
            let (spk, ss, wit) = r.pick(&ws.txdata).clone();
            // encode as: spk | scriptSig | witness items, mutate one component
            let mut wit = wit;
            let mut ss = ss;
            let mut spk = spk;
            let fault;
            match r.below(5) {
                4 if !wit.is_empty() => {
                    // the script item of the witness (last, or the one before a control block)
                    let i = if wit.len() >= 2 && wit[wit.len() - 1].len() >= 33 && (wit[wit.len() - 1].len() - 33) % 32 == 0 && wit[wit.len() - 1][0] & 0xfe == 0xc0 { wit.len() - 2 } else { wit.len() - 1 };
                    let (m, f) = script_numbers(r, &wit[i].clone());
                    wit[i] = m;
                    fault = f;
                }
                0 if !wit.is_empty() => {
                    let i = r.below(wit.len() as u64) as usize;
                    let o = wit[(i + 1) % wit.len()].clone();
                    let (m, f) = mutate(r, &wit[i].clone(), &o);
                    wit[i] = m;
                    fault = f;
                }
                1 if !wit.is_empty() => {
                    match r.below(3) {
                        0 => {
                            let i = r.below(wit.len() as u64) as usize;
                            wit.remove(i);
                        }
                        1 => {
                            let i = r.below(wit.len() as u64) as usize;
                            let v = wit[i].clone();
                            wit.insert(i, v);
                        }
                        _ => {
                            let i = r.below(wit.len() as u64) as usize;
                            let j = r.below(wit.len() as u64) as usize;
                            wit.swap(i, j);
                        }
                    }
                    fault = "witness_items";
                }
                2 => {
                    let (m, f) = mutate(r, &ss.clone(), &spk);
                    ss = m;
                    fault = f;
                }
                _ => {
                    let (m, f) = mutate(r, &spk.clone(), &ss);
                    spk = m;
                    fault = f;
                }
            }
            if fault.starts_with("script_") && !wit.is_empty() {
                // keep the commitment valid so that the damaged script is what gets decoded
                use bitcoin::hashes::{sha256, Hash};
                let last = wit[wit.len() - 1].clone();
                if spk.len() == 34 && spk[0] == 0x00 {
                    spk[2..].copy_from_slice(sha256::Hash::hash(&last).as_byte_array());
                } else if spk.len() == 34 && spk[0] == 0x51 && wit.len() >= 2 && last.len() >= 33 && (last.len() - 33) % 32 == 0 {
                    let script = &wit[wit.len() - 2];
                    let mut k = crate::vm::tapleaf_hash(last[0] & 0xfe, script);
                    for c in last[33..].chunks(32) {
                        let mut h = [0u8; 32];
                        h.copy_from_slice(c);
                        k = crate::vm::tapbranch_hash(&k, &h);
                    }
                    let mut ik = [0u8; 32];
                    ik.copy_from_slice(&last[1..33]);
                    if let Ok(p) = bitcoin::secp256k1::XOnlyPublicKey::from_slice(&ik) {
                        let t = crate::vm::taptweak_hash(&ik, Some(&k));
                        let secp = bitcoin::secp256k1::Secp256k1::verification_only();
                        if let Ok(sc) = bitcoin::secp256k1::Scalar::from_be_bytes(t) {
                            if let Ok((q, par)) = p.add_tweak(&secp, &sc) {
                                spk[2..].copy_from_slice(&q.serialize());
                                let n = wit.len();
                                wit[n - 1][0] = (last[0] & 0xfe) | (par == bitcoin::secp256k1::Parity::Odd) as u8;
                            }
                        }
                    }
                } else if spk.len() == 23 && ss.len() == 35 && ss[1] == 0x00 {
                    // sh(wsh): scriptSig pushes the witness program
                    ss[3..].copy_from_slice(sha256::Hash::hash(&last).as_byte_array());
                    let h = bitcoin::hashes::hash160::Hash::hash(&ss[1..]);
                    spk[2..22].copy_from_slice(h.as_byte_array());
                }
            }
            let mut aux = vec![];
            aux.extend_from_slice(&(ss.len() as u32).to_le_bytes());
            aux.extend_from_slice(&ss);
            aux.extend_from_slice(&(wit.len() as u32).to_le_bytes());
            for w in &wit {
                aux.extend_from_slice(&(w.len() as u32).to_le_bytes());
                aux.extend_from_slice(w);
            }
            WireCase { kind, fault, data: spk, aux }
        }
        _ => {
            if ws.psbts.is_empty() {
                return WireCase { kind: "psbt", fault: "none", data: vec![], aux: vec![] };
            }
            let base = r.pick(&ws.psbts).clone();
            let other = r.pick(&ws.psbts).clone();
            // field-level damage: a peer that leaves out (optional or required) fields of an input,
            // or moves them between inputs; the result is a well-formed PSBT
            if r.chance(1, 3) {
                if let Ok(mut p) = bitcoin::psbt::Psbt::deserialize(&base) {
                    let n = p.inputs.len();
                    for _ in 0..r.range(1, 3) {
                        if n == 0 {
                            break;
                        }
                        let i = r.below(n as u64) as usize;
                        let j = r.below(n as u64) as usize;
                        match r.below(12) {
                            0 => p.inputs[i].bip32_derivation.clear(),
                            1 => p.inputs[i].tap_key_origins.clear(),
                            2 => p.inputs[i].witness_script = None,
                            3 => p.inputs[i].redeem_script = None,
                            4 => p.inputs[i].tap_internal_key = None,
                            5 => p.inputs[i].tap_merkle_root = None,
                            6 => p.inputs[i].tap_scripts.clear(),
                            7 => p.inputs[i].witness_utxo = None,
                            8 => p.inputs[i].non_witness_utxo = None,
                            9 => {
                                let x = p.inputs[j].partial_sigs.clone();
                                p.inputs[i].partial_sigs.extend(x);
                            }
                            10 => {
                                let k: Vec<_> = p.inputs[i].tap_key_origins.keys().copied().collect();
                                if let Some(k) = k.first() {
                                    p.inputs[i].tap_key_origins.remove(k);
                                }
                            }
                            _ => {
                                let x = p.inputs[j].clone();
                                p.inputs[i] = x;
                            }
                        }
                    }
                    let aux = if ws.definite.is_empty() { vec![] } else { r.pick(&ws.definite).as_bytes().to_vec() };
                    return WireCase { kind: "psbt", fault: "psbt_fields", data: p.serialize(), aux };
                }
            }
            let (mut data, mut fault) = mutate(r, &base, &other);
            if r.chance(1, 3) {
                let (d2, f2) = mutate(r, &data, &other);
                data = d2;
                fault = f2;
            }
            let aux = if ws.definite.is_empty() { vec![] } else { r.pick(&ws.definite).as_bytes().to_vec() };
            WireCase { kind: "psbt", fault, data, aux }
        }
    }
}

/// `wire_exec` with allocation accounting: Err when the library asked for one allocation far beyond
/// anything the size of the input explains.
pub fn wire_exec_guarded(c: &WireCase) -> Result<u32, String> {
    crate::alloc_track::reset();
    let r = wire_exec(c);
    let m = crate::alloc_track::max_single();
    let len = c.data.len() + c.aux.len();
    if m > crate::alloc_track::allowance(len) {
        return Err(format!("allocation without bound: one allocation of {} bytes while handling a {} input of {} bytes", m, c.kind, len));
    }
    Ok(r)
}

/// Feed one case to the matching library entry points. Panics propagate to the caller.
pub fn wire_exec(c: &WireCase) -> u32 {
    let mut reached = 0u32;
    match c.kind {
        "descriptor" => {
            if let Ok(s) = std::str::from_utf8(&c.data) {
                if let Ok(d) = Descriptor::<DescriptorPublicKey>::from_str(s) {
                    reached |= 1;
                    let _ = d.to_string();
                    let _ = d.max_weight_to_satisfy();
                    let _ = d.lift();
                    let _ = d.desc_type();
                    if let Ok(dd) = d.derive_at_index(3).into_result() {
                        reached |= 2;
                        let _ = dd.script_pubkey();
                        let _ = dd.address(bitcoin::Network::Bitcoin);
                        let _ = dd.explicit_script();
                        let assets = miniscript::plan::Assets::new();
                        let _ = dd.clone().into_plan(&assets);
                    }
                    if let Ok(v) = d.clone().into_single_descriptors() {
                        reached |= 4;
                        let _ = v.len();
                    }
                }
                let _ = Descriptor::<String>::from_str(s);
                let _ = miniscript::descriptor::checksum::verify_checksum(s);
                let mut eng = miniscript::descriptor::checksum::Engine::new();
                let _ = eng.input(s.split('#').next().unwrap_or(""));
                let _ = Descriptor::parse_descriptor(&bitcoin::secp256k1::Secp256k1::signing_only(), s);
            }
        }
        "miniscript" => {
            if let Ok(s) = std::str::from_utf8(&c.data) {
                if let Ok(m) = Miniscript::<DescriptorPublicKey, miniscript::Segwitv0>::from_str_insane(s) {
                    reached |= 1;
                    let _ = m.to_string();
                    let _ = m.lift();
                    let _ = m.script_size();
                    let _ = m.max_satisfaction_size();
                }
                let _ = Miniscript::<String, miniscript::Legacy>::from_str_insane(s);
                let _ = Miniscript::<String, miniscript::Tap>::from_str_insane(s);
                let _ = Miniscript::<String, miniscript::BareCtx>::from_str(s);
                let _ = Miniscript::<String, miniscript::Segwitv0>::from_str_with_validation_params(s, &miniscript::ValidationParams::MAX);
            }
        }
        "policy" => {
            if let Ok(s) = std::str::from_utf8(&c.data) {
                if let Ok(p) = Concrete::<String>::from_str(s) {
                    reached |= 1;
                    let _ = p.to_string();
                    let _ = p.lift();
                    if s.len() < 400 {
                        let _ = p.compile::<miniscript::Segwitv0>();
                        reached |= 2;
                    }
                }
                if let Ok(p) = Semantic::<String>::from_str(s) {
                    reached |= 4;
                    let n = p.clone().normalized();
                    let _ = n.clone().sorted();
                    let _ = n.n_keys();
                    let _ = n.minimum_n_keys();
                    let _ = n.to_string();
                }
            }
        }
        "key" => {
            if let Ok(s) = std::str::from_utf8(&c.data) {
                if let Ok(k) = DescriptorPublicKey::from_str(s) {
                    reached |= 1;
                    let _ = k.to_string();
                    let _ = k.master_fingerprint();
                    let _ = k.full_derivation_paths();
                    let _ = k.clone().into_single_keys();
                    let _ = k.at_derivation_index(7);
                }
                if let Ok(k) = DescriptorSecretKey::from_str(s) {
                    reached |= 2;
                    let _ = k.to_string();
                    let _ = k.to_public(&bitcoin::secp256k1::Secp256k1::signing_only());
                }
            }
        }
        "walletpolicy" => {
            if let Ok(s) = std::str::from_utf8(&c.data) {
                if let Ok(p) = WalletPolicy::from_str(s) {
                    reached |= 1;
                    let _ = p.to_string();
                    let _ = p.clone().into_descriptor();
                    // key information from an untrusted host (BIP388 flow): keys of every form,
                    // including ones the template's script context does not allow
                    const HOST_KEYS: [&str; 5] = [
                        "tpubD6NzVbkrYhZ4WaWSyoBvQwbpLkojyoTZPRsgXELWz3Popb3qkjcJyJUGLnL4qHHoQvao8ESaAstxYSnhyswJ76uZPStJRJCTKvosUCJZL5B",
                        "02a489e0ea42b56148d212d325b7c67c6460483ff931c303ea311edfef667c8f35",
                        "04a34b99f22c790c4e36b2b3c2c35a36db06226e41c692fc82b8b56ac1c540c5bd5b8dec5235a0fa8722476c7709c02559e3aa73aa03918ba2d492eea75abea235",
                        "a489e0ea42b56148d212d325b7c67c6460483ff931c303ea311edfef667c8f35",
                        "[d34db33f/48'/0'/0']tpubD6NzVbkrYhZ4WaWSyoBvQwbpLkojyoTZPRsgXELWz3Popb3qkjcJyJUGLnL4qHHoQvao8ESaAstxYSnhyswJ76uZPStJRJCTKvosUCJZL5B",
                    ];
                    let pick = c.data.len() + c.data.iter().map(|b| *b as usize).sum::<usize>();
                    for off in 0..HOST_KEYS.len() {
                        let keys: Vec<DescriptorPublicKey> = (0..8).filter_map(|i| DescriptorPublicKey::from_str(HOST_KEYS[(pick + off + i * (1 + off)) % HOST_KEYS.len()]).ok()).collect();
                        for n in 1..=keys.len() {
                            let mut q = p.clone();
                            if q.set_key_info(&keys[..n]).is_ok() {
                                reached |= 2;
                                let _ = q.into_descriptor();
                            }
                        }
                    }
                }
            }
        }
        "script" => {
            let sc = ScriptBuf::from_bytes(c.data.clone());
            if let Ok(m) = Miniscript::<bitcoin::PublicKey, miniscript::Segwitv0>::decode_consensus(&sc) {
                reached |= 1;
                let _ = m.encode();
                let _ = m.to_string();
                let _ = m.lift();
            }
            let _ = Miniscript::<bitcoin::PublicKey, miniscript::Legacy>::decode_consensus(&sc);
            let _ = Miniscript::<bitcoin::PublicKey, miniscript::BareCtx>::decode(&sc);
            if let Ok(m) = Miniscript::<bitcoin::secp256k1::XOnlyPublicKey, miniscript::Tap>::decode_consensus(&sc) {
                reached |= 2;
                let _ = m.encode();
            }
        }
        "txdata" => {
            let spk = ScriptBuf::from_bytes(c.data.clone());
            let mut p = 0usize;
            let rd = |p: &mut usize, a: &[u8]| -> Option<Vec<u8>> {
                if *p + 4 > a.len() {
                    return None;
                }
                let n = u32::from_le_bytes([a[*p], a[*p + 1], a[*p + 2], a[*p + 3]]) as usize;
                *p += 4;
                if *p + n > a.len() {
                    return None;
                }
                let v = a[*p..*p + n].to_vec();
                *p += n;
                Some(v)
            };
            let ss = ScriptBuf::from_bytes(rd(&mut p, &c.aux).unwrap_or_default());
            let mut wit = vec![];
            if p + 4 <= c.aux.len() {
                let n = u32::from_le_bytes([c.aux[p], c.aux[p + 1], c.aux[p + 2], c.aux[p + 3]]) as usize;
                p += 4;
                for _ in 0..n.min(1000) {
                    match rd(&mut p, &c.aux) {
                        Some(v) => wit.push(v),
                        None => break,
                    }
                }
            }
            let w = Witness::from_slice(&wit);
            if let Ok(i) = Interpreter::from_txdata(&spk, &ss, &w, Sequence(10), absolute::LockTime::from_consensus(1000)) {
                reached |= 1;
                let n = i.iter_assume_sigs().count();
                let _ = i.inferred_descriptor();
                let _ = i.inferred_descriptor_string();
                if n > 0 {
                    reached |= 2;
                }
            }
        }
        "psbt" => {
            if let Ok(psbt) = Psbt::deserialize(&c.data) {
                reached |= 1;
                let secp = bitcoin::secp256k1::Secp256k1::verification_only();
                let mut a = psbt.clone();
                if a.finalize_mut(&secp).is_ok() {
                    reached |= 2;
                }
                let _ = a.extract(&secp);
                let mut b = psbt.clone();
                let _ = b.finalize_mall_mut(&secp);
                let mut c2 = psbt.clone();
                for i in 0..c2.inputs.len().min(4) + 1 {
                    let _ = c2.finalize_inp_mut(&secp, i);
                }
                let tx = psbt.unsigned_tx.clone();
                let mut cache = SighashCache::new(&tx);
                for i in 0..psbt.inputs.len().min(4) + 1 {
                    let _ = psbt.sighash_msg(i, &mut cache, None);
                    let lh = bitcoin::taproot::TapLeafHash::from_script(ScriptBuf::from_bytes(vec![0x51]).as_script(), bitcoin::taproot::LeafVersion::TapScript);
                    let _ = psbt.sighash_msg(i, &mut cache, Some(lh));
                }
                if let Ok(s) = std::str::from_utf8(&c.aux) {
                    if let Ok(d) = Descriptor::<miniscript::DefiniteDescriptorKey>::from_str(s) {
                        let mut u = psbt.clone();
                        for i in 0..u.inputs.len().min(3) + 1 {
                            let _ = u.update_input_with_descriptor(i, &d);
                        }
                        for i in 0..u.outputs.len().min(2) + 1 {
                            let _ = u.update_output_with_descriptor(i, &d);
                        }
                        reached |= 4;
                    }
                }
                let _ = miniscript::psbt::interpreter_check(&psbt, &secp);
            }
        }
        _ => {}
    }
    reached
}

pub fn case_hex(c: &WireCase) -> String { format!("{}:{}:{}:{}", c.kind, c.fault, hex_of(&c.data), hex_of(&c.aux)) }

pub fn case_from_hex(s: &str) -> Option<WireCase> {
    let mut it = s.splitn(4, ':');
    let kind = it.next()?;
    let fault = it.next()?;
    let data = crate::keys::unhex(it.next()?)?;
    let aux = crate::keys::unhex(it.next()?)?;
    let kind = WIRE_KINDS.iter().copied().find(|k| *k == kind)?;
    let _ = fault;
    Some(WireCase { kind, fault: "replay", data, aux })
}

/// Worker: run `count` cases of `shard`. Prints one summary line; with `trace` prints the case index
/// before executing it so that a crash or hang can be attributed.
pub fn worker(seed: u64, shard: u64, count: u64, trace: bool) -> i32 {
    use std::io::Write;
    let ws = wire_seeds(seed, shard);
    let mut r = Rng::new(mix(&[seed, shard, 0x77697265]));
    let mut by_kind: BTreeMap<&str, u64> = BTreeMap::new();
    let mut by_fault: BTreeMap<&str, u64> = BTreeMap::new();
    let mut reached_any: BTreeMap<&str, u64> = BTreeMap::new();
    let mut distinct: BTreeSet<u64> = BTreeSet::new();
    let out = std::io::stdout();
    for i in 0..count {
        let c = wire_case(&ws, &mut r);
        if trace {
            let mut o = out.lock();
            let _ = writeln!(o, "CASE {} {}", i, case_hex(&c));
            let _ = o.flush();
        }
        *by_kind.entry(c.kind).or_insert(0) += 1;
        *by_fault.entry(c.fault).or_insert(0) += 1;
        let res = catch_unwind(AssertUnwindSafe(|| wire_exec_guarded(&c)));
        match res {
            Ok(Err(m)) => {
                println!("PANIC {} {} {}", i, m, case_hex(&c));
                return 1;
            }
            Ok(Ok(reach)) => {
                if reach != 0 {
                    *reached_any.entry(c.kind).or_insert(0) += 1;
                    distinct.insert(mix(&[fnv(c.kind.as_bytes()), fnv(c.fault.as_bytes()), reach as u64, fnv(&c.data)]));
                }
            }
            Err(e) => {
                let msg = e.downcast_ref::<String>().cloned().or_else(|| e.downcast_ref::<&str>().map(|s| s.to_string())).unwrap_or("panic".into());
                println!("PANIC {} {} {}", i, msg.replace('\n', " "), case_hex(&c));
                return 1;
            }
        }
    }
    let j = serde_json::json!({"shard": shard, "cases": count, "by_kind": by_kind, "by_fault": by_fault, "accepted_by_parser": reached_any, "distinct": distinct.len(),
        "sample": case_hex(&wire_case(&ws, &mut Rng::new(shard)))});
    println!("DONE {}", j);
    0
}
