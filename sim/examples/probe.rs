use std::str::FromStr;
use miniscript::{Descriptor, DescriptorPublicKey};
fn main() {
    let a = "02e493dbf1c10d80f3581e4904930b1404cc6c13900ee0758474fa94abe8c4cd13";
    let b = "03a34b99f22c790c4e36b2b3c2c35a36db06226e41c692fc82b8b56ac1c540c5bd";
    for s in [
        format!("wsh(or_d(pk({a}),older(5)))"),
        format!("wsh(or_b(pk({a}),a:pk({a})))"),
        format!("wsh(and_v(v:pk({a}),or_d(pk({b}),older(5))))"),
        format!("wsh(or_i(pk({a}),pk({b})))"),
        format!("wsh(andor(pk({a}),older(5),after(100)))"),
        format!("sh(or_i(pk({a}),pk({b})))"),
        format!("tr({a},or_d(pk({b}),older(5)))"),
        format!("{}", "pk(02e493dbf1c10d80f3581e4904930b1404cc6c13900ee0758474fa94abe8c4cd13)"),
        format!("wsh(thresh(2,pk({a}),s:pk({b}),sdv:older(5)))"),
    ] {
        match Descriptor::<DescriptorPublicKey>::from_str(&s) {
            Ok(d) => println!("OK   {} -> {}", s, d),
            Err(e) => println!("ERR  {} -> {}", s, e),
        }
    }
}
