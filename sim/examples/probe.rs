use std::str::FromStr;
use miniscript::{Descriptor, DefiniteDescriptorKey, Interpreter};
use bitcoin::{Witness, ScriptBuf, Sequence, absolute};
fn main() {
    let a = "02e493dbf1c10d80f3581e4904930b1404cc6c13900ee0758474fa94abe8c4cd13";
    let d = Descriptor::<DefiniteDescriptorKey>::from_str(&format!("wsh(pkh({a}))")).unwrap();
    let spk = d.script_pubkey();
    let script = d.explicit_script().unwrap();
    let pk = bitcoin::PublicKey::from_str(a).unwrap();
    let sig = vec![0x30,0x06,0x02,0x01,0x01,0x02,0x01,0x01,0x01];
    let w = Witness::from_slice(&[sig, pk.to_bytes(), script.to_bytes()]);
    let ss = ScriptBuf::new();
    let i = Interpreter::from_txdata(&spk, &ss, &w, Sequence::MAX, absolute::LockTime::ZERO).unwrap();
    println!("{}", i.inferred_descriptor_string());
    match i.inferred_descriptor() { Ok(d2) => println!("{} {}", d2, d2.script_pubkey() == spk), Err(e) => println!("err {}", e) }
}
