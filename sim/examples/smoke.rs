use std::collections::BTreeMap;
use bitcoin::psbt::Psbt;
use bitcoin::{absolute, transaction, Amount, OutPoint, ScriptBuf, Sequence, Transaction, TxIn, TxOut, Witness};
use miniscript::psbt::PsbtExt;
use mssim::gen::*;
use mssim::keys::*;
use mssim::rng::Rng;
use mssim::vm;
use mssim::wallet::*;

fn main() {
    let n: u64 = std::env::args().nth(1).map(|s| s.parse().unwrap()).unwrap_or(200);
    let secp_v = bitcoin::secp256k1::Secp256k1::verification_only();
    let mut stats: BTreeMap<String, u64> = BTreeMap::new();
    let mut bump = |k: String| *stats.entry(k).or_insert(0) += 1;
    for run in 0..n {
        let mut rng = Rng::new(mssim::rng::mix(&[1, run]));
        let mut uni = KeyUniverse::new(mssim::rng::mix(&[2, run]), 3, 5);
        let kind = ALL_KINDS[(run % 9) as usize];
        let locks = LockCfg { height_base: 1000, time_base: 1_600_000_000 };
        let spec = {
            let mut g = Gen::new(&mut rng, &mut uni, locks);
            g.descriptor(kind)
        };
        let d = match parse_descriptor(&spec.text) {
            Ok(d) => d,
            Err(e) => { bump(format!("{:?}/{}/parse-err", kind, spec.source)); if std::env::var("V").is_ok() { println!("PARSE-ERR {} : {}", spec.text, e); } continue; }
        };
        let dd = match make_definite(&d, uni.index) { Ok(d) => d, Err(e) => { bump(format!("{:?}/definite-err {}", kind, e)); continue; } };
        let sane = is_sane(&dd);
        bump(format!("{:?}/{}/parsed sane={}", kind, spec.source, sane));
        let spk = dd.script_pubkey();
        // funding tx
        let fund = Transaction { version: transaction::Version::TWO, lock_time: absolute::LockTime::ZERO, input: vec![TxIn::default()], output: vec![TxOut { value: Amount::from_sat(100_000), script_pubkey: spk.clone() }] };
        let tx = Transaction {
            version: transaction::Version::TWO,
            lock_time: absolute::LockTime::from_consensus(1100),
            input: vec![TxIn { previous_output: OutPoint { txid: fund.compute_txid(), vout: 0 }, script_sig: ScriptBuf::new(), sequence: Sequence(100), witness: Witness::new() }],
            output: vec![TxOut { value: Amount::from_sat(90_000), script_pubkey: ScriptBuf::from_bytes(vec![0x51]) }],
        };
        let mut psbt = Psbt::from_unsigned_tx(tx.clone()).unwrap();
        psbt.inputs[0].non_witness_utxo = Some(fund.clone());
        if dd.desc_type().segwit_version().is_some() { psbt.inputs[0].witness_utxo = Some(fund.output[0].clone()); }
        if let Err(e) = psbt.update_input_with_descriptor(0, &dd) { bump(format!("{:?}/update-err {:?}", kind, e)); continue; }
        let mut st = SignStats::default();
        let mut aux = Rng::new(run);
        for s in 0..3 { signer_sign(&uni, s, &SignerPolicy::default(), &mut psbt, &[Some(kind)], &mut aux, &mut st); }
        if !st.digest_mismatch.is_empty() { println!("DIGEST MISMATCH {:?} {}", st.digest_mismatch, spec.text); }
        if !st.origin_mismatch.is_empty() { println!("ORIGIN MISMATCH {:?} {}", st.origin_mismatch, spec.text); }
        let r = psbt.finalize_mut(&secp_v);
        match r {
            Err(e) => { bump(format!("{:?}/finalize-err sane={}", kind, sane)); if std::env::var("V").is_ok() { println!("FINALIZE-ERR {} : {:?}", spec.text, e); } }
            Ok(()) => {
                let ftx = psbt.extract(&secp_v).unwrap();
                let prevouts = vec![fund.output[0].clone()];
                let ctx = vm::TxCtx { tx: &ftx, index: 0, prevouts: &prevouts, secp: &secp_v };
                match vm::verify_input(&ctx, vm::Flags::STANDARD) {
                    Ok(t) => { bump(format!("{:?}/vm-ok", kind)); let _ = t; }
                    Err(e) => { bump(format!("{:?}/VM-REJECT {:?}", kind, e)); println!("VM-REJECT {:?} desc={} sane={} scriptsig={:x} wit={:?}", e, spec.text, sane, ftx.input[0].script_sig, ftx.input[0].witness); }
                }
            }
        }
    }
    for (k, v) in stats { println!("{:>6} {}", v, k); }
}
