//! C10 audit (round 2), finding 2.
//!
//! `WalletPolicy::into_descriptor` throws away the derivation part of every key expression of the
//! template (`/**`, `/<M;N>/*`) and substitutes the key-information entry verbatim. The text form
//! `@i/**` is sugar for `@i/<0;1>/*` (BIP-388); the library reads it, prints it, but when the policy
//! is turned into the descriptor it denotes, the sugar (and any explicit `/<M;N>/*`) means nothing.
//!
//! BIP-388 (paraphrased): the descriptor of a wallet policy is obtained from the template by
//! replacing each key placeholder `@i` with the i-th entry of the key information vector and
//! `/**` with `/<0;1>/*`; what FOLLOWS the placeholder (`/**` = `/<0;1>/*`, or `/<M;N>/*`) stays
//! in place. The first test uses the BIP's own test vector.

use std::str::FromStr;

use miniscript::descriptor::WalletPolicy;
use miniscript::{Descriptor, DescriptorPublicKey};

// BIP-388 test vector "wpkh(@0/**)" (also in the library's own VALID_TEMPLATES table)
const KEY0: &str = "[6738736c/84'/0'/2']xpub6CRQzb8u9dmMcq5XAwwRn9gcoYCjndJkhKgD11WKzbVGd932UmrExWFxCAvRnDN3ez6ZujLmMvmLBaSWdfWVn75L83Qxu1qSX4fJNrJg2Gt";
const BIP388_DESCRIPTOR: &str = "wpkh([6738736c/84'/0'/2']xpub6CRQzb8u9dmMcq5XAwwRn9gcoYCjndJkhKgD11WKzbVGd932UmrExWFxCAvRnDN3ez6ZujLmMvmLBaSWdfWVn75L83Qxu1qSX4fJNrJg2Gt/<0;1>/*)";

const KEY_A: &str = "[6738736c/48'/0'/0'/2']xpub6FC1fXFP1GXLX5TKtcjHGT4q89SDRehkQLtbKJ2PzWcvbBHtyDsJPLtpLtkGqYNYZdVVAjRQ5kug9CsapegmmeRutpP7PW4u4wVF9JfkDhw";
const KEY_B: &str = "[b2b1f0cf/48'/0'/0'/2']xpub6EWhjpPa6FqrcaPBuGBZRJVjzGJ1ZsMygRF26RwN932Vfkn1gyCiTbECVitBjRCkexEvetLdiqzTcYimmzYxyR1BZ79KNevgt61PDcukmC7";

/// Template + BIP-388 key information vector -> the descriptor given in the BIP.
#[test]
fn double_star_expands_to_receive_change_paths() {
    let mut policy = WalletPolicy::from_str("wpkh(@0/**)").unwrap();
    // key information as BIP-388 defines it: origin + xpub, no derivation
    let key = DescriptorPublicKey::from_str(KEY0).unwrap();
    policy.set_key_info(&[key]).unwrap();
    let got = policy.into_descriptor().unwrap();
    let expected = Descriptor::<DescriptorPublicKey>::from_str(BIP388_DESCRIPTOR).unwrap();
    assert_eq!(
        got, expected,
        "\n`wpkh(@0/**)` with the BIP-388 key information must be the ranged, two-path descriptor of the BIP,\n got      {}\n expected {}",
        got, expected
    );
}

/// The derivation written in the template is what the descriptor must contain - also when the
/// caller hands in key expressions that already carry some derivation.
#[test]
fn explicit_multipath_of_the_template_is_kept() {
    let template = "wsh(sortedmulti(2,@0/**,@1/<2;3>/*))";
    let mut policy = WalletPolicy::from_str(template).unwrap();
    assert_eq!(policy.to_string(), template);
    let keys: Vec<DescriptorPublicKey> = [KEY_A, KEY_B]
        .iter()
        .map(|k| DescriptorPublicKey::from_str(&format!("{}/<0;1>/*", k)).unwrap())
        .collect();
    policy.set_key_info(&keys).unwrap();
    let desc = policy.into_descriptor().unwrap();
    let expected = Descriptor::<DescriptorPublicKey>::from_str(&format!(
        "wsh(sortedmulti(2,{}/<0;1>/*,{}/<2;3>/*))",
        KEY_A, KEY_B
    ))
    .unwrap();
    assert_eq!(desc, expected, "\n got      {}\n expected {}", desc, expected);
}

/// Round trip template -> descriptor -> template: the text form must come back.
#[test]
fn template_descriptor_template_round_trip() {
    let template = "wsh(sortedmulti(2,@0/**,@1/<2;3>/*))";
    let mut policy = WalletPolicy::from_str(template).unwrap();
    let keys: Vec<DescriptorPublicKey> = [KEY_A, KEY_B]
        .iter()
        .map(|k| DescriptorPublicKey::from_str(&format!("{}/<0;1>/*", k)).unwrap())
        .collect();
    policy.set_key_info(&keys).unwrap();
    let desc = policy.into_descriptor().unwrap();
    let back = WalletPolicy::from_descriptor(&desc).expect("descriptor of a valid policy");
    assert_eq!(back.to_string(), template, "template changed by a round trip through its descriptor");
}
