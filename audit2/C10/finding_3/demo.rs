//! C10 audit (round 2), finding 3 (boundary case of the checksum clause).
//!
//! "A descriptor string that carries a checksum is rejected if any one or two of its characters are
//! substituted, or up to four when the substitutions stay inside the checksum alphabet's first group
//! (hex digits and descriptor punctuation)."
//!
//! Counter-example: three substitutions, all of them between characters of the first group
//! `0123456789()[],'/*abcdefgh@:$%{}`, one of which hits the separator `#`. The string then no
//! longer *has* a checksum, the parser does not ask for one, and the former checksum characters
//! are read as payload: a different descriptor (different derivation path, different addresses) is
//! accepted without complaint.

use std::str::FromStr;

use miniscript::bitcoin::secp256k1::Secp256k1;
use miniscript::{Descriptor, DescriptorPublicKey};

const GROUP0: &str = "0123456789()[],'/*abcdefgh@:$%{}";

const ORIGINAL: &str = "pkh(xpub6ERApfZwUNrhLCkDtcHTcxd75RbzS1ed54G1LkBUHQVHQKqhMkhgbmJbZRkrgZw4koxb5JaHWkY4ALHY2grBGRjaDMzQLcgJvLJuZZvRcEL/14912)#5507506q";
//                                                                                                                              differs here: ^^       ^
const CORRUPTED: &str = "pkh(xpub6ERApfZwUNrhLCkDtcHTcxd75RbzS1ed54G1LkBUHQVHQKqhMkhgbmJbZRkrgZw4koxb5JaHWkY4ALHY2grBGRjaDMzQLcgJvLJuZZvRcEL/14912/25507506)";

#[test]
fn three_in_group_substitutions_are_detected() {
    // ORIGINAL is a checksummed descriptor exactly as the library prints it
    let orig = Descriptor::<DescriptorPublicKey>::from_str(ORIGINAL).expect("valid, checksummed");
    assert_eq!(orig.to_string(), ORIGINAL);

    // CORRUPTED differs from it by three substitutions (same length, no insert/delete) ...
    assert_eq!(ORIGINAL.len(), CORRUPTED.len());
    let diffs: Vec<(usize, char, char)> = ORIGINAL
        .chars()
        .zip(CORRUPTED.chars())
        .enumerate()
        .filter(|(_, (a, b))| a != b)
        .map(|(i, (a, b))| (i, a, b))
        .collect();
    assert_eq!(diffs.len(), 3, "{:?}", diffs);
    // ... and every new character ('/', '2', ')') is in the first group of the descriptor
    // alphabet; the characters they replace are ')' (first group), the separator '#' and the last
    // checksum character. BIP-380 promises detection of up to 4 errors of this kind.
    for (_, _, new) in &diffs {
        assert!(GROUP0.contains(*new), "{:?}", diffs);
    }

    // Property: the corrupted string must be rejected.
    match Descriptor::<DescriptorPublicKey>::from_str(CORRUPTED) {
        Err(_) => {}
        Ok(d) => {
            let secp = Secp256k1::verification_only();
            let a0 = orig.derived_descriptor(&secp, 0).unwrap().script_pubkey();
            let a1 = d.derived_descriptor(&secp, 0).unwrap().script_pubkey();
            panic!(
                "a checksummed descriptor with 3 substituted characters was accepted\n  original  {}\n  corrupted {}\n  parsed as {}\n  scriptPubKey {} -> {}",
                ORIGINAL, CORRUPTED, d, a0, a1
            );
        }
    }
}
