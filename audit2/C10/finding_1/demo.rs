//! C10 audit (round 2), finding 1.
//!
//! The property says "formatting ... and parsing the result gives back an EQUAL object". The
//! equality (and ordering) the library defines on miniscripts - and therefore on every descriptor
//! that contains one - does not look at the `k` of a `thresh`, nor at the number of its children
//! (`==`), nor at the number of children/keys of `thresh` / `multi` (`cmp`). Objects with different
//! text forms, different scripts and different addresses are "equal objects".
//!
//! Property-level expectations asserted below:
//!  * two objects the library calls equal have the same text form (otherwise "formatting is a
//!    fixed point" and "parsing gives back an equal object" say nothing about the text);
//!  * two strings that are not aliases of each other (they encode different scripts) do not parse
//!    to equal objects ("aliases and syntactic sugar never change meaning" read backwards: what is
//!    not an alias must not be identified);
//!  * `==`, `cmp` and `Hash` agree (std contracts), so that sets/maps of descriptors work.

use std::collections::{BTreeSet, HashSet};
use std::str::FromStr;

use miniscript::bitcoin::PublicKey;
use miniscript::{Descriptor, Miniscript, Segwitv0};

const A: &str = "02e493dbf1c10d80f3581e4904930b1404cc6c13900ee0758474fa94abe8c4cd13";
const B: &str = "03f006a18d5653c4edf5391ff23a61f03ff83d237e880ee61187fa9f379a028e0a";
const C: &str = "025cbdf0646e5db4eaa398f365f2ea7a0e3d419b7e0330e39ce92bddedcac4f9bc";
const D: &str = "03a0434d9e47f3c86235477c7b1ae6ae5d3442d49b1943c2b752a68e2a47e247c7";

type Ms = Miniscript<PublicKey, Segwitv0>;
type Desc = Descriptor<PublicKey>;

/// `==` ignores the threshold value k.
#[test]
fn thresh_k_is_part_of_the_object() {
    let one = Desc::from_str(&format!("wsh(thresh(1,pk({A}),s:pk({B}),s:pk({C})))")).unwrap();
    let two = Desc::from_str(&format!("wsh(thresh(2,pk({A}),s:pk({B}),s:pk({C})))")).unwrap();
    // different text, different witness script, different address ...
    assert_ne!(one.to_string(), two.to_string());
    assert_ne!(one.script_pubkey(), two.script_pubkey());
    // ... so they must not be equal objects
    assert!(
        one != two,
        "1-of-3 and 2-of-3 compare equal:\n  {}\n  {}",
        one,
        two
    );
}

/// `==` ignores trailing children of a thresh (zip of the two pre-order walks stops early).
#[test]
fn thresh_children_are_part_of_the_object() {
    let three = Desc::from_str(&format!("wsh(thresh(2,pk({A}),s:pk({B}),s:pk({C})))")).unwrap();
    let two = Desc::from_str(&format!("wsh(thresh(2,pk({A}),s:pk({B})))")).unwrap();
    assert_ne!(three.script_pubkey(), two.script_pubkey());
    assert!(three != two, "2-of-3 and 2-of-2 compare equal:\n  {}\n  {}", three, two);
}

/// Same walk, children distributed differently over nested thresholds.
#[test]
fn nested_thresh_shape_is_part_of_the_object() {
    let x = Ms::from_str(&format!(
        "thresh(2,pk({A}),a:thresh(2,pk({B}),s:pk({C})),s:pk({D}))"
    ))
    .unwrap();
    let y = Ms::from_str(&format!(
        "thresh(2,pk({A}),a:thresh(2,pk({B}),s:pk({C}),s:pk({D})))"
    ))
    .unwrap();
    assert_ne!(x.encode(), y.encode());
    assert!(x != y, "different trees compare equal:\n  {}\n  {}", x, y);
}

/// Equal objects must print the same and hash the same.
#[test]
fn equal_objects_have_one_text_form_and_one_hash() {
    let one = Ms::from_str(&format!("thresh(1,pk({A}),s:pk({B}),s:pk({C}))")).unwrap();
    let two = Ms::from_str(&format!("thresh(2,pk({A}),s:pk({B}),s:pk({C}))")).unwrap();
    if one == two {
        assert_eq!(one.to_string(), two.to_string(), "equal objects, two text forms");
        let mut h = HashSet::new();
        h.insert(one.clone());
        h.insert(two.clone());
        assert_eq!(h.len(), 1, "equal objects, two hashes");
    }
}

/// `cmp` (src/miniscript/display.rs) stops at the shorter walk: an n-ary fragment is `Equal` to the
/// same fragment with extra keys / children, although `==` (for multi) says they differ.
#[test]
fn ordering_agrees_with_equality() {
    let ab = Ms::from_str(&format!("multi(1,{A},{B})")).unwrap();
    let abc = Ms::from_str(&format!("multi(1,{A},{B},{C})")).unwrap();
    assert!(ab != abc);
    assert_ne!(
        ab.cmp(&abc),
        std::cmp::Ordering::Equal,
        "multi(1,A,B) and multi(1,A,B,C) are != but cmp() == Equal"
    );
}

/// Consequence: an ordered set of descriptors silently drops one of two different wallets.
#[test]
fn btreeset_keeps_both_descriptors() {
    let ab = Desc::from_str(&format!("wsh(multi(1,{A},{B}))")).unwrap();
    let abc = Desc::from_str(&format!("wsh(multi(1,{A},{B},{C}))")).unwrap();
    let mut set = BTreeSet::new();
    set.insert(ab);
    set.insert(abc);
    assert_eq!(set.len(), 2, "two different descriptors collapsed into one set element");
}

/// Worse: when the two walks get out of step `cmp` runs into `unreachable!` and panics - sorting
/// a list of (valid, sane, parsed) descriptors or inserting them into a `BTreeMap` aborts.
#[test]
fn comparing_two_parsed_descriptors_does_not_panic() {
    let x = Desc::from_str(&format!("wsh(or_b(multi(1,{A}),s:pk({B})))")).unwrap();
    let y = Desc::from_str(&format!("wsh(or_b(multi(1,{A},{B}),s:pk({C})))")).unwrap();
    let mut v = vec![y.clone(), x.clone()];
    v.sort(); // panics: "entered unreachable code: if the type of a node differs, ..."
    assert_ne!(x.cmp(&y), std::cmp::Ordering::Equal);
}
