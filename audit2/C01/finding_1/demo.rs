// ---------------------------------------------------------------------------
// Independent mini re-implementation of Bitcoin Core's script verification
// (script/interpreter.cpp VerifyScript/EvalScript/VerifyWitnessProgram) plus the
// input standardness rules of policy/policy.cpp (IsStandardTx scriptSig rules,
// AreInputsStandard, IsWitnessStandard).  Only the opcodes Miniscript can emit are
// implemented; anything else is reported as an error.  Nothing from the
// `miniscript` crate is used in here.
// ---------------------------------------------------------------------------
#[allow(dead_code)]
pub mod interp {
    use miniscript::bitcoin;
    use bitcoin::hashes::{hash160, ripemd160, sha256, sha256d, Hash};
    use bitcoin::secp256k1::{self, Secp256k1};
    use bitcoin::sighash::{Annex, EcdsaSighashType, Prevouts, SighashCache, TapSighashType};
    use bitcoin::taproot::TapLeafHash;
    use bitcoin::{Amount, Script, ScriptBuf, Transaction, TxOut};

    #[derive(Clone, Copy, PartialEq, Eq, Debug)]
    pub enum SigVersion {
        Base,
        WitnessV0,
        Tapscript,
    }

    #[derive(Clone, Copy, Debug)]
    pub struct Flags {
        /// false: only the consensus rules (block validity);
        /// true: consensus + STANDARD_SCRIPT_VERIFY_FLAGS + input standardness policy.
        pub standard: bool,
    }

    pub struct TxCtx<'a> {
        pub tx: &'a Transaction,
        pub idx: usize,
        pub prevouts: &'a [TxOut],
    }

    const MAX_SCRIPT_ELEMENT_SIZE: usize = 520;
    const MAX_OPS_PER_SCRIPT: usize = 201;
    const MAX_STACK_SIZE: usize = 1000;
    const MAX_SCRIPT_SIZE: usize = 10_000;
    const SEQUENCE_LOCKTIME_DISABLE_FLAG: u32 = 1 << 31;
    const SEQUENCE_LOCKTIME_TYPE_FLAG: u32 = 1 << 22;
    const SEQUENCE_LOCKTIME_MASK: u32 = 0x0000ffff;
    const LOCKTIME_THRESHOLD: i64 = 500_000_000;

    #[derive(Debug, Clone)]
    pub enum Item<'a> {
        Push(&'a [u8], u8), // data, opcode used to push
        Op(u8),
    }

    pub fn parse(script: &[u8]) -> Result<Vec<Item<'_>>, String> {
        let mut out = vec![];
        let mut i = 0;
        while i < script.len() {
            let op = script[i];
            i += 1;
            if op <= 0x4e {
                let len = match op {
                    0x00..=0x4b => op as usize,
                    0x4c => {
                        if i + 1 > script.len() { return Err("bad pushdata1".into()); }
                        let l = script[i] as usize; i += 1; l
                    }
                    0x4d => {
                        if i + 2 > script.len() { return Err("bad pushdata2".into()); }
                        let l = u16::from_le_bytes([script[i], script[i + 1]]) as usize; i += 2; l
                    }
                    _ => {
                        if i + 4 > script.len() { return Err("bad pushdata4".into()); }
                        let l = u32::from_le_bytes([script[i], script[i + 1], script[i + 2], script[i + 3]]) as usize; i += 4; l
                    }
                };
                if i + len > script.len() { return Err("push past end".into()); }
                out.push(Item::Push(&script[i..i + len], op));
                i += len;
            } else {
                out.push(Item::Op(op));
            }
        }
        Ok(out)
    }

    pub fn is_push_only(script: &[u8]) -> bool {
        match parse(script) {
            Ok(items) => items.iter().all(|it| match it {
                Item::Push(..) => true,
                Item::Op(op) => *op <= 0x60, // OP_1NEGATE, OP_RESERVED, OP_1..OP_16
            }),
            Err(_) => false,
        }
    }

    fn check_minimal_push(data: &[u8], opcode: u8) -> bool {
        if data.is_empty() { return opcode == 0x00; }
        if data.len() == 1 && data[0] >= 1 && data[0] <= 16 { return false; } // should be OP_n
        if data.len() == 1 && data[0] == 0x81 { return false; } // should be OP_1NEGATE
        if data.len() <= 75 { return opcode as usize == data.len(); }
        if data.len() <= 255 { return opcode == 0x4c; }
        if data.len() <= 65535 { return opcode == 0x4d; }
        true
    }

    fn cast_to_bool(v: &[u8]) -> bool {
        for (i, b) in v.iter().enumerate() {
            if *b != 0 {
                if i == v.len() - 1 && *b == 0x80 { return false; }
                return true;
            }
        }
        false
    }

    fn script_num(v: &[u8], require_minimal: bool, max_len: usize) -> Result<i64, String> {
        if v.len() > max_len { return Err("script number overflow".into()); }
        if require_minimal && !v.is_empty() {
            if v[v.len() - 1] & 0x7f == 0 {
                if v.len() <= 1 || (v[v.len() - 2] & 0x80) == 0 {
                    return Err("non-minimally encoded script number".into());
                }
            }
        }
        if v.is_empty() { return Ok(0); }
        let mut r: i64 = 0;
        for (i, b) in v.iter().enumerate() { r |= (*b as i64) << (8 * i); }
        if v[v.len() - 1] & 0x80 != 0 {
            r &= !(0x80i64 << (8 * (v.len() - 1)));
            r = -r;
        }
        Ok(r)
    }

    fn num_to_vec(n: i64) -> Vec<u8> {
        if n == 0 { return vec![]; }
        let neg = n < 0;
        let mut abs = n.unsigned_abs();
        let mut out = vec![];
        while abs > 0 { out.push((abs & 0xff) as u8); abs >>= 8; }
        if out[out.len() - 1] & 0x80 != 0 { out.push(if neg { 0x80 } else { 0 }); }
        else if neg { let l = out.len(); out[l - 1] |= 0x80; }
        out
    }

    // BIP66 strict DER (IsValidSignatureEncoding), sig includes sighash byte
    fn is_valid_signature_encoding(sig: &[u8]) -> bool {
        if sig.len() < 9 || sig.len() > 73 { return false; }
        if sig[0] != 0x30 { return false; }
        if sig[1] as usize != sig.len() - 3 { return false; }
        let len_r = sig[3] as usize;
        if 5 + len_r >= sig.len() { return false; }
        let len_s = sig[5 + len_r] as usize;
        if len_r + len_s + 7 != sig.len() { return false; }
        if sig[2] != 0x02 { return false; }
        if len_r == 0 { return false; }
        if sig[4] & 0x80 != 0 { return false; }
        if len_r > 1 && sig[4] == 0 && sig[5] & 0x80 == 0 { return false; }
        if sig[len_r + 4] != 0x02 { return false; }
        if len_s == 0 { return false; }
        if sig[len_r + 6] & 0x80 != 0 { return false; }
        if len_s > 1 && sig[len_r + 6] == 0 && sig[len_r + 7] & 0x80 == 0 { return false; }
        true
    }

    struct Exec<'a, 'b> {
        ctx: &'a TxCtx<'b>,
        flags: Flags,
        sigversion: SigVersion,
        // tapscript
        tapleaf_hash: Option<TapLeafHash>,
        sigops_budget: i64,
        // segwit v0 amount
        amount: Amount,
    }

    impl<'a, 'b> Exec<'a, 'b> {
        fn check_ecdsa_sig(&self, sig: &[u8], pk: &[u8], script_code: &Script) -> Result<bool, String> {
            let std = self.flags.standard;
            // CheckSignatureEncoding
            if !sig.is_empty() {
                if !is_valid_signature_encoding(sig) { return Err("SIG_DER".into()); } // DERSIG is consensus (BIP66)
                if std {
                    // LOW_S
                    let s = secp256k1::ecdsa::Signature::from_der(&sig[..sig.len() - 1]).map_err(|e| format!("der: {e}"))?;
                    let mut n = s; n.normalize_s();
                    if n != s { return Err("SIG_HIGH_S (policy)".into()); }
                    // STRICTENC: defined hashtype
                    let ht = sig[sig.len() - 1] & !0x80;
                    if !(1..=3).contains(&ht) { return Err("SIG_HASHTYPE (policy)".into()); }
                }
            }
            // CheckPubKeyEncoding
            if std {
                let ok = (pk.len() == 33 && (pk[0] == 2 || pk[0] == 3)) || (pk.len() == 65 && pk[0] == 4);
                if !ok { return Err("PUBKEYTYPE (policy STRICTENC)".into()); }
                if self.sigversion == SigVersion::WitnessV0 && !(pk.len() == 33 && (pk[0] == 2 || pk[0] == 3)) {
                    return Err("WITNESS_PUBKEYTYPE (policy): non-compressed key in segwit v0".into());
                }
            }
            if sig.is_empty() { return Ok(false); }
            let ht = sig[sig.len() - 1] as u32;
            let der = &sig[..sig.len() - 1];
            let pubkey = match secp256k1::PublicKey::from_slice(pk) { Ok(p) => p, Err(_) => return Ok(false) };
            let mut s = match secp256k1::ecdsa::Signature::from_der_lax(der) { Ok(s) => s, Err(_) => return Ok(false) };
            s.normalize_s();
            let mut cache = SighashCache::new(self.ctx.tx);
            let msg = match self.sigversion {
                SigVersion::Base => {
                    let h = cache.legacy_signature_hash(self.ctx.idx, script_code, ht).map_err(|e| format!("sighash: {e}"))?;
                    secp256k1::Message::from_digest(h.to_byte_array())
                }
                SigVersion::WitnessV0 => {
                    // BIP143 with arbitrary hash type byte: rust-bitcoin wants an enum; use from_consensus
                    let ty = EcdsaSighashType::from_consensus(ht);
                    let h = cache.p2wsh_signature_hash(self.ctx.idx, script_code, self.amount, ty).map_err(|e| format!("sighash: {e}"))?;
                    secp256k1::Message::from_digest(h.to_byte_array())
                }
                SigVersion::Tapscript => unreachable!(),
            };
            let secp = Secp256k1::verification_only();
            Ok(secp.verify_ecdsa(&msg, &s, &pubkey).is_ok())
        }

        fn check_schnorr_sig(&self, sig: &[u8], pk: &[u8], key_spend: bool) -> Result<bool, String> {
            // BIP341/342 signature validation
            if sig.len() != 64 && sig.len() != 65 { return Err("SCHNORR_SIG_SIZE".into()); }
            let ht = if sig.len() == 65 {
                if sig[64] == 0 { return Err("SCHNORR_SIG_HASHTYPE (explicit 0x00)".into()); }
                sig[64]
            } else { 0 };
            let ty = TapSighashType::from_consensus_u8(ht).map_err(|_| "SCHNORR_SIG_HASHTYPE".to_string())?;
            let xonly = secp256k1::XOnlyPublicKey::from_slice(pk).map_err(|_| "SCHNORR_SIG (bad key)".to_string())?;
            let s = secp256k1::schnorr::Signature::from_slice(&sig[..64]).map_err(|_| "SCHNORR_SIG".to_string())?;
            let mut cache = SighashCache::new(self.ctx.tx);
            let prevouts = Prevouts::All(self.ctx.prevouts);
            let leaf = if key_spend { None } else { Some((self.tapleaf_hash.unwrap(), 0xffff_ffffu32)) };
            let h = cache
                .taproot_signature_hash(self.ctx.idx, &prevouts, None::<Annex>, leaf, ty)
                .map_err(|e| format!("SCHNORR_SIG_HASHTYPE/sighash failure: {e}"))?;
            let msg = secp256k1::Message::from_digest(h.to_byte_array());
            let secp = Secp256k1::verification_only();
            if secp.verify_schnorr(&s, &msg, &xonly).is_ok() { Ok(true) } else { Err("SCHNORR_SIG (invalid signature)".into()) }
        }

        fn eval_checksig_tapscript(&mut self, sig: &[u8], pk: &[u8]) -> Result<bool, String> {
            let success = !sig.is_empty();
            if success {
                self.sigops_budget -= 50;
                if self.sigops_budget < 0 { return Err("TAPSCRIPT_VALIDATION_WEIGHT".into()); }
            }
            if pk.is_empty() { return Err("PUBKEYTYPE (empty tapscript key)".into()); }
            if pk.len() == 32 {
                if success { self.check_schnorr_sig(sig, pk, false)?; }
            } else if self.flags.standard {
                return Err("DISCOURAGE_UPGRADABLE_PUBKEYTYPE (policy)".into());
            }
            Ok(success)
        }

        fn eval(&mut self, script: &[u8], stack: &mut Vec<Vec<u8>>) -> Result<(), String> {
            let std = self.flags.standard;
            let sv = self.sigversion;
            if (sv == SigVersion::Base || sv == SigVersion::WitnessV0) && script.len() > MAX_SCRIPT_SIZE { return Err("SCRIPT_SIZE".into()); }
            let items = parse(script)?;
            let script_code = ScriptBuf::from_bytes(script.to_vec()); // no OP_CODESEPARATOR in miniscript
            let mut alt: Vec<Vec<u8>> = vec![];
            let mut vf_exec: Vec<bool> = vec![];
            let mut op_count = 0usize;
            let require_minimal = std || sv == SigVersion::Tapscript && false; // MINIMALDATA is policy in all versions
            let minimal_if = sv == SigVersion::Tapscript || (std && sv == SigVersion::WitnessV0);
            let nullfail = std; // consensus-equivalent rule for tapscript handled separately

            macro_rules! pop { () => { stack.pop().ok_or_else(|| "INVALID_STACK_OPERATION".to_string())? }; }
            macro_rules! top { ($n:expr) => {{ if stack.len() < $n { return Err("INVALID_STACK_OPERATION".into()); } &stack[stack.len() - $n] }}; }

            for it in items {
                let f_exec = vf_exec.iter().all(|b| *b);
                match it {
                    Item::Push(data, opc) => {
                        if data.len() > MAX_SCRIPT_ELEMENT_SIZE { return Err("PUSH_SIZE".into()); }
                        if f_exec {
                            if require_minimal && !check_minimal_push(data, opc) { return Err("MINIMALDATA (policy)".into()); }
                            stack.push(data.to_vec());
                        }
                    }
                    Item::Op(op) => {
                        if op > 0x60 && (sv == SigVersion::Base || sv == SigVersion::WitnessV0) {
                            op_count += 1;
                            if op_count > MAX_OPS_PER_SCRIPT { return Err("OP_COUNT (more than 201 non-push opcodes)".into()); }
                        }
                        let is_cond = (0x63..=0x68).contains(&op);
                        if !f_exec && !is_cond { continue; }
                        match op {
                            0x4f => stack.push(num_to_vec(-1)),
                            0x51..=0x60 => stack.push(num_to_vec((op - 0x50) as i64)),
                            0x61 => {} // NOP
                            0x63 | 0x64 => { // IF NOTIF
                                let mut val = false;
                                if f_exec {
                                    let v = pop!();
                                    if minimal_if {
                                        if v.len() > 1 || (v.len() == 1 && v[0] != 1) {
                                            return Err(if sv == SigVersion::Tapscript { "TAPSCRIPT_MINIMALIF".into() } else { "MINIMALIF (policy)".into() });
                                        }
                                    }
                                    val = cast_to_bool(&v);
                                    if op == 0x64 { val = !val; }
                                }
                                vf_exec.push(val);
                            }
                            0x67 => { let l = vf_exec.last_mut().ok_or("UNBALANCED_CONDITIONAL")?; *l = !*l; }
                            0x68 => { vf_exec.pop().ok_or("UNBALANCED_CONDITIONAL")?; }
                            0x69 => { let v = pop!(); if !cast_to_bool(&v) { return Err("VERIFY".into()); } }
                            0x6b => { let v = pop!(); alt.push(v); }
                            0x6c => { let v = alt.pop().ok_or("INVALID_ALTSTACK_OPERATION")?; stack.push(v); }
                            0x73 => { let v = top!(1).clone(); if cast_to_bool(&v) { stack.push(v); } } // IFDUP
                            0x75 => { pop!(); }
                            0x76 => { let v = top!(1).clone(); stack.push(v); }
                            0x7c => { if stack.len() < 2 { return Err("INVALID_STACK_OPERATION".into()); } let l = stack.len(); stack.swap(l - 1, l - 2); }
                            0x82 => { let n = top!(1).len() as i64; stack.push(num_to_vec(n)); }
                            0x87 | 0x88 => {
                                let a = pop!(); let b = pop!();
                                let eq = a == b;
                                if op == 0x88 { if !eq { return Err("EQUALVERIFY".into()); } } else { stack.push(if eq { vec![1] } else { vec![] }); }
                            }
                            0x92 => { let a = script_num(&pop!(), require_minimal, 4)?; stack.push(num_to_vec((a != 0) as i64)); }
                            0x93 => { let b = script_num(&pop!(), require_minimal, 4)?; let a = script_num(&pop!(), require_minimal, 4)?; stack.push(num_to_vec(a + b)); }
                            0x9a => { let b = script_num(&pop!(), require_minimal, 4)?; let a = script_num(&pop!(), require_minimal, 4)?; stack.push(num_to_vec((a != 0 && b != 0) as i64)); }
                            0x9b => { let b = script_num(&pop!(), require_minimal, 4)?; let a = script_num(&pop!(), require_minimal, 4)?; stack.push(num_to_vec((a != 0 || b != 0) as i64)); }
                            0x9c | 0x9d => {
                                let b = script_num(&pop!(), require_minimal, 4)?; let a = script_num(&pop!(), require_minimal, 4)?;
                                if op == 0x9d { if a != b { return Err("NUMEQUALVERIFY".into()); } } else { stack.push(num_to_vec((a == b) as i64)); }
                            }
                            0xa6 => { let v = pop!(); stack.push(ripemd160::Hash::hash(&v).to_byte_array().to_vec()); }
                            0xa8 => { let v = pop!(); stack.push(sha256::Hash::hash(&v).to_byte_array().to_vec()); }
                            0xa9 => { let v = pop!(); stack.push(hash160::Hash::hash(&v).to_byte_array().to_vec()); }
                            0xaa => { let v = pop!(); stack.push(sha256d::Hash::hash(&v).to_byte_array().to_vec()); }
                            0xac | 0xad => { // CHECKSIG(VERIFY)
                                let pk = pop!(); let sig = pop!();
                                let ok = match sv {
                                    SigVersion::Tapscript => self.eval_checksig_tapscript(&sig, &pk)?,
                                    _ => {
                                        let ok = self.check_ecdsa_sig(&sig, &pk, &script_code)?;
                                        if !ok && nullfail && !sig.is_empty() { return Err("NULLFAIL (policy)".into()); }
                                        ok
                                    }
                                };
                                if op == 0xad { if !ok { return Err("CHECKSIGVERIFY".into()); } } else { stack.push(if ok { vec![1] } else { vec![] }); }
                            }
                            0xba => { // CHECKSIGADD
                                if sv != SigVersion::Tapscript { return Err("BAD_OPCODE (CHECKSIGADD outside tapscript)".into()); }
                                let pk = pop!(); let n = script_num(&pop!(), require_minimal, 4)?; let sig = pop!();
                                let ok = self.eval_checksig_tapscript(&sig, &pk)?;
                                stack.push(num_to_vec(n + ok as i64));
                            }
                            0xae | 0xaf => { // CHECKMULTISIG(VERIFY)
                                if sv == SigVersion::Tapscript { return Err("TAPSCRIPT_CHECKMULTISIG".into()); }
                                let n = script_num(&pop!(), require_minimal, 4)?;
                                if !(0..=20).contains(&n) { return Err("PUBKEY_COUNT".into()); }
                                op_count += n as usize;
                                if op_count > MAX_OPS_PER_SCRIPT { return Err("OP_COUNT (more than 201 non-push opcodes incl. multisig keys)".into()); }
                                let mut keys = vec![]; for _ in 0..n { keys.push(pop!()); } keys.reverse();
                                let m = script_num(&pop!(), require_minimal, 4)?;
                                if m < 0 || m > n { return Err("SIG_COUNT".into()); }
                                let mut sigs = vec![]; for _ in 0..m { sigs.push(pop!()); } sigs.reverse();
                                let dummy = pop!();
                                if !dummy.is_empty() { return Err("SIG_NULLDUMMY".into()); } // consensus since segwit (BIP147)
                                let (mut isig, mut ikey) = (0usize, 0usize);
                                let mut success = true;
                                while success && isig < sigs.len() {
                                    if ikey >= keys.len() { success = false; break; }
                                    let ok = self.check_ecdsa_sig(&sigs[isig], &keys[ikey], &script_code)?;
                                    if ok { isig += 1; }
                                    ikey += 1;
                                    if sigs.len() - isig > keys.len() - ikey { success = false; }
                                }
                                if !success && nullfail && sigs.iter().any(|s| !s.is_empty()) { return Err("NULLFAIL (policy)".into()); }
                                if op == 0xaf { if !success { return Err("CHECKMULTISIGVERIFY".into()); } } else { stack.push(if success { vec![1] } else { vec![] }); }
                            }
                            0xb1 => { // CLTV (BIP65)
                                let n = script_num(top!(1), require_minimal, 5)?;
                                if n < 0 { return Err("NEGATIVE_LOCKTIME".into()); }
                                let txl = self.ctx.tx.lock_time.to_consensus_u32() as i64;
                                let same = (txl < LOCKTIME_THRESHOLD && n < LOCKTIME_THRESHOLD) || (txl >= LOCKTIME_THRESHOLD && n >= LOCKTIME_THRESHOLD);
                                if !same { return Err("UNSATISFIED_LOCKTIME (CLTV type mismatch)".into()); }
                                if n > txl { return Err("UNSATISFIED_LOCKTIME (CLTV value > nLockTime)".into()); }
                                if self.ctx.tx.input[self.ctx.idx].sequence.0 == 0xffff_ffff { return Err("UNSATISFIED_LOCKTIME (CLTV with final nSequence)".into()); }
                            }
                            0xb2 => { // CSV (BIP112)
                                let n = script_num(top!(1), require_minimal, 5)?;
                                if n < 0 { return Err("NEGATIVE_LOCKTIME".into()); }
                                let n = n as u64;
                                if n & SEQUENCE_LOCKTIME_DISABLE_FLAG as u64 == 0 {
                                    if (self.ctx.tx.version.0 as u32) < 2 { return Err("UNSATISFIED_LOCKTIME (CSV needs tx version >= 2)".into()); }
                                    let seq = self.ctx.tx.input[self.ctx.idx].sequence.0;
                                    if seq & SEQUENCE_LOCKTIME_DISABLE_FLAG != 0 { return Err("UNSATISFIED_LOCKTIME (CSV: nSequence disable flag)".into()); }
                                    let mask = (SEQUENCE_LOCKTIME_TYPE_FLAG | SEQUENCE_LOCKTIME_MASK) as u64;
                                    let a = seq as u64 & mask; let b = n & mask;
                                    let t = SEQUENCE_LOCKTIME_TYPE_FLAG as u64;
                                    if !((a < t && b < t) || (a >= t && b >= t)) { return Err("UNSATISFIED_LOCKTIME (CSV type mismatch)".into()); }
                                    if b > a { return Err("UNSATISFIED_LOCKTIME (CSV value > nSequence)".into()); }
                                }
                            }
                            other => return Err(format!("opcode 0x{other:02x} not implemented in the audit interpreter")),
                        }
                    }
                }
                if stack.len() + alt.len() > MAX_STACK_SIZE { return Err("STACK_SIZE (more than 1000 stack+altstack elements)".into()); }
            }
            if !vf_exec.is_empty() { return Err("UNBALANCED_CONDITIONAL".into()); }
            Ok(())
        }
    }

    fn witness_program(spk: &[u8]) -> Option<(u8, &[u8])> {
        if spk.len() < 4 || spk.len() > 42 { return None; }
        if spk[0] != 0 && !(0x51..=0x60).contains(&spk[0]) { return None; }
        if spk[1] as usize + 2 != spk.len() { return None; }
        let v = if spk[0] == 0 { 0 } else { spk[0] - 0x50 };
        Some((v, &spk[2..]))
    }

    fn is_p2sh(spk: &[u8]) -> bool { spk.len() == 23 && spk[0] == 0xa9 && spk[1] == 0x14 && spk[22] == 0x87 }

    fn verify_witness_program(ctx: &TxCtx, flags: Flags, version: u8, program: &[u8], witness: &[Vec<u8>], is_p2sh: bool) -> Result<(), String> {
        let amount = ctx.prevouts[ctx.idx].value;
        if version == 0 {
            if program.len() == 32 {
                if witness.is_empty() { return Err("WITNESS_PROGRAM_WITNESS_EMPTY".into()); }
                let script = &witness[witness.len() - 1];
                if sha256::Hash::hash(script).to_byte_array()[..] != program[..] { return Err("WITNESS_PROGRAM_MISMATCH".into()); }
                let mut stack: Vec<Vec<u8>> = witness[..witness.len() - 1].to_vec();
                if flags.standard {
                    // IsWitnessStandard (policy.cpp) for P2WSH
                    if script.len() > 3600 { return Err("policy: P2WSH script larger than 3600 bytes".into()); }
                    if stack.len() > 100 { return Err(format!("policy: P2WSH witness has {} stack items (max 100 excluding script)", stack.len())); }
                    if stack.iter().any(|e| e.len() > 80) { return Err("policy: P2WSH stack item larger than 80 bytes".into()); }
                }
                if stack.iter().any(|e| e.len() > MAX_SCRIPT_ELEMENT_SIZE) { return Err("PUSH_SIZE".into()); }
                let mut ex = Exec { ctx, flags, sigversion: SigVersion::WitnessV0, tapleaf_hash: None, sigops_budget: 0, amount };
                ex.eval(script, &mut stack)?;
                if stack.len() != 1 { return Err("CLEANSTACK (witness script must leave exactly one element)".into()); }
                if !cast_to_bool(&stack[0]) { return Err("EVAL_FALSE".into()); }
                Ok(())
            } else if program.len() == 20 {
                if witness.len() != 2 { return Err("WITNESS_PROGRAM_MISMATCH (p2wpkh needs 2 items)".into()); }
                let mut script = vec![0x76, 0xa9, 0x14]; script.extend_from_slice(program); script.extend_from_slice(&[0x88, 0xac]);
                let mut stack = witness.to_vec();
                let mut ex = Exec { ctx, flags, sigversion: SigVersion::WitnessV0, tapleaf_hash: None, sigops_budget: 0, amount };
                ex.eval(&script, &mut stack)?;
                if stack.len() != 1 || !cast_to_bool(&stack[0]) { return Err("EVAL_FALSE".into()); }
                Ok(())
            } else { Err("WITNESS_PROGRAM_WRONG_LENGTH".into()) }
        } else if version == 1 && program.len() == 32 && !is_p2sh {
            // BIP341
            let mut stack: Vec<Vec<u8>> = witness.to_vec();
            if stack.is_empty() { return Err("WITNESS_PROGRAM_WITNESS_EMPTY".into()); }
            if stack.len() >= 2 && !stack[stack.len() - 1].is_empty() && stack[stack.len() - 1][0] == 0x50 {
                if flags.standard { return Err("policy: annex present".into()); }
                return Err("annex not supported by audit interpreter".into());
            }
            if stack.len() == 1 {
                let ex = Exec { ctx, flags, sigversion: SigVersion::Tapscript, tapleaf_hash: None, sigops_budget: 0, amount };
                ex.check_schnorr_sig(&stack[0], program, true)?;
                return Ok(());
            }
            let control = stack.pop().unwrap();
            let script = stack.pop().unwrap();
            if control.len() < 33 || control.len() > 33 + 32 * 128 || (control.len() - 33) % 32 != 0 { return Err("TAPROOT_WRONG_CONTROL_SIZE".into()); }
            let leaf_ver = control[0] & 0xfe;
            let tapleaf_hash = TapLeafHash::from_script(Script::from_bytes(&script), bitcoin::taproot::LeafVersion::from_consensus(leaf_ver).map_err(|e| format!("{e}"))?);
            // verify commitment
            let mut k = bitcoin::taproot::TapNodeHash::from(tapleaf_hash);
            for chunk in control[33..].chunks(32) {
                let mut a = [0u8; 32]; a.copy_from_slice(chunk);
                k = bitcoin::taproot::TapNodeHash::from_node_hashes(k, bitcoin::taproot::TapNodeHash::from_byte_array(a));
            }
            let internal = secp256k1::XOnlyPublicKey::from_slice(&control[1..33]).map_err(|_| "bad internal key".to_string())?;
            let secp = Secp256k1::verification_only();
            let tweak = bitcoin::taproot::TapTweakHash::from_key_and_tweak(internal, Some(k)).to_scalar();
            let q = secp256k1::XOnlyPublicKey::from_slice(program).map_err(|_| "bad output key".to_string())?;
            let parity = if control[0] & 1 == 1 { secp256k1::Parity::Odd } else { secp256k1::Parity::Even };
            if !internal.tweak_add_check(&secp, &q, parity, tweak) { return Err("WITNESS_PROGRAM_MISMATCH (taproot commitment)".into()); }
            if leaf_ver != 0xc0 { return Err("unknown leaf version".into()); }
            // tapscript
            if flags.standard && stack.iter().any(|e| e.len() > 80) { return Err("policy: tapscript stack item larger than 80 bytes".into()); }
            if stack.len() > MAX_STACK_SIZE { return Err("STACK_SIZE (initial tapscript stack > 1000)".into()); }
            if stack.iter().any(|e| e.len() > MAX_SCRIPT_ELEMENT_SIZE) { return Err("PUSH_SIZE".into()); }
            // witness serialized size
            let mut wsize = varint_len(witness.len());
            for w in witness { wsize += varint_len(w.len()) + w.len(); }
            let mut ex = Exec { ctx, flags, sigversion: SigVersion::Tapscript, tapleaf_hash: Some(tapleaf_hash), sigops_budget: 50 + wsize as i64, amount };
            ex.eval(&script, &mut stack)?;
            if stack.len() != 1 { return Err("CLEANSTACK".into()); }
            if !cast_to_bool(&stack[0]) { return Err("EVAL_FALSE".into()); }
            Ok(())
        } else {
            Err("unknown witness program (not handled)".into())
        }
    }

    fn varint_len(n: usize) -> usize { if n < 0xfd { 1 } else if n <= 0xffff { 3 } else { 5 } }

    /// GetSigOpCount(fAccurate=true) of a script
    pub fn sigop_count_accurate(script: &[u8]) -> usize {
        let items = match parse(script) { Ok(i) => i, Err(_) => return 0 };
        let mut n = 0; let mut last_op: Option<u8> = None;
        for it in items {
            match it {
                Item::Op(op) => {
                    if op == 0xac || op == 0xad { n += 1; }
                    else if op == 0xae || op == 0xaf {
                        match last_op { Some(l) if (0x51..=0x60).contains(&l) => n += (l - 0x50) as usize, _ => n += 20 }
                    }
                    last_op = Some(op);
                }
                Item::Push(_, opc) => last_op = Some(opc),
            }
        }
        n
    }

    /// Verify input `idx` of `tx` against `prevouts[idx]`.
    pub fn verify_input(tx: &Transaction, idx: usize, prevouts: &[TxOut], flags: Flags) -> Result<(), String> {
        let ctx = TxCtx { tx, idx, prevouts };
        let spk = prevouts[idx].script_pubkey.as_bytes().to_vec();
        let script_sig = tx.input[idx].script_sig.as_bytes().to_vec();
        let witness: Vec<Vec<u8>> = tx.input[idx].witness.to_vec();
        let amount = prevouts[idx].value;

        if flags.standard {
            // IsStandardTx: scriptSig size and push-only
            if script_sig.len() > 1650 { return Err(format!("policy: scriptsig-size ({} > 1650 bytes)", script_sig.len())); }
            if !is_push_only(&script_sig) { return Err("policy: scriptsig-not-pushonly".into()); }
        }

        let mut stack: Vec<Vec<u8>> = vec![];
        {
            let mut ex = Exec { ctx: &ctx, flags, sigversion: SigVersion::Base, tapleaf_hash: None, sigops_budget: 0, amount };
            ex.eval(&script_sig, &mut stack)?;
        }
        let stack_copy = stack.clone();
        {
            let mut ex = Exec { ctx: &ctx, flags, sigversion: SigVersion::Base, tapleaf_hash: None, sigops_budget: 0, amount };
            ex.eval(&spk, &mut stack)?;
        }
        if stack.is_empty() || !cast_to_bool(stack.last().unwrap()) { return Err("EVAL_FALSE".into()); }

        let mut had_witness = false;
        if let Some((v, prog)) = witness_program(&spk) {
            had_witness = true;
            if !script_sig.is_empty() { return Err("WITNESS_MALLEATED (scriptSig must be empty)".into()); }
            verify_witness_program(&ctx, flags, v, prog, &witness, false)?;
            stack.truncate(1);
        }

        if is_p2sh(&spk) {
            if !is_push_only(&script_sig) { return Err("SIG_PUSHONLY".into()); }
            let mut stack2 = stack_copy;
            let redeem = stack2.pop().ok_or("p2sh: empty stack")?;
            if flags.standard && sigop_count_accurate(&redeem) > 15 && witness_program(&redeem).is_none() {
                return Err(format!("policy: AreInputsStandard: P2SH redeem script has {} sigops (MAX_P2SH_SIGOPS = 15)", sigop_count_accurate(&redeem)));
            }
            if let Some((v, prog)) = witness_program(&redeem) {
                had_witness = true;
                // scriptSig must be exactly a push of the redeem script
                let mut expect = vec![redeem.len() as u8]; expect.extend_from_slice(&redeem);
                if script_sig != expect { return Err("WITNESS_MALLEATED_P2SH".into()); }
                verify_witness_program(&ctx, flags, v, prog, &witness, true)?;
                stack2.clear(); stack2.push(vec![1]);
            } else {
                let mut ex = Exec { ctx: &ctx, flags, sigversion: SigVersion::Base, tapleaf_hash: None, sigops_budget: 0, amount };
                ex.eval(&redeem, &mut stack2)?;
                if stack2.is_empty() || !cast_to_bool(stack2.last().unwrap()) { return Err("EVAL_FALSE (redeem script)".into()); }
            }
            stack = stack2;
        }
        if flags.standard && stack.len() != 1 { return Err("CLEANSTACK (policy)".into()); }
        if !had_witness && !witness.is_empty() { return Err("WITNESS_UNEXPECTED".into()); }
        Ok(())
    }

    pub const CONSENSUS: Flags = Flags { standard: false };
    pub const STANDARD: Flags = Flags { standard: true };
}
// Shared exploration harness: builds a funding output + spending tx for a descriptor,
// signs with the real digests, and runs the library's three satisfaction routes.
#[allow(dead_code)]
pub mod harness {
    use std::collections::{BTreeMap, BTreeSet, HashMap};
    use std::str::FromStr;

    use miniscript::bitcoin::{self, absolute, hashes::Hash, secp256k1, transaction, Amount, OutPoint, ScriptBuf, Sequence, Transaction, TxIn, TxOut, Witness};
    use bitcoin::hashes::{hash160, ripemd160, sha256};
    use bitcoin::sighash::{EcdsaSighashType, Prevouts, SighashCache, TapSighashType};
    use bitcoin::taproot::{LeafVersion, TapLeafHash};
    use bitcoin::key::TapTweak;
    use bitcoin::PublicKey;
    use miniscript::descriptor::DescriptorType;
    use miniscript::{hash256, Descriptor, MiniscriptKey, Satisfier, ToPublicKey};

    use super::interp;

    pub struct Keys {
        pub secp: secp256k1::Secp256k1<secp256k1::All>,
        pub sks: Vec<secp256k1::SecretKey>,
        pub pks: Vec<PublicKey>,
        pub upks: Vec<PublicKey>, // uncompressed variants
    }

    impl Keys {
        pub fn new(n: usize) -> Self {
            let secp = secp256k1::Secp256k1::new();
            let mut sks = vec![]; let mut pks = vec![]; let mut upks = vec![];
            for i in 0..n {
                let mut b = [0x11u8; 32];
                b[0] = (i / 250) as u8 + 1; b[1] = (i % 250) as u8 + 1; b[31] = 7;
                let sk = secp256k1::SecretKey::from_slice(&b).unwrap();
                let pk = secp256k1::PublicKey::from_secret_key(&secp, &sk);
                sks.push(sk);
                pks.push(PublicKey { compressed: true, inner: pk });
                upks.push(PublicKey { compressed: false, inner: pk });
            }
            Self { secp, sks, pks, upks }
        }
        pub fn sk_for(&self, pk: &PublicKey) -> Option<secp256k1::SecretKey> {
            self.pks.iter().position(|p| p.inner == pk.inner).map(|i| self.sks[i])
        }
    }

    pub fn preimage(i: u8) -> [u8; 32] { [i.wrapping_add(0x40); 32] }

    #[derive(Clone)]
    pub struct Sat {
        pub ecdsa: HashMap<PublicKey, bitcoin::ecdsa::Signature>,
        pub tap_key: Option<(PublicKey, bitcoin::taproot::Signature)>,
        pub tap_leaf: HashMap<(bitcoin::secp256k1::XOnlyPublicKey, TapLeafHash), bitcoin::taproot::Signature>,
        pub sha256: HashMap<sha256::Hash, [u8; 32]>,
        pub hash256: HashMap<hash256::Hash, [u8; 32]>,
        pub ripemd160: HashMap<ripemd160::Hash, [u8; 32]>,
        pub hash160: HashMap<hash160::Hash, [u8; 32]>,
        pub lock_time: absolute::LockTime,
        pub sequence: Sequence,
        pub version: i32,
        pub use_after: bool,
        pub use_older: bool,
    }

    impl Default for Sat {
        fn default() -> Self {
            Sat { ecdsa: HashMap::new(), tap_key: None, tap_leaf: HashMap::new(), sha256: HashMap::new(), hash256: HashMap::new(), ripemd160: HashMap::new(), hash160: HashMap::new(), lock_time: absolute::LockTime::ZERO, sequence: Sequence::MAX, version: 2, use_after: true, use_older: true }
        }
    }

    impl Satisfier<PublicKey> for Sat {
        fn lookup_ecdsa_sig(&self, pk: &PublicKey) -> Option<bitcoin::ecdsa::Signature> { self.ecdsa.get(pk).copied() }
        fn lookup_tap_key_spend_sig(&self, pk: &PublicKey) -> Option<bitcoin::taproot::Signature> {
            self.tap_key.as_ref().filter(|(k, _)| k.to_x_only_pubkey() == pk.to_x_only_pubkey()).map(|x| x.1)
        }
        fn lookup_tap_leaf_script_sig(&self, pk: &PublicKey, lh: &TapLeafHash) -> Option<bitcoin::taproot::Signature> {
            self.tap_leaf.get(&(pk.to_x_only_pubkey(), *lh)).copied()
        }
        fn lookup_sha256(&self, h: &sha256::Hash) -> Option<[u8; 32]> { self.sha256.get(h).copied() }
        fn lookup_hash256(&self, h: &hash256::Hash) -> Option<[u8; 32]> { self.hash256.get(h).copied() }
        fn lookup_ripemd160(&self, h: &ripemd160::Hash) -> Option<[u8; 32]> { self.ripemd160.get(h).copied() }
        fn lookup_hash160(&self, h: &hash160::Hash) -> Option<[u8; 32]> { self.hash160.get(h).copied() }
        fn check_older(&self, n: bitcoin::relative::LockTime) -> bool {
            if !self.use_older || self.version < 2 { return false; }
            match self.sequence.to_relative_lock_time() { Some(lt) => n.is_implied_by(lt), None => false }
        }
        fn check_after(&self, n: absolute::LockTime) -> bool {
            if !self.use_after || self.sequence == Sequence::MAX { return false; }
            n.is_implied_by(self.lock_time)
        }
    }

    pub struct Case {
        pub desc: Descriptor<PublicKey>,
        pub prevouts: Vec<TxOut>,
        pub tx: Transaction,
    }

    pub fn make_case(desc: &Descriptor<PublicKey>, lock_time: u32, sequence: u32, version: i32) -> Case {
        let prevouts = vec![TxOut { value: Amount::from_sat(100_000), script_pubkey: desc.script_pubkey() }];
        let tx = Transaction {
            version: transaction::Version(version),
            lock_time: absolute::LockTime::from_consensus(lock_time),
            input: vec![TxIn { previous_output: OutPoint { txid: bitcoin::Txid::from_byte_array([7; 32]), vout: 0 }, script_sig: ScriptBuf::new(), sequence: Sequence(sequence), witness: Witness::new() }],
            output: vec![TxOut { value: Amount::from_sat(90_000), script_pubkey: ScriptBuf::from_bytes(vec![0x51]) }],
        };
        Case { desc: desc.clone(), prevouts, tx }
    }

    /// Sign with every key in `avail` (by index into keys) that appears in the descriptor.
    pub fn sign_all(case: &Case, keys: &Keys, avail: &BTreeSet<usize>, tap_sighash: TapSighashType, ecdsa_sighash: EcdsaSighashType) -> Sat {
        let mut sat = Sat { lock_time: case.tx.lock_time, sequence: case.tx.input[0].sequence, version: case.tx.version.0, use_after: true, use_older: true, ..Default::default() };
        let mut cache = SighashCache::new(&case.tx);
        let amount = case.prevouts[0].value;
        let avail_pk = |pk: &PublicKey| keys.pks.iter().position(|p| p.inner == pk.inner).filter(|i| avail.contains(i));
        match &case.desc {
            Descriptor::Tr(tr) => {
                let prevouts = Prevouts::All(&case.prevouts);
                // key spend
                if let Some(i) = avail_pk(tr.internal_key()) {
                    let kp = secp256k1::Keypair::from_secret_key(&keys.secp, &keys.sks[i]);
                    let tweaked = kp.tap_tweak(&keys.secp, tr.spend_info().merkle_root());
                    let h = cache.taproot_key_spend_signature_hash(0, &prevouts, tap_sighash).unwrap();
                    let msg = secp256k1::Message::from_digest(h.to_byte_array());
                    let sig = keys.secp.sign_schnorr_no_aux_rand(&msg, &tweaked.to_keypair());
                    sat.tap_key = Some((*tr.internal_key(), bitcoin::taproot::Signature { signature: sig, sighash_type: tap_sighash }));
                }
                for leaf in tr.leaves() {
                    let ms = leaf.miniscript();
                    let lh = TapLeafHash::from_script(&ms.encode(), LeafVersion::TapScript);
                    for pk in ms.iter_pk() {
                        if let Some(i) = avail_pk(&pk) {
                            let kp = secp256k1::Keypair::from_secret_key(&keys.secp, &keys.sks[i]);
                            let h = cache.taproot_script_spend_signature_hash(0, &prevouts, lh, tap_sighash).unwrap();
                            let msg = secp256k1::Message::from_digest(h.to_byte_array());
                            let sig = keys.secp.sign_schnorr_no_aux_rand(&msg, &kp);
                            sat.tap_leaf.insert((pk.to_x_only_pubkey(), lh), bitcoin::taproot::Signature { signature: sig, sighash_type: tap_sighash });
                        }
                    }
                }
            }
            d => {
                let script_code = d.script_code().unwrap();
                let segwit = matches!(d.desc_type(), DescriptorType::Wpkh | DescriptorType::Wsh | DescriptorType::ShWpkh | DescriptorType::ShWsh);
                for pk in d.iter_pk() {
                    if let Some(i) = avail_pk(&pk) {
                        let digest: [u8; 32] = if segwit {
                            cache.p2wsh_signature_hash(0, &script_code, amount, ecdsa_sighash).unwrap().to_byte_array()
                        } else {
                            cache.legacy_signature_hash(0, &script_code, ecdsa_sighash.to_u32()).unwrap().to_byte_array()
                        };
                        let msg = secp256k1::Message::from_digest(digest);
                        let sig = keys.secp.sign_ecdsa(&msg, &keys.sks[i]);
                        sat.ecdsa.insert(pk, bitcoin::ecdsa::Signature { signature: sig, sighash_type: ecdsa_sighash });
                    }
                }
            }
        }
        sat
    }

    pub fn add_preimages(sat: &mut Sat, which: &[u8]) {
        for &i in which {
            let p = preimage(i);
            sat.sha256.insert(sha256::Hash::hash(&p), p);
            sat.hash256.insert(hash256::Hash::hash(&p), p);
            sat.ripemd160.insert(ripemd160::Hash::hash(&p), p);
            sat.hash160.insert(hash160::Hash::hash(&p), p);
        }
    }

    pub fn sha256_hex(i: u8) -> String { sha256::Hash::hash(&preimage(i)).to_string() }
    pub fn hash256_hex(i: u8) -> String { hash256::Hash::hash(&preimage(i)).to_string() }
    pub fn ripemd160_hex(i: u8) -> String { ripemd160::Hash::hash(&preimage(i)).to_string() }
    pub fn hash160_hex(i: u8) -> String { hash160::Hash::hash(&preimage(i)).to_string() }

    pub fn verify(case: &Case, witness: &[Vec<u8>], script_sig: &ScriptBuf) -> (Result<(), String>, Result<(), String>) {
        let mut tx = case.tx.clone();
        tx.input[0].witness = Witness::from_slice(witness);
        tx.input[0].script_sig = script_sig.clone();
        (interp::verify_input(&tx, 0, &case.prevouts, interp::CONSENSUS), interp::verify_input(&tx, 0, &case.prevouts, interp::STANDARD))
    }

    /// Runs get_satisfaction / get_satisfaction_mall / into_plan(+satisfy) / into_plan_mall(+satisfy)
    /// and returns the list of failures (route, error).
    pub fn run_all(case: &Case, sat: &Sat) -> Vec<(String, String)> {
        let mut fails = vec![];
        let chk = |route: &str, w: &[Vec<u8>], s: &ScriptBuf, fails: &mut Vec<(String, String)>| {
            let (c, p) = verify(case, w, s);
            if let Err(e) = c { fails.push((route.to_string(), format!("CONSENSUS: {e}"))); }
            else if let Err(e) = p { fails.push((route.to_string(), format!("STANDARDNESS: {e}"))); }
        };
        if let Ok((w, s)) = case.desc.get_satisfaction(sat) { chk("get_satisfaction", &w, &s, &mut fails); }
        if let Ok((w, s)) = case.desc.get_satisfaction_mall(sat) { chk("get_satisfaction_mall", &w, &s, &mut fails); }
        if let Ok(plan) = case.desc.clone().into_plan(sat) {
            // check reported timelocks are met by tx
            if let Ok((w, s)) = plan.satisfy(sat) { chk("plan", &w, &s, &mut fails); }
        }
        if let Ok(plan) = case.desc.clone().into_plan_mall(sat) {
            if let Ok((w, s)) = plan.satisfy(sat) { chk("plan_mall", &w, &s, &mut fails); }
        }
        fails
    }

    pub fn parse(s: &str) -> Descriptor<PublicKey> { Descriptor::<PublicKey>::from_str(s).unwrap_or_else(|e| panic!("parse {s}: {e}")) }

    #[allow(unused)]
    pub fn unused(_: BTreeMap<u8, u8>) {}
    #[allow(unused)]
    pub fn unused2<K: MiniscriptKey>(_: K) {}
}

// =====================================================================================
// audit2 / finding 1 - demo
// `Descriptor::from_str` accepts pkh(<uncompressed key>) inside wsh() / sh(wsh()), and
// every satisfaction route returns a witness that carries the 65-byte key.
// =====================================================================================
use std::collections::BTreeSet;
use std::str::FromStr;

use harness::*;
use miniscript::bitcoin::sighash::{EcdsaSighashType, TapSighashType};
use miniscript::bitcoin::PublicKey;
use miniscript::{Descriptor, Miniscript, Segwitv0};

/// PSBT route: a PSBT that holds exactly what a signer for this descriptor would put in.
fn psbt_finalize(case: &Case, sat: &Sat, keys: &Keys, mall: bool) -> Result<(Vec<Vec<u8>>, miniscript::bitcoin::ScriptBuf), String> {
    use miniscript::bitcoin::bip32::{DerivationPath, Fingerprint};
    use miniscript::bitcoin::psbt::Psbt;
    use miniscript::descriptor::DescriptorType;
    use miniscript::psbt::PsbtExt;
    let secp = miniscript::bitcoin::secp256k1::Secp256k1::verification_only();
    let mut psbt = Psbt::from_unsigned_tx(case.tx.clone()).unwrap();
    let inp = &mut psbt.inputs[0];
    inp.witness_utxo = Some(case.prevouts[0].clone());
    match case.desc.desc_type() {
        DescriptorType::Wsh => inp.witness_script = Some(case.desc.explicit_script().unwrap()),
        DescriptorType::ShWsh => {
            let ws = case.desc.explicit_script().unwrap();
            inp.redeem_script = Some(ws.to_p2wsh());
            inp.witness_script = Some(ws);
        }
        _ => unreachable!(),
    }
    for (pk, sig) in &sat.ecdsa { inp.partial_sigs.insert(*pk, *sig); }
    for pk in &keys.pks { inp.bip32_derivation.insert(pk.inner, (Fingerprint::default(), DerivationPath::default())); }
    let res = if mall { psbt.finalize_mall_mut(&secp) } else { psbt.finalize_mut(&secp) };
    res.map_err(|e| format!("{e:?}"))?;
    Ok((
        psbt.inputs[0].final_script_witness.clone().unwrap_or_default().to_vec(),
        psbt.inputs[0].final_script_sig.clone().unwrap_or_default(),
    ))
}

#[test]
fn descriptor_from_str_accepts_uncompressed_pkh_in_wsh() {
    let keys = Keys::new(4);
    let unc = keys.upks[1]; // 65-byte serialization of K1
    let comp = keys.pks[2];

    // The library's own opinion about uncompressed keys in segwit v0:
    //  - pk(), multi(), wpkh() with the same key are refused ...
    assert!(Descriptor::<PublicKey>::from_str(&format!("wsh(pk({unc}))")).is_err());
    assert!(Descriptor::<PublicKey>::from_str(&format!("wsh(multi(1,{unc}))")).is_err());
    assert!(Descriptor::<PublicKey>::from_str(&format!("wpkh({unc})")).is_err());
    //  - ... and so is the very same pkh() fragment when it is parsed as a Miniscript.
    assert!(Miniscript::<PublicKey, Segwitv0>::from_str(&format!("pkh({unc})")).is_err());
    assert!(Miniscript::<PublicKey, Segwitv0>::from_str_insane(&format!("pkh({unc})")).is_err());

    // Same hole through the checked constructors (`from_ast` runs the context checks of the node it is
    // given, `new_wsh` the top-level checks): informational, the assertion below uses the parsed form.
    {
        use miniscript::Terminal;
        use std::sync::Arc;
        let pkh = Miniscript::<PublicKey, Segwitv0>::from_ast(Terminal::PkH(unc));
        let api = pkh.and_then(|k| Miniscript::<PublicKey, Segwitv0>::from_ast(Terminal::Check(Arc::new(k)))).and_then(Descriptor::new_wsh);
        println!("from_ast(PkH(uncompressed)) + Descriptor::new_wsh -> {:?}", api.map(|d| d.to_string()).map_err(|e| e.to_string()));
    }

    let mut report: Vec<String> = vec![];
    for dstr in [
        format!("wsh(pkh({unc}))"),
        format!("sh(wsh(pkh({unc})))"),
        format!("wsh(or_d(pk({comp}),pkh({unc})))"),
    ] {
        // Property-level expectation 1: either the descriptor is refused ...
        let desc = match Descriptor::<PublicKey>::from_str(&dstr) {
            Ok(d) => d,
            Err(_) => continue,
        };
        println!("ACCEPTED by Descriptor::from_str: {desc}");
        // ... or every satisfaction the library returns for it spends the output under
        // consensus AND the standardness rules of P2WSH (C01).
        let case = make_case(&desc, 0, 0xffff_ffff, 2);
        let avail: BTreeSet<usize> = [1usize].into_iter().collect(); // signer holds K1 only
        let sat = sign_all(&case, &keys, &avail, TapSighashType::Default, EcdsaSighashType::All);
        assert_eq!(sat.ecdsa.len(), 1, "one real BIP143 signature, made with the key of K1");

        let mut routes: Vec<(&str, Result<(Vec<Vec<u8>>, miniscript::bitcoin::ScriptBuf), String>)> = vec![];
        routes.push(("get_satisfaction", desc.get_satisfaction(&sat).map_err(|e| e.to_string())));
        routes.push(("get_satisfaction_mall", desc.get_satisfaction_mall(&sat).map_err(|e| e.to_string())));
        routes.push(("into_plan+satisfy", desc.clone().into_plan(&sat).map_err(|_| "no plan".to_string()).and_then(|p| p.satisfy(&sat).map_err(|e| e.to_string()))));
        routes.push(("into_plan_mall+satisfy", desc.clone().into_plan_mall(&sat).map_err(|_| "no plan".to_string()).and_then(|p| p.satisfy(&sat).map_err(|e| e.to_string()))));
        routes.push(("psbt finalize_mut", psbt_finalize(&case, &sat, &keys, false)));
        routes.push(("psbt finalize_mall_mut", psbt_finalize(&case, &sat, &keys, true)));

        for (route, res) in routes {
            match res {
                Err(e) => println!("  {route}: no satisfaction returned ({e}) - fine"),
                Ok((w, s)) => {
                    let sizes: Vec<usize> = w.iter().map(|x| x.len()).collect();
                    let (consensus, standard) = verify(&case, &w, &s);
                    println!("  {route}: returned witness item sizes {sizes:?}; consensus={consensus:?} standard={standard:?}");
                    assert!(consensus.is_ok(), "{dstr} {route}: {consensus:?}");
                    if let Err(e) = standard {
                        report.push(format!("{dstr} via {route}: {e}"));
                    }
                }
            }
        }
    }
    assert!(
        report.is_empty(),
        "C01 violated: the library returned satisfactions that fail the standardness rules of P2WSH \
         (BIP143 'only compressed public keys are accepted in P2WPKH and P2WSH', \
         SCRIPT_VERIFY_WITNESS_PUBKEYTYPE in STANDARD_SCRIPT_VERIFY_FLAGS):\n{}",
        report.join("\n")
    );
}
