//! C09 audit (round 2), finding 1.
//!
//! `ExtData::threshold` under-counts `max_exec_stack_count` of a `thresh`: it takes the
//! *satisfaction* figure only for the k children with the largest (sat - dissat) difference and
//! the *dissatisfaction* figure for all others, which is the right maximum for sums (sizes, op
//! counts) but not for a maximum. When the satisfier satisfies another child (because only that
//! one is satisfiable with the available assets) the real stack is deeper than the figure, and
//! `within_resource_limits()` / `Tap::check_local_consensus_validity` / `validate()` with
//! `max_exec_stack_size = 1000` declare a tapscript within the BIP342 stack limit although the
//! library's own satisfaction needs 1001 stack + altstack elements.

use std::collections::HashSet;
use std::str::FromStr;

use miniscript::bitcoin::opcodes::all::*;
use miniscript::bitcoin::script::Instruction;
use miniscript::bitcoin::secp256k1::{self, Keypair, Message, Secp256k1, XOnlyPublicKey};
use miniscript::bitcoin::taproot::{self, TapLeafHash};
use miniscript::bitcoin::{relative, Script, TapSighashType};
use miniscript::{Miniscript, Satisfier, ScriptContext, Tap, ValidationParams};

/// BIP342: "Stack + altstack element count limit: the existing limit of 1000 elements in the
/// stack and altstack together after every executed opcode remains. It is extended to also apply
/// to the size of initial stack." (Core: `MAX_STACK_SIZE`, `SCRIPT_ERR_STACK_SIZE`.)
const MAX_STACK_SIZE: usize = 1000;

/// The message every key signs here. It stands for the BIP341 signature hash: the scripts below
/// are executed outside a transaction, so the interpreter verifies every signature against it.
const SIGHASH: [u8; 32] = [0x42; 32];

struct World {
    keys: Vec<XOnlyPublicKey>,
    sigs: Vec<taproot::Signature>,
}

fn world(n: usize) -> World {
    let secp = Secp256k1::new();
    let msg = Message::from_digest(SIGHASH);
    let mut keys = vec![];
    let mut sigs = vec![];
    for i in 0..n {
        let mut sk = [0x11u8; 32];
        sk[0] = 1 + (i / 250) as u8;
        sk[1] = 1 + (i % 250) as u8;
        let kp = Keypair::from_seckey_slice(&secp, &sk).unwrap();
        keys.push(kp.x_only_public_key().0);
        sigs.push(taproot::Signature {
            signature: secp.sign_schnorr_no_aux_rand(&msg, &kp),
            sighash_type: TapSighashType::Default,
        });
    }
    World { keys, sigs }
}

/// Assets: signatures of the keys in `have`, every `older()` satisfied.
struct Sat<'a> {
    w: &'a World,
    have: HashSet<XOnlyPublicKey>,
}

impl<'a> Satisfier<XOnlyPublicKey> for Sat<'a> {
    fn lookup_tap_leaf_script_sig(
        &self,
        pk: &XOnlyPublicKey,
        _: &TapLeafHash,
    ) -> Option<taproot::Signature> {
        if !self.have.contains(pk) {
            return None;
        }
        let i = self.w.keys.iter().position(|k| k == pk)?;
        Some(self.w.sigs[i])
    }
    fn check_older(&self, _: relative::LockTime) -> bool { true }
}

fn to_bool(v: &[u8]) -> bool {
    for (i, b) in v.iter().enumerate() {
        if *b != 0 {
            return !(i == v.len() - 1 && *b == 0x80);
        }
    }
    false
}
fn num(v: &[u8]) -> i64 { miniscript::bitcoin::script::read_scriptint(v).expect("minimal script number") }
fn enc(n: i64) -> Vec<u8> {
    let mut buf = [0u8; 8];
    let l = miniscript::bitcoin::script::write_scriptint(&mut buf, n);
    buf[..l].to_vec()
}
fn checksig(sig: &[u8], pk: &[u8]) -> bool {
    if sig.is_empty() {
        return false;
    }
    // BIP342: a non-empty signature must be valid, otherwise the script fails.
    let secp = Secp256k1::verification_only();
    let pk = XOnlyPublicKey::from_slice(pk).expect("32-byte key");
    let sig = secp256k1::schnorr::Signature::from_slice(&sig[..64]).expect("64-byte signature");
    secp.verify_schnorr(&sig, &Message::from_digest(SIGHASH), &pk)
        .expect("BIP342: non-empty invalid signature");
    true
}

/// Executes a tapscript on an initial stack the way Bitcoin Core's `EvalScript` does (restricted
/// to the opcodes that occur below) and returns the largest number of stack + altstack elements
/// seen initially or after any opcode. Panics unless the script succeeds with a clean stack.
fn max_depth(script: &Script, initial: &[Vec<u8>]) -> usize {
    let mut stack: Vec<Vec<u8>> = initial.to_vec();
    let mut alt: Vec<Vec<u8>> = vec![];
    let mut cond: Vec<bool> = vec![];
    let mut depth = stack.len();
    for ins in script.instructions() {
        let exec = cond.iter().all(|b| *b);
        match ins.unwrap() {
            Instruction::PushBytes(b) => {
                if exec {
                    stack.push(b.as_bytes().to_vec());
                }
            }
            Instruction::Op(op) => {
                if op == OP_IF || op == OP_NOTIF {
                    let mut v = false;
                    if exec {
                        let t = stack.pop().unwrap();
                        assert!(t.is_empty() || t == [1u8], "MINIMALIF");
                        v = to_bool(&t) ^ (op == OP_NOTIF);
                    }
                    cond.push(v);
                } else if op == OP_ELSE {
                    let l = cond.last_mut().unwrap();
                    *l = !*l;
                } else if op == OP_ENDIF {
                    cond.pop().unwrap();
                } else if exec {
                    let o = op.to_u8();
                    if (0x51..=0x60).contains(&o) {
                        stack.push(vec![o - 0x50]);
                    } else if op == OP_CSV {
                        // BIP112: leaves the number on the stack (the caller "satisfied" every older())
                        assert!(!stack.is_empty());
                    } else if op == OP_TOALTSTACK {
                        alt.push(stack.pop().unwrap());
                    } else if op == OP_FROMALTSTACK {
                        stack.push(alt.pop().unwrap());
                    } else if op == OP_BOOLAND || op == OP_ADD || op == OP_NUMEQUAL {
                        let b = num(&stack.pop().unwrap());
                        let a = num(&stack.pop().unwrap());
                        stack.push(if op == OP_ADD {
                            enc(a + b)
                        } else if op == OP_BOOLAND {
                            enc((a != 0 && b != 0) as i64)
                        } else {
                            enc((a == b) as i64)
                        });
                    } else if op == OP_EQUAL {
                        let b = stack.pop().unwrap();
                        let a = stack.pop().unwrap();
                        stack.push(enc((a == b) as i64));
                    } else if op == OP_CHECKSIG {
                        let pk = stack.pop().unwrap();
                        let sig = stack.pop().unwrap();
                        stack.push(enc(checksig(&sig, &pk) as i64));
                    } else if op == OP_CHECKSIGADD {
                        let pk = stack.pop().unwrap();
                        let n = num(&stack.pop().unwrap());
                        let sig = stack.pop().unwrap();
                        stack.push(enc(n + checksig(&sig, &pk) as i64));
                    } else {
                        panic!("opcode {:?} not expected in this script", op);
                    }
                }
            }
        }
        depth = depth.max(stack.len() + alt.len());
    }
    assert!(cond.is_empty());
    assert_eq!(stack.len(), 1, "clean stack");
    assert!(to_bool(&stack[0]), "script must succeed");
    depth
}

/// `n` nested `and_b(older(1),a:...)`: needs no witness and has n elements on stack + altstack
/// when the innermost `older(1)` is pushed.
fn deep(n: usize) -> String {
    if n == 1 {
        "older(1)".to_string()
    } else {
        format!("and_b(older(1),a:{})", deep(n - 1))
    }
}

/// thresh(1, A, B) with
///   A = and_b(and_n(pk(Q),DEEP7), a:and_b(multi_a(p,K1..Kp), a:and_b(pk(X), a:pk(Y))))
///   B = a:and_n(pk(Z), DEEP5)
/// Every spending path needs a signature, the script is non-malleable, has no repeated keys and no
/// mixed timelocks: it is a sane miniscript and is parsed with the default (sane) rules.
fn script(w: &World, p: usize) -> Result<Miniscript<XOnlyPublicKey, Tap>, miniscript::Error> {
    let n = w.keys.len();
    let keys: Vec<String> = w.keys[..p].iter().map(|k| k.to_string()).collect();
    let a = format!(
        "and_b(and_n(pk({}),{}),a:and_b(multi_a({},{}),a:and_b(pk({}),a:pk({}))))",
        w.keys[n - 4],
        deep(7),
        p,
        keys.join(","),
        w.keys[n - 3],
        w.keys[n - 2],
    );
    let b = format!("a:and_n(pk({}),{})", w.keys[n - 1], deep(5));
    Miniscript::<XOnlyPublicKey, Tap>::from_str(&format!("thresh(1,{},{})", a, b))
}

fn satisfactions(
    ms: &Miniscript<XOnlyPublicKey, Tap>,
    w: &World,
) -> Vec<(&'static str, Vec<Vec<u8>>)> {
    // every key but the one of B: the satisfier has to satisfy A and dissatisfy B
    let have: HashSet<_> = w.keys[..w.keys.len() - 1].iter().cloned().collect();
    let sat = Sat { w, have };
    vec![
        ("non-malleable", ms.satisfy(&sat).expect("satisfiable")),
        ("malleable", ms.satisfy_malleable(&sat).expect("satisfiable")),
    ]
}

/// The figure itself: `max_exec_stack_count` ("maximum number of stack and altstack elements at
/// any point during execution", not counting the initial witness elements).
#[test]
fn exec_stack_figure_is_an_upper_bound() {
    let w = world(7);
    let ms = script(&w, 3).expect("a sane tapscript miniscript");
    let data = ms.ext.sat_data.unwrap();
    for (mode, wit) in satisfactions(&ms, &w) {
        let depth = max_depth(&ms.encode(), &wit);
        println!(
            "[{}] witness items {} (max_witness_stack_count {}), measured depth {}, max_exec_stack_count {}",
            mode, wit.len(), data.max_witness_stack_count, depth, data.max_exec_stack_count
        );
        assert!(wit.len() <= data.max_witness_stack_count);
        assert!(
            depth <= data.max_witness_stack_count + data.max_exec_stack_count,
            "[{}] executing the library's satisfaction needs {} stack+altstack elements, the static \
             figures allow {} witness elements + {} pushed during execution",
            mode, depth, data.max_witness_stack_count, data.max_exec_stack_count
        );
    }
}

/// The declaration: a script the library declares within the BIP342 stack limit must stay within
/// it when its satisfaction is executed.
#[test]
fn declared_within_stack_limit_stays_within_it() {
    let w = world(995);
    let ms = match script(&w, 991) {
        Ok(ms) => ms,
        // (what a repaired library answers: the script can need more than 1000 elements)
        Err(e @ miniscript::Error::Validation(miniscript::ValidationError::MaxExecStackSizeExceeded { .. })) => {
            println!("Miniscript::from_str refuses the script: {}", e);
            return;
        }
        Err(e) => panic!("a sane tapscript miniscript: {}", e),
    };
    println!("Miniscript::<_, Tap>::from_str accepted the script ({} bytes)", ms.script_size());

    // `Miniscript::from_str` validates under `Tap::SANE`, whose `max_exec_stack_size` is 1000;
    // three more ways to ask the library the same question:
    assert_eq!(Tap::SANE.max_exec_stack_size, MAX_STACK_SIZE);
    let params: ValidationParams = Tap::SANE;
    let declared = [
        ms.within_resource_limits(),
        Tap::check_local_consensus_validity(&ms).is_ok(),
        ms.validate(&params).is_ok(),
    ];
    let data = ms.ext.sat_data.unwrap();
    println!(
        "within_resource_limits() = {}, check_local_consensus_validity ok = {}, validate(&Tap::SANE) ok = {} \
         (max_witness_stack_count {} + max_exec_stack_count {})",
        declared[0], declared[1], declared[2], data.max_witness_stack_count, data.max_exec_stack_count
    );
    assert_eq!(declared, [true, true, true]);

    for (mode, wit) in satisfactions(&ms, &w) {
        assert!(wit.len() <= MAX_STACK_SIZE, "initial stack");
        let depth = max_depth(&ms.encode(), &wit);
        println!("[{}] witness items {}, measured depth {}", mode, wit.len(), depth);
        assert!(
            depth <= MAX_STACK_SIZE,
            "[{}] the script was declared within the resource limits of tapscript, but executing \
             the library's own satisfaction needs {} stack+altstack elements (BIP342 limit: {})",
            mode, depth, MAX_STACK_SIZE
        );
    }
}
