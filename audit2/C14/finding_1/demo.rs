// C14 audit, round 2, finding 1
//
// A legacy `sh(..)` descriptor whose script contains `or_i` (also written `l:` / `u:`) or the `d:`
// wrapper is accepted by every *descriptor* entry point of the library - `Descriptor::from_str`,
// `Descriptor::new_sh`, the policy compiler (`compile::<Legacy>()` emits these fragments),
// `update_input_with_descriptor`, `into_plan`, `Descriptor::satisfy` / `Plan::satisfy` - but the
// PSBT Finalizer and the Extractor reject it unconditionally:
//
//     finalize_mut / finalize_inp_mut / finalize_mall_mut  ->  MiniscriptError(Validation(IllegalOrI))
//     extract (on a consensus-valid final_script_sig)      ->  Interpreter(.. IllegalOrI ..)
//
// because `get_descriptor` (src/psbt/finalizer.rs) and `interpreter::inner::script_from_stack_elem`
// re-parse the redeemScript with `Miniscript::<_, Legacy>::decode_consensus`, and
// `Legacy::CONSENSUS` (src/miniscript/context.rs) has `allow_or_i: false, allow_dup_if: false`.
// `decode_consensus` is documented as "checking only for consensus compatibility ... once it's on
// the chain you don't have much choice anymore"; `IF .. ELSE .. ENDIF` and `DUP IF .. ENDIF` are
// perfectly valid in a P2SH redeemScript (BIP 16; MINIMALIF is not even a policy rule outside
// segwit), and the very same library builds the valid spend with `Descriptor::satisfy`.
//
// Run: cp audit2/finding_1/demo.rs tests/audit_1.rs && cargo test --offline --test audit_1

use std::str::FromStr;

use miniscript::bitcoin::hashes::{hash160, Hash};
use miniscript::bitcoin::psbt::Psbt;
use miniscript::bitcoin::script::Instruction;
use miniscript::bitcoin::secp256k1::{self, Message, Secp256k1, SecretKey};
use miniscript::bitcoin::sighash::{EcdsaSighashType, SighashCache};
use miniscript::bitcoin::{
    absolute, ecdsa, transaction, Amount, OutPoint, PublicKey, Script, ScriptBuf, Sequence,
    Transaction, TxIn, TxOut, Txid, Witness,
};
use miniscript::psbt::{PsbtExt, PsbtInputSatisfier};
use miniscript::{DefiniteDescriptorKey, Descriptor};

fn key(n: u8) -> (SecretKey, PublicKey) {
    let secp = Secp256k1::new();
    let mut b = [0x11u8; 32];
    b[31] = n + 1;
    let sk = SecretKey::from_slice(&b).unwrap();
    (sk, PublicKey::new(secp256k1::PublicKey::from_secret_key(&secp, &sk)))
}

fn desc(template: &str) -> Descriptor<DefiniteDescriptorKey> {
    let mut s = template.to_string();
    for n in (0..6u8).rev() {
        s = s.replace(&format!("K{}", n), &key(n).1.to_string());
    }
    Descriptor::from_str(&s).unwrap_or_else(|e| panic!("descriptor {} does not parse: {}", template, e))
}

/// One-input PSBT (version 2, nSequence 5 so that `older(5)` is met) spending an output of `d`,
/// updated from the descriptor with the checked updater and signed by every key of the script.
fn signed_psbt(d: &Descriptor<DefiniteDescriptorKey>) -> Psbt {
    let secp = Secp256k1::new();
    let funding = Transaction {
        version: transaction::Version::TWO,
        lock_time: absolute::LockTime::ZERO,
        input: vec![TxIn {
            previous_output: OutPoint { txid: Txid::all_zeros(), vout: 7 },
            script_sig: ScriptBuf::new(),
            sequence: Sequence::MAX,
            witness: Witness::new(),
        }],
        output: vec![TxOut { value: Amount::from_sat(100_000), script_pubkey: d.script_pubkey() }],
    };
    let tx = Transaction {
        version: transaction::Version::TWO,
        lock_time: absolute::LockTime::ZERO,
        input: vec![TxIn {
            previous_output: OutPoint { txid: funding.compute_txid(), vout: 0 },
            script_sig: ScriptBuf::new(),
            sequence: Sequence::from_height(5),
            witness: Witness::new(),
        }],
        output: vec![TxOut {
            value: Amount::from_sat(90_000),
            script_pubkey: ScriptBuf::from_hex("0014000102030405060708090a0b0c0d0e0f10111213")
                .unwrap(),
        }],
    };
    let mut psbt = Psbt::from_unsigned_tx(tx).unwrap();
    psbt.inputs[0].non_witness_utxo = Some(funding.clone());
    if d.desc_type().segwit_version().is_some() {
        psbt.inputs[0].witness_utxo = Some(funding.output[0].clone());
    }
    // the Updater accepts the descriptor and records its script
    psbt.update_input_with_descriptor(0, d).expect("the updater accepts the descriptor");
    let script = d.explicit_script().unwrap();
    if d.desc_type().segwit_version().is_some() {
        assert_eq!(psbt.inputs[0].witness_script.as_ref(), Some(&script));
    } else {
        assert_eq!(psbt.inputs[0].redeem_script.as_ref(), Some(&script));
    }
    // every key listed by the updater signs (SIGHASH_ALL)
    let unsigned = psbt.unsigned_tx.clone();
    let mut cache = SighashCache::new(&unsigned);
    let msg = psbt.sighash_msg(0, &mut cache, None).unwrap().to_secp_msg();
    for n in 0..6u8 {
        let (sk, pk) = key(n);
        if psbt.inputs[0].bip32_derivation.contains_key(&pk.inner) {
            let signature = secp.sign_ecdsa(&msg, &sk);
            psbt.inputs[0]
                .partial_sigs
                .insert(pk, ecdsa::Signature { signature, sighash_type: EcdsaSighashType::All });
        }
    }
    psbt
}

const LEGACY_CASES: &[&str] = &[
    // plain or_i
    "sh(or_i(pk(K0),pk(K1)))",
    // or_i below other fragments
    "sh(or_d(pk(K0),and_v(v:pk(K1),or_i(pk(K2),pk(K3)))))",
    // the l: wrapper is or_i(0,X): what the policy compiler emits for thresh(2,pk,pk,older) in Legacy
    "sh(thresh(2,pk(K0),s:pk(K1),sln:older(5)))",
    // the d: wrapper
    "sh(and_v(v:pk(K0),or_d(pk(K1),dv:older(5))))",
];

/// BIP 16 evaluation of `scriptSig = <sig> <selector> <redeemScript>` for
/// `redeemScript = IF <K0> CHECKSIG ELSE <K1> CHECKSIG ENDIF`, by hand: the pushed script hashes
/// to the scriptPubKey, the selector picks the branch, and the signature is a valid SIGHASH_ALL
/// ECDSA signature of the legacy sighash with scriptCode = redeemScript for that branch's key.
fn check_or_i_spend_by_hand(tx: &Transaction, spk: &Script, script_sig: &Script) {
    let secp = Secp256k1::verification_only();
    let pushes: Vec<Vec<u8>> = script_sig
        .instructions()
        .map(|i| match i.unwrap() {
            Instruction::PushBytes(b) => b.as_bytes().to_vec(),
            Instruction::Op(op) if op.to_u8() == 0x51 => vec![1], // OP_1
            other => panic!("scriptSig is not push-only: {:?}", other),
        })
        .collect();
    assert_eq!(pushes.len(), 3, "<sig> <selector> <redeemScript>");
    let redeem = ScriptBuf::from_bytes(pushes[2].clone());
    assert_eq!(ScriptBuf::new_p2sh(&redeem.script_hash()), spk.to_owned(), "BIP16 hash check");
    let expected_redeem = miniscript::bitcoin::script::Builder::new()
        .push_opcode(miniscript::bitcoin::opcodes::all::OP_IF)
        .push_key(&key(0).1)
        .push_opcode(miniscript::bitcoin::opcodes::all::OP_CHECKSIG)
        .push_opcode(miniscript::bitcoin::opcodes::all::OP_ELSE)
        .push_key(&key(1).1)
        .push_opcode(miniscript::bitcoin::opcodes::all::OP_CHECKSIG)
        .push_opcode(miniscript::bitcoin::opcodes::all::OP_ENDIF)
        .into_script();
    assert_eq!(redeem, expected_redeem);
    let branch_key = if pushes[1].is_empty() { key(1).1 } else { key(0).1 };
    let (der, ty) = pushes[0].split_at(pushes[0].len() - 1);
    assert_eq!(ty, &[0x01u8][..]);
    let sig = secp256k1::ecdsa::Signature::from_der(der).unwrap();
    let cache = SighashCache::new(tx);
    let h = cache.legacy_signature_hash(0, &redeem, 1).unwrap();
    secp.verify_ecdsa(&Message::from_digest(h.to_byte_array()), &sig, &branch_key.inner)
        .expect("CHECKSIG succeeds: the spend is valid");
    let _ = hash160::Hash::all_zeros();
}

#[test]
fn legacy_or_i_and_dup_if_inputs_can_be_finalized() {
    let secp = Secp256k1::new();
    let mut failures = vec![];
    for case in LEGACY_CASES {
        let d = desc(case);
        let psbt = signed_psbt(&d);

        // The library itself produces a spend for this input from the same PSBT data ...
        let mut txin = psbt.unsigned_tx.input[0].clone();
        d.satisfy(&mut txin, PsbtInputSatisfier::new(&psbt, 0))
            .unwrap_or_else(|e| panic!("{}: Descriptor::satisfy failed: {}", case, e));
        assert!(txin.witness.is_empty());
        if *case == LEGACY_CASES[0] {
            // ... which is valid under BIP 16 / legacy sighash rules (checked by hand).
            check_or_i_spend_by_hand(&psbt.unsigned_tx, &d.script_pubkey(), &txin.script_sig);
        }

        // C14 expectation: the Finalizer yields a valid spend for a fully signed input of a
        // descriptor that the library accepted, updated and can satisfy.
        for (mode, res) in [
            ("finalize_mut", psbt.clone().finalize_mut(&secp).map_err(|e| format!("{:?}", e))),
            ("finalize_mall_mut", psbt.clone().finalize_mall_mut(&secp).map_err(|e| format!("{:?}", e))),
            ("finalize_inp_mut", psbt.clone().finalize_inp_mut(&secp, 0).map_err(|e| format!("{:?}", e))),
        ] {
            println!("{:<62} {:<18} -> {:?}", case, mode, res);
            if let Err(e) = res {
                failures.push(format!("{} {}: {}", case, mode, e));
            }
        }

        // The Extractor refuses the valid spend as well.
        let mut fin = psbt.clone();
        let unfinal = std::mem::take(&mut fin.inputs[0]);
        fin.inputs[0].non_witness_utxo = unfinal.non_witness_utxo;
        fin.inputs[0].final_script_sig = Some(txin.script_sig.clone());
        let res = fin.extract(&secp).map(|_| ()).map_err(|e| format!("{:?}", e));
        println!("{:<62} {:<18} -> {:?}", case, "extract(valid spend)", res);
        if let Err(e) = res {
            failures.push(format!("{} extract: {}", case, e));
        }
    }
    assert!(
        failures.is_empty(),
        "fully signed legacy inputs that the library accepts, updates and satisfies cannot be \
         finalized / extracted:\n{}",
        failures.join("\n")
    );
}

/// The same fragments finalize under wsh / sh(wsh), and a legacy script without or_i / d: finalizes:
/// it is only the re-parse of the legacy redeemScript that fails.
#[test]
fn control_same_fragments_elsewhere() {
    let secp = Secp256k1::new();
    for case in [
        "wsh(or_i(pk(K0),pk(K1)))",
        "sh(wsh(or_i(pk(K0),pk(K1))))",
        "wsh(thresh(2,pk(K0),s:pk(K1),sln:older(5)))",
        "wsh(and_v(v:pk(K0),or_d(pk(K1),dv:older(5))))",
        "sh(or_d(pk(K0),pk(K1)))",
        "sh(thresh(2,pk(K0),s:pk(K1),s:pk(K2)))",
    ] {
        let d = desc(case);
        let mut psbt = signed_psbt(&d);
        psbt.finalize_mut(&secp).unwrap_or_else(|e| panic!("{}: {:?}", case, e));
        psbt.extract(&secp).unwrap_or_else(|e| panic!("{}: {:?}", case, e));
    }
}
