// C14 audit, round 2, finding 2
//
// The PSBT updaters (`PsbtExt::update_input_with_descriptor`, `update_output_with_descriptor`,
// `PsbtInputExt/PsbtOutputExt::update_with_descriptor_unchecked`) panic - instead of returning
// their `Err` - on descriptors that the public constructors `Descriptor::new_sh_sortedmulti`,
// `new_wsh_sortedmulti` and `new_sh_wsh_sortedmulti` return with `Ok`.
//
// Those constructors are documented "Errors when miniscript exceeds resource limits under p2sh
// context", but `Sh::new_sortedmulti` / `Wsh::new_sortedmulti` wrap `Miniscript::sortedmulti(thresh)`
// without any context check (the comment "The context checks will be carried out inside new function
// for sortedMultiVec" is stale), so
//   * sh(sortedmulti(2, <16 compressed keys>))  - redeemScript 547 bytes > 520 (BIP 16 push limit:
//     the output can never be spent), and
//   * wsh / sh(wsh)(sortedmulti(1, <uncompressed key>, K))
// are handed out, with a scriptPubKey and an address.  `update_item_with_descriptor_helper`
// (src/psbt/mod.rs) then derives the descriptor with `translate_pk`, which re-runs the context
// checks, and `.expect("No Context errors while translating")` aborts the caller.
//
// Run: cp audit2/finding_2/demo.rs tests/audit_2.rs && cargo test --offline --test audit_2

use std::panic::catch_unwind;
use std::str::FromStr;

use miniscript::bitcoin::psbt::{Input, Output, Psbt};
use miniscript::bitcoin::secp256k1::{self, Secp256k1, SecretKey};
use miniscript::bitcoin::{
    absolute, transaction, Amount, OutPoint, PublicKey, ScriptBuf, Sequence, Transaction, TxIn,
    TxOut, Txid, Witness,
};
use miniscript::bitcoin::hashes::Hash;
use miniscript::psbt::{PsbtExt, PsbtInputExt, PsbtOutputExt};
use miniscript::{DefiniteDescriptorKey, Descriptor, Threshold};

fn pk(n: u8) -> PublicKey {
    let secp = Secp256k1::new();
    let mut b = [0x11u8; 32];
    b[31] = n + 1;
    let sk = SecretKey::from_slice(&b).unwrap();
    PublicKey::new(secp256k1::PublicKey::from_secret_key(&secp, &sk))
}
fn dk(p: PublicKey) -> DefiniteDescriptorKey { DefiniteDescriptorKey::from_str(&p.to_string()).unwrap() }

fn psbt_spending(d: &Descriptor<DefiniteDescriptorKey>) -> Psbt {
    let funding = Transaction {
        version: transaction::Version::TWO,
        lock_time: absolute::LockTime::ZERO,
        input: vec![TxIn {
            previous_output: OutPoint { txid: Txid::all_zeros(), vout: 0 },
            script_sig: ScriptBuf::new(),
            sequence: Sequence::MAX,
            witness: Witness::new(),
        }],
        output: vec![TxOut { value: Amount::from_sat(100_000), script_pubkey: d.script_pubkey() }],
    };
    let tx = Transaction {
        version: transaction::Version::TWO,
        lock_time: absolute::LockTime::ZERO,
        input: vec![TxIn {
            previous_output: OutPoint { txid: funding.compute_txid(), vout: 0 },
            script_sig: ScriptBuf::new(),
            sequence: Sequence::MAX,
            witness: Witness::new(),
        }],
        // change back to the same descriptor, to exercise the output updater too
        output: vec![TxOut { value: Amount::from_sat(90_000), script_pubkey: d.script_pubkey() }],
    };
    let mut psbt = Psbt::from_unsigned_tx(tx).unwrap();
    psbt.inputs[0].witness_utxo = Some(funding.output[0].clone());
    psbt.inputs[0].non_witness_utxo = Some(funding);
    psbt
}

/// Every updater entry point must return (Ok or Err) and, when it does not succeed, leave the
/// PSBT as it was.
fn updaters_return(name: &str, d: Descriptor<DefiniteDescriptorKey>) -> Vec<String> {
    let mut problems = vec![];
    let psbt = psbt_spending(&d);

    let (p, dd) = (psbt.clone(), d.clone());
    match catch_unwind(move || { let mut p = p; let r = p.update_input_with_descriptor(0, &dd); (p, r) }) {
        Err(_) => problems.push(format!("{}: update_input_with_descriptor PANICKED", name)),
        Ok((p, Err(_))) => assert_eq!(p, psbt, "failed update must not touch the PSBT"),
        Ok((_, Ok(()))) => {}
    }
    let (p, dd) = (psbt.clone(), d.clone());
    match catch_unwind(move || { let mut p = p; let r = p.update_output_with_descriptor(0, &dd); (p, r) }) {
        Err(_) => problems.push(format!("{}: update_output_with_descriptor PANICKED", name)),
        Ok((p, Err(_))) => assert_eq!(p, psbt, "failed update must not touch the PSBT"),
        Ok((_, Ok(()))) => {}
    }
    let dd = d.clone();
    if catch_unwind(move || { let mut i = Input::default(); i.update_with_descriptor_unchecked(&dd).map(|_| ()) }).is_err() {
        problems.push(format!("{}: Input::update_with_descriptor_unchecked PANICKED", name));
    }
    let dd = d.clone();
    if catch_unwind(move || { let mut o = Output::default(); o.update_with_descriptor_unchecked(&dd).map(|_| ()) }).is_err() {
        problems.push(format!("{}: Output::update_with_descriptor_unchecked PANICKED", name));
    }
    problems
}

#[test]
fn updaters_do_not_panic_on_descriptors_returned_by_the_public_constructors() {
    let compressed: Vec<DefiniteDescriptorKey> = (0..16).map(|n| dk(pk(n))).collect();
    let uncompressed = dk(PublicKey::new_uncompressed(pk(0).inner));

    let cases: Vec<(&str, Result<Descriptor<DefiniteDescriptorKey>, miniscript::Error>)> = vec![
        // 2-of-16 P2SH sortedmulti: 3 + 16 * 34 = 547 bytes of redeemScript (> 520, BIP 16)
        (
            "new_sh_sortedmulti(2 of 16)",
            Descriptor::new_sh_sortedmulti(Threshold::new(2, compressed.clone()).unwrap()),
        ),
        // segwit v0 does not allow uncompressed keys
        (
            "new_wsh_sortedmulti(uncompressed key)",
            Descriptor::new_wsh_sortedmulti(
                Threshold::new(1, vec![uncompressed.clone(), compressed[1].clone()]).unwrap(),
            ),
        ),
        (
            "new_sh_wsh_sortedmulti(uncompressed key)",
            Descriptor::new_sh_wsh_sortedmulti(
                Threshold::new(1, vec![uncompressed, compressed[1].clone()]).unwrap(),
            ),
        ),
    ];

    let mut problems = vec![];
    for (name, res) in cases {
        match res {
            // what the documentation of the constructors promises ("Errors when miniscript exceeds
            // resource limits under p2sh context"): nothing to update then
            Err(e) => println!("{}: constructor refused: {}", name, e),
            Ok(d) => {
                // (`d.address(..)` panics as well for the 547-byte script - `assert!(addr.is_ok())`
                // in src/descriptor/sh.rs - so only the scriptPubKey is printed.)
                println!(
                    "{}: constructor returned Ok, script {} bytes, scriptPubKey {}",
                    name,
                    d.explicit_script().unwrap().len(),
                    d.script_pubkey().to_hex_string()
                );
                // the string form of the very same descriptor is refused by the parser
                assert!(Descriptor::<DefiniteDescriptorKey>::from_str(&d.to_string()).is_err());
                problems.extend(updaters_return(name, d));
            }
        }
    }

    assert!(
        problems.is_empty(),
        "PSBT updaters abort the caller on descriptors handed out by the library's own constructors:\n{}",
        problems.join("\n")
    );
}

/// Within the limits the constructor-built descriptors update fine, and the parser rejects the
/// oversized ones cleanly.
#[test]
fn control() {
    let compressed: Vec<DefiniteDescriptorKey> = (0..15).map(|n| dk(pk(n))).collect();
    let d = Descriptor::new_sh_sortedmulti(Threshold::new(2, compressed).unwrap()).unwrap();
    assert_eq!(d.explicit_script().unwrap().len(), 513);
    assert!(updaters_return("new_sh_sortedmulti(2 of 15)", d).is_empty());
}
