//! C11 (second round) finding 2: `Descriptor::new_sh_sortedmulti` accepts a multisig whose redeem
//! script is larger than 520 bytes; the object it returns makes `address()`, `get_satisfaction()`
//! and `Plan::satisfy()` panic.
//!
//! BIP16 / consensus: a P2SH redeemScript is pushed as a single stack element, so it can be at
//! most MAX_SCRIPT_ELEMENT_SIZE = 520 bytes.  A sortedmulti of 16 compressed keys is
//! 1 + 16*34 + 1 + 1 = 547 bytes - such an output can never be spent.  The string parser refuses
//! `sh(sortedmulti(2,<16 keys>))` with `MaxRedeemScriptSizeExceeded`, and the constructor is
//! documented as "Errors when miniscript exceeds resource limits under p2sh context" - but it
//! returns `Ok` unconditionally.
//!
//! Property-level expectation (C11): oversized input is reported as an error value; no object that
//! the library hands out makes a later library call panic.

use std::collections::BTreeMap;
use std::panic::{catch_unwind, AssertUnwindSafe};
use std::str::FromStr;

use miniscript::bitcoin::secp256k1::{self, Secp256k1};
use miniscript::bitcoin::{self, ecdsa, Network};
use miniscript::{Descriptor, Threshold};

fn keys(n: usize) -> Vec<bitcoin::PublicKey> {
    let secp = Secp256k1::new();
    (1..=n)
        .map(|i| {
            let mut b = [1u8; 32];
            b[31] = i as u8;
            let sk = secp256k1::SecretKey::from_slice(&b).unwrap();
            bitcoin::PublicKey::new(secp256k1::PublicKey::from_secret_key(&secp, &sk))
        })
        .collect()
}

fn panic_msg(e: Box<dyn std::any::Any + Send>) -> String {
    e.downcast_ref::<String>()
        .cloned()
        .or_else(|| e.downcast_ref::<&str>().map(|s| s.to_string()))
        .unwrap_or_default()
}

fn dummy_sig() -> ecdsa::Signature {
    // a well-formed DER signature (r = s = 1); the satisfier does not verify signatures
    let der = [0x30, 0x06, 0x02, 0x01, 0x01, 0x02, 0x01, 0x01];
    ecdsa::Signature {
        signature: secp256k1::ecdsa::Signature::from_der(&der).unwrap(),
        sighash_type: bitcoin::sighash::EcdsaSighashType::All,
    }
}

#[test]
fn sh_sortedmulti_of_16_keys_must_be_an_error_or_harmless() {
    let ks = keys(16);
    let thresh = Threshold::new(2, ks.clone()).expect("2-of-16 is a valid threshold (max 20)");

    // The same descriptor as text is refused:
    let text = format!(
        "sh(sortedmulti(2,{}))",
        ks.iter().map(|k| k.to_string()).collect::<Vec<_>>().join(",")
    );
    assert!(
        Descriptor::<bitcoin::PublicKey>::from_str(&text).is_err(),
        "control: the parser refuses the 547-byte redeem script"
    );

    let desc = match Descriptor::<bitcoin::PublicKey>::new_sh_sortedmulti(thresh) {
        // this is what the documentation of the constructor promises
        Err(_) => return,
        Ok(d) => d,
    };

    // The constructor said Ok, so the object has to be usable without crashing.
    let r = catch_unwind(AssertUnwindSafe(|| desc.address(Network::Bitcoin)));
    if let Err(e) = r {
        panic!(
            "C11 violated: Descriptor::new_sh_sortedmulti returned Ok for a {}-byte redeem script \
             (limit 520) and Descriptor::address then panicked: {}",
            desc.explicit_script().unwrap().len(),
            panic_msg(e)
        );
    }

    let sigs: BTreeMap<bitcoin::PublicKey, ecdsa::Signature> =
        ks.iter().map(|k| (*k, dummy_sig())).collect();
    let r = catch_unwind(AssertUnwindSafe(|| desc.get_satisfaction(&sigs).map(|_| ())));
    if let Err(e) = r {
        panic!("C11 violated: get_satisfaction panicked: {}", panic_msg(e));
    }
}

#[test]
fn satisfying_the_oversized_sh_sortedmulti_must_not_panic() {
    let ks = keys(16);
    let thresh = Threshold::new(2, ks.clone()).unwrap();
    let desc = match Descriptor::<bitcoin::PublicKey>::new_sh_sortedmulti(thresh) {
        Err(_) => return,
        Ok(d) => d,
    };
    let sigs: BTreeMap<bitcoin::PublicKey, ecdsa::Signature> =
        ks.iter().map(|k| (*k, dummy_sig())).collect();
    let r = catch_unwind(AssertUnwindSafe(|| desc.get_satisfaction(&sigs).map(|_| ())));
    if let Err(e) = r {
        panic!(
            "C11 violated: Descriptor::get_satisfaction panicked on a descriptor that \
             new_sh_sortedmulti accepted: {}",
            panic_msg(e)
        );
    }
}

/// Control: 15 keys (514 bytes) is fine everywhere.
#[test]
fn control_15_keys() {
    let ks = keys(15);
    let desc =
        Descriptor::<bitcoin::PublicKey>::new_sh_sortedmulti(Threshold::new(2, ks).unwrap()).unwrap();
    let _ = desc.address(Network::Bitcoin).unwrap();
    assert!(desc.explicit_script().unwrap().len() <= 520);
}
