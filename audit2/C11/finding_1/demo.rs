//! C11 (second round) finding 1: comparing two descriptors that were parsed from text panics.
//!
//! `Descriptor`, `Miniscript` and `Terminal` implement `Ord` so that they can be sorted and kept in
//! `BTreeMap`/`BTreeSet`.  For the two (sane, standard) descriptors below `Ord::cmp` hits
//! `unreachable!("if the type of a node differs, its parent must have differed")` in
//! `src/miniscript/display.rs`.
//!
//! Property-level expectation (C11): text given to the parsers never makes the library panic; an
//! ordering of two successfully parsed descriptors is a total function.

use std::collections::BTreeSet;
use std::panic::{catch_unwind, AssertUnwindSafe};
use std::str::FromStr;

use miniscript::{Descriptor, DescriptorPublicKey, Miniscript, Segwitv0};

const K1: &str = "02e4dbb4350d84eabec1d67e40a398a78a8e6d719d86914393fca83b88dbe927af";
const K2: &str = "027a9fde3d4bbf403f6297519e9c94eafcd016b8668956ffc9e9746439477a28dd";
const K3: &str = "022ea4a94d1b6e16f30b911c08c7ad60e6ed9fb2fddb7b2e3431cd5752677c9adb";

fn panic_msg(e: Box<dyn std::any::Any + Send>) -> String {
    e.downcast_ref::<String>()
        .cloned()
        .or_else(|| e.downcast_ref::<&str>().map(|s| s.to_string()))
        .unwrap_or_default()
}

#[test]
fn ordering_two_parsed_descriptors_must_not_panic() {
    // 1-of-1 and 1-of-2 multisig, each followed by a second key check.
    let a = format!("wsh(and_v(v:multi(1,{}),pk({})))", K1, K3);
    let b = format!("wsh(and_v(v:multi(1,{},{}),pk({})))", K1, K2, K3);
    let a = Descriptor::<DescriptorPublicKey>::from_str(&a).expect("valid, sane descriptor");
    let b = Descriptor::<DescriptorPublicKey>::from_str(&b).expect("valid, sane descriptor");

    // what any wallet does that keeps its descriptors in an ordered collection
    let res = catch_unwind(AssertUnwindSafe(|| {
        let mut set = BTreeSet::new();
        set.insert(a.clone());
        set.insert(b.clone());
        set.len()
    }));
    match res {
        Ok(n) => assert_eq!(n, 2),
        Err(e) => panic!(
            "C11 violated: inserting two descriptors parsed from text into a BTreeSet panicked \
             instead of ordering them: {}",
            panic_msg(e)
        ),
    }
}

#[test]
fn ordering_two_parsed_miniscripts_must_not_panic() {
    let a = Miniscript::<String, Segwitv0>::from_str("and_v(v:multi(1,A),pk(C))").unwrap();
    let b = Miniscript::<String, Segwitv0>::from_str("and_v(v:multi(1,A,B),pk(C))").unwrap();
    for (x, y) in [(&a, &b), (&b, &a)] {
        let res = catch_unwind(AssertUnwindSafe(|| x.cmp(y)));
        if let Err(e) = res {
            panic!("C11 violated: Miniscript::cmp panicked: {}", panic_msg(e));
        }
    }
    // the order must also be antisymmetric and consistent with `==`
    assert_ne!(a, b);
    assert_eq!(a.cmp(&b), b.cmp(&a).reverse());
}

/// Control: descriptors that differ somewhere else are ordered without trouble.
#[test]
fn control_other_pairs_are_ordered() {
    let a = Descriptor::<DescriptorPublicKey>::from_str(&format!("wsh(multi(1,{},{}))", K1, K2)).unwrap();
    let b = Descriptor::<DescriptorPublicKey>::from_str(&format!("wsh(multi(2,{},{}))", K1, K2)).unwrap();
    assert_ne!(a.cmp(&b), std::cmp::Ordering::Equal);
}
