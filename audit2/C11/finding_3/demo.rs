//! C11 (second round) finding 3: `Descriptor::new_pk` panics when it is given an x-only key.
//!
//! `DescriptorPublicKey::from_str` accepts a 64-hex-character x-only key (it is the key form of
//! taproot descriptors).  `Descriptor::new_pk(key)` has no error return; internally it builds
//! `c:pk_k(key)` in the bare context with `.expect("Type check cannot fail")`, and the bare
//! context refuses x-only keys - so the constructor panics instead of reporting the key as
//! unusable.  (`new_pkh`, `new_wpkh`, `new_sh_wpkh` return `Err` for the very same key.)
//!
//! Property-level expectation (C11): a key that came out of the key parser never makes a
//! library call panic; an unusable key is reported as an error value.

use std::panic::{catch_unwind, AssertUnwindSafe};
use std::str::FromStr;

use miniscript::bitcoin::secp256k1::XOnlyPublicKey;
use miniscript::{Descriptor, DescriptorPublicKey};

const XONLY: &str = "50929b74c1a04954b78b4b6035e97a5e078a5a0f28ec96d547bfee9ace803ac0";

fn panic_msg(e: Box<dyn std::any::Any + Send>) -> String {
    e.downcast_ref::<String>()
        .cloned()
        .or_else(|| e.downcast_ref::<&str>().map(|s| s.to_string()))
        .unwrap_or_default()
}

#[test]
fn new_pk_with_parsed_x_only_descriptor_key_must_not_panic() {
    let key = DescriptorPublicKey::from_str(XONLY).expect("x-only keys are valid descriptor keys");

    // the sibling constructors report the problem as a value
    assert!(Descriptor::new_pkh(key.clone()).is_err());
    assert!(Descriptor::new_wpkh(key.clone()).is_err());
    // and so does the parser for the same descriptor as text
    assert!(Descriptor::<DescriptorPublicKey>::from_str(&format!("pk({})", XONLY)).is_err());

    let r = catch_unwind(AssertUnwindSafe(|| Descriptor::new_pk(key.clone()).to_string()));
    if let Err(e) = r {
        panic!(
            "C11 violated: Descriptor::new_pk panicked on a key accepted by \
             DescriptorPublicKey::from_str: {}",
            panic_msg(e)
        );
    }
}

#[test]
fn new_pk_with_secp_x_only_key_must_not_panic() {
    let key = XOnlyPublicKey::from_str(XONLY).unwrap();
    let r = catch_unwind(AssertUnwindSafe(|| Descriptor::<XOnlyPublicKey>::new_pk(key).to_string()));
    if let Err(e) = r {
        panic!("C11 violated: Descriptor::<XOnlyPublicKey>::new_pk panicked: {}", panic_msg(e));
    }
}

/// Control: a compressed key works.
#[test]
fn control_compressed_key() {
    let key = DescriptorPublicKey::from_str(&format!("02{}", XONLY)).unwrap();
    assert!(Descriptor::new_pk(key).to_string().starts_with("pk(02"));
}
